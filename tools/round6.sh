#!/bin/sh
# round6.sh <Pxx>: confirm the sub-agent's delivery /var/tmp/wt-out/r6-<Pxx>/1 in its scratch worktree
# (demo passes clean, fails patched, pinned suite passes patched), keep it as seeded/r6-<Pxx>-1, run the
# property's quick check against it on a scratch worktree (tools/seedpar.sh), and remove the agent's worktree.
p=$1; sd=/var/tmp/wt-out/r6-$p/1; wt=/var/tmp/wt/r6-$p
[ -f "$sd/patch.diff" ] && [ -f "$sd/demo.py" ] || { echo "r6-$p: no delivery"; exit 2; }
mkdir -p /var/tmp/vscratch
/verif/tools/confirm_seed.sh "$sd" "$wt" > /var/tmp/wt-out/r6-$p.confirm 2>&1
cat /var/tmp/wt-out/r6-$p.confirm
git -C /repo worktree remove --force "$wt"
if grep -q '"demo_clean_rc":0,"demo_patched_rc":1,"stable_passed":"179 ' /var/tmp/wt-out/r6-$p.confirm; then
  d=/verif/seeded/r6-$p-1; mkdir -p $d
  cp "$sd/patch.diff" "$sd/demo.py" "$sd/meta.json" $d/
  /verif/tools/seedpar.sh r6-$p-1 quick
else
  echo "r6-$p: NOT CONFIRMED"
fi
