#!/bin/sh
# every seeded change against its property's check, three at a time, on scratch worktrees -> seeded/RESULTS.txt
cd /verif
ls seeded | grep -v RESULTS | while read id; do
  extra=""; case "$id" in r4-C04-2) extra="C10";; esac
  echo "$id quick${extra:+ $extra}"
done | xargs -P ${SEEDPAR:-3} -L 1 ./tools/seedpar.sh > /var/tmp/vscratch/seedall.out 2>&1
sort /var/tmp/vscratch/seedall.out > seeded/RESULTS.txt
