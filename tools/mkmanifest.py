#!/usr/bin/env python3
"""Regenerate /verif/MANIFEST.json from the table below (keeps it schema-valid)."""
import json, os
HERE = os.path.dirname(os.path.dirname(os.path.abspath(__file__)))
ALL = ["C%02d" % i for i in range(1, 21)]
CHECKS = {
 "C11": dict(
   technique="TLA+ spec Decl.tla: every legal declaration (type, selector, ordered attribute list, entity decoration, documentation placement, dummy/local) and every call shape with a cursor is an initial state; the spec computes the equivalent declaration record and the active parameter; rendered declarations are hovered and calls are probed with signatureHelp, the parsed answers are compared with the spec state (calls under three dummy namings, two of them with names in a proper-prefix / letter-case relation)",
   text="13k states: 8 types x 8 selectors x attribute lists of length <=2 from 15 attributes (incl. VALUE, VOLATILE, ASYNCHRONOUS) x 7 decorations (values with top-level commas, with commas and '!' inside literals) x 7 doc placements x dummy/local (Legal validated with gfortran on a sample), and call shapes of <=3 arguments over plain/nested/string/keyword/comparison ('p2 == 0') arguments; own documentation must appear on the entity and on no neighbour; procedure hover must list the dummy with the same declaration.",
   note="Trusted: TLC, the hover normaliser (case, blanks, attribute order), renderer. Positions inside nested parentheses and doc blocks separated by a blank line are don't-care.",
   design="4/C11"),
 "C20": dict(
   technique="TLA+ spec Cycles.tla: shapes (relation kind x cycle length x tail) are initial states, the reference walker with a visited set is model-checked to take at most T+L steps and the walker without one is refuted; every shape is rendered to a workspace and, in a killable child process, indexed, diagnosed and queried with every positional request at every identifier",
   text="12 relation kinds (USE plain and mixed with ONLY, EXTENDS with overriding bindings, submodule ancestry, pointer =>, ASSOCIATE, procedure binding =>, procedure pointers by => / by interface / mixed with data pointers, INCLUDE, #include) x cycle lengths 1..3 (quick) / 1..4 x tails 0..1 x main program outside the cycle present/absent x one or two include lines per file: the child must finish within the wall-clock limit and no request may answer with an internal error.",
   note="Trusted: TLC, shape renderer, child process in its own process group under a 30 s limit per workspace of < 40 lines (typical < 1 s).",
   design="4/C20"),
 "C15": dict(
   technique="TLA+ spec InitIndex.tla (worker pool: dispatch/finish/merge in completion order, link phases after the last merge, and the open-one-at-a-time path): TLC proves confluence of the design over all interleavings for two dependency graphs and refutes the named deviation linkWhileMerging; the implementation is run in child processes over worker counts, permuted directory enumeration, hash seeds and every opening order, and the full query batteries are compared",
   text="Four workspaces (type links; INCLUDE+EXTENDS; SUBMODULE + 3-level EXTENDS chain; a user module named like a bundled intrinsic module) x 12 (quick) / up to 120 configurations each: nthreads in {1,2,3,4,8,16}, permutations of the listing, PYTHONHASHSEED in {0,1,2}, start-up path vs opening one at a time.",
   note="Real Pool schedules are sampled, not enumerated (stated limit). Trusted: TLC, battery normalisation, the os.listdir/os.walk permutation installed in the child before fortls is imported.",
   design="4/C15"),
 "C17": dict(
   technique="Preproc.tla carries an `effects` variable that no action changes (NoEffects model-checked); directive files simulated by TLC with host-language expressions as macro bodies and conditions, plus a slot catalogue (#if, #elif, #define+#if, #define+use, #include, pp_defs by file and by command line, function-like macro; two-step histories: the same directive text met with a harmless and then a hostile macro value in one file, in a second file, after an edit, after a header edit; the configuration file in YAML / Python / shell-metacharacter spellings under eight file names), are indexed and queried in a child process under a sys.addaudithook monitor, differentially against a benign control session",
   text="Every payload tries to create a canary; the recorded audit trace must contain no exec/compile-and-run, process, socket, import, write or delete event beyond the control's, and the canary must not exist.",
   note="Observation-based: no claim beyond the payload catalogue and the simulated files. Trusted: CPython audit events, the control-session subtraction.",
   design="4/C17"),
 "C19": dict(
   technique="TLA+ spec Config.tla: what the command line and the file say for up to two options and the kind of file (none, ok, five malformed kinds) form the initial state; Initialize computes the effective values by the reference rule; every state is bound to concrete option triples and a real server's attributes, messages and initialize answer are compared with the spec state",
   text="24 documented options (flags, integers, strings, path sets, suffix sets, pp_defs JSON) x {absent, CLI, file, both with different values} x pairs x 7 file kinds x 6 file layouts (default names in search order, custom name, -c, with a conflicting default-named decoy file); untouched options must stay at their defaults; the indexed file set is compared as the effect of source_dirs (incl. the root itself).",
   note="Trusted: TLC, option table (values per option type), attribute normalisation. Flags cannot be set to false on the command line; those combinations are skipped. Wrong value types are a recorded known finding.",
   design="4/C19"),
 "C18": dict(
   technique="TLA+ spec Discovery.tla: every (directory tree, settings) pair is an initial state; the spec computes ExpectedIndexed from the property statement and TLC checks the staged computation (resolve globs, choose source dirs, list files) equals it; sampled pairs are built as real trees and a real server's workspace/symbol answer is compared with the spec state",
   text="3125 trees (root, sub, sub/deep, ex and the hidden directory sub/.hid x 5 suffix profiles incl. mixed-case and look-alike suffixes such as .INC next to a configured .inc) x 240 settings (source_dirs unset/literal/recursive glob/name glob/the root itself, excl_paths none/dir/dir/**/file, incl_suffixes, excl_suffixes, CLI or file): 1.5k sampled pairs in quick, 24k in thorough.",
   note="Trusted: TLC, tree builder. A file counts as indexed iff its module is returned by workspace/symbol.",
   design="4/C18"),
 "C10": dict(
   technique="TLA+ spec Workspace.tla (sync events over three files with content variants, bound to four worlds of file contents: type links, preprocessor state, module/submodule/binding links, INCLUDE grafts; reference: index = fresh index in every quiescent state; two named deviations must be refuted by TLC); TLC-enumerated and simulated histories replayed against a long-lived server whose full query battery is compared, in every quiescent state, with a fresh server on a copy of the directory",
   text="All histories of <=4 (quick) / <=5 (thorough) events over open/edit/save/close/create+open/delete+close/query plus simulated histories of 12 and, for the preprocessor world, all 6-event histories over two files that edit both; battery = documentSymbol, workspace/symbol, definition+hover at every identifier, completion at every %, references of every declaration, diagnostics.",
   note="Trusted: TLC, battery normalisation (list order, path prefix). Quiescent = every open document saved since its last edit. New files are announced by didOpen.",
   design="4/C10"),
 "C05": dict(
   technique="TLA+ spec NameRes.tla: every standard-conforming universe (2 modules, program, internal procedure; declarations, default/explicit accessibility, USE with ONLY lists and renames, re-export) is an initial state for which TLC computes the binding of every reference; rendered to three files and go-to-definition at first/middle/last character of every reference is compared with the spec's binding",
   text="15k universes (2.5k sampled in quick, all in thorough) x every reference token x 3 cursor positions: declaration file/line and a range covering exactly the name; names that are accessible nowhere must not be answered with any declaration (in particular not a PRIVATE one).",
   note="Trusted: TLC, renderer with token coordinates. % chains / EXTENDS are decided on TypeRes.tla, diamond USE graphs (ONLY lists on every edge, an ONLY rename in the program, a PRIVATE-by-default hub or arm that re-exports explicitly) on UseGraph.tla. Not modelled: INCLUDE in NameRes, generics, parent-component access. Three root-cause findings keyed on universe features are recorded as known findings.",
   design="4/C05"),
 "C06": dict(
   technique="NameRes.tla universes with reference statements drawn from templates (adjacent occurrences 'n=n+1', occurrences in strings/comments, apostrophes inside double-quoted literals and quotes inside comments; access lists spelled in upper case); the spec state gives the entity of every identifier token; references / documentHighlight / rename from every occurrence are compared with the token set of the entity; TypeRes.tla universes (EXTENDS chains of every depth, file spread and link order) with a same-spelled component of an unrelated type used on the same lines: references from every use of a component",
   text="For each entity: every same-spelled token bound to it is required from every invocation point, tokens bound to other entities and tokens in strings/comments are forbidden, rename edits must cover exactly the required ranges with the new text; alias uses through 'lx => x' are don't-care for references and forbidden for rename.",
   note="Trusted as C05. Rename is checked on ranges/text, not by re-indexing the renamed program.",
   design="4/C06"),
 "C12": dict(
   technique="NameRes.tla universes: at every reference site and for every non-empty prefix of the name, the prefix is typed on a fresh statement line (didChange) and completion labels are compared with the spec's accessible-name set",
   text="Required: every accessible variable name with the prefix; forbidden: names of the model that are inaccessible at that site or lack the prefix.",
   note="Trusted as C05. USE / ONLY / CALL contexts come from the spec's ctx record (CALL also behind a logical IF and a ';'); the executable context is also typed as the right-hand side of an assignment to a name beginning with END / IMPORT; % chains on TypeRes.tla. TYPE( context and derived-type names in expressions are not generated.",
   design="4/C12"),
 "C13": dict(
   technique="TLA+ spec Layout.tla (re-layout operations as actions that change only the layout; line-map laws model-checked) composed with FortranScopes.tla programs: TLC enumerates op sequences per program size, the harness applies them to rendered programs and compares the server's dump (outline, diagnostics, per-entity hover text incl. link targets) of the re-laid-out file with the original's, lines mapped through the spec's LineMap",
   text="Valid and single-defect programs x every sequence of <=2 operations (exhaustive per program size, sampled per program) and simulated compositions of 3: blank/comment lines (also between the lines of a continued statement), & continuations with/without leading &, ; joins, trailing comments (also on the first line of a continued statement), LF/CRLF/CR, case, trailing blanks; sample sources are re-laid-out line-wise with blank/comment lines, EOL, case, ';' joins and trailing comments.",
   note="Trusted: TLC, layout applier, dump projection. A diagnostic of a statement spanning several physical lines may sit on any of them. Same-line ordering defects (';'-joined statements) and the free-form detection heuristic are recorded known findings.",
   design="4/C13"),
 "C14": dict(
   technique="Layout.tla ToFixed action: every program is rendered as its fixed-form twin (column-1 comment flags C c * ! d, column-6 continuation) and the server's dump for the .f file is compared with the free-form original through the spec's LineMap; FortranFile.fixed must equal the spec's form",
   text="Same programs and comparison as C13 with fixed-form layouts (blank/comment/continuation compositions of <=3 plus ToFixed); every free-form layout of C13 must be classified free.",
   note="Trusted as C13. Labelled DO with its own label per loop; labels shared between loops or procedures are not modelled.",
   design="4/C14"),
 "C03": dict(
   technique="inputs enumerated by TLC from FortranScopes.tla (all prefixes of valid programs; all sequences of the robust statement alphabet) and Preproc.tla (directive files with open conditionals; macro-table files with object-/function-like definitions, redefinition after #undef, call forms, conditions on macros naming each other, headers including themselves), long runs of one character class in every statement position, plus seeded mutations; each text indexed by a live server in killable workers; recorded add_scope/end_scope traces validated by TLC against FortranScopesTrace.tla",
   text="Every text must be indexed without exception within the CPU bound, leave no 'parsing failed' message, answer documentSymbol/definition/hover/completion/diagnostics without internal error, and its scope push/pop trace must satisfy the stack discipline (LIFO, first line <= last line, nothing left open at end of file).",
   note="Trusted: TLC, renderer, the add_scope/end_scope wrapper installed from outside. Statement-level and one-character-mutation coverage only; arbitrary byte strings are not enumerated.",
   design="4/C03"),
 "C04": dict(
   technique="TLA+ spec FortranScopes.tla (block grammar as guarded actions; well-nestedness invariants model-checked); every complete program TLC enumerates/simulates is rendered with seeded spacing and its documentSymbol / workspace/symbol answers are compared with the spec's closed-scope set (variables are named after statement keywords and assigned at the start of statements; one program in five is tab-indented and sent as didOpen text; a catalogue module declares ~60 keyword-like names; ten hand-written single-statement IF/WHERE/FORALL forms with nested parentheses, none of which may open a scope)",
   text="All complete valid programs of <=6 (quick) / <=8 (thorough) statements over units, procedures, CONTAINS nesting, types with components/bindings, interfaces and six block constructs, plus simulated programs of up to 30 statements: each required entity exactly once with admissible kind, container and first/last line; workspace/symbol equals the substring-filtered set of units and module members, sorted.",
   note="Trusted: TLC, renderer (validated with gfortran -fsyntax-only on a sample), admissible SymbolKind sets. Don't-care: entries the property does not mention.",
   design="4/C04"),
 "C07": dict(
   technique="FortranScopes.tla with seeded-defect actions: TLC enumerates valid programs and programs with exactly one defect (the spec records the expected diagnostic class, severity and line); rendered programs are opened in a live server and publishDiagnostics is compared with expDiag",
   text="Valid programs must publish no severity-1 diagnostic; for each of 17 modelled defect classes seeded at every applicable position within the bound the class/severity/line must be published and no other error class may appear.",
   note="Trusted: TLC, renderer, keyword-set classification of messages. The class 'unimplemented deferred binding' is decided on the universes of Deferred.tla (abstract base with 1-2 deferred bindings, EXTENDS chains of depth 2-3, every abstract/concrete and implements-subset combination, one module or one module per type in both link orders), validated against gfortran.",
   design="4/C07"),
 "C08": dict(
   technique="TLA+ spec Preproc.tla: TLC checks the implementation-shaped two-stack conditional machine against reference C-preprocessor semantics in every reachable state (named deviation must yield a counterexample); TLC-enumerated and simulated directive files replayed into preprocess_file and a live server, compared with the spec state; clang -E validates the spec",
   text="Exhaustive files of <=3 lines over the full directive alphabet, exhaustive conditional skeletons of 6 (quick) / 7 lines, exhaustive macro-table files of 5 / 4 lines (define, undef, redefine with another kind, use bare / call / two calls, include) and simulated files of up to 14 lines with nested expressions and hostile macro bodies: liveness of every code line, final macro table, expanded text of macro uses (incl. one level of macro-in-macro rescan) and indexed declarations are compared with the spec.",
   note="Trusted: TLC, renderer, clang only as validator of the reference layer. Function-like macros have one parameter and literal arguments (once or twice on a line); #include names four fixed headers. Not covered: arithmetic in #if, redefinition without #undef, stringify/paste, nested macro calls.",
   design="4/C08"),
 "C01": dict(
   technique="TLA+ spec LspServer.tla model-checked (3 named deviations must yield counterexamples); TLC-enumerated/simulated message sessions rendered and run through the real LangServer.run loop; recorded consume/write traces validated by TLC against LspServerTrace.tla",
   text="Every abstract session of <=3 (quick) / <=4 (thorough) messages over 5 request and 5 notification classes x ids, with and without initialize, plus simulated sessions of length 12, is run through the real connection class and server loop; TLC accepts a recorded trace only if each consumed request is followed by exactly one response with its id and an allowed tag before the next message is consumed, notifications write no response, and no input is left unread unless exit was consumed.",
   note="Trusted: TLC, trace recorder (subclass of the real JSONRPC2Connection wrapping read_message/_send), seeded rendering of classes to concrete methods/params. Well-formed JSON-RPC only; no batches.",
   design="4/C01"),
 "C09": dict(
   technique="sweep of every (line, character, method) through LangServer.handle; each exchange becomes a trace validated by TLC against LspServerTrace.tla in strict mode (result required; RangeOk on every returned range with recorded line geometry)",
   text="All positions (incl. one past each line end and past the last line) of sample sources, seeded mutations of them and generated files (every bundled intrinsic/keyword, every member of every bundled intrinsic module, preprocessed text with long and short macro expansions, documentation with braces, INCLUDE with diagnosable declarations in both files, an unterminated INTERFACE, declarations outside any unit) x 9 positional methods, references with includeDeclaration true / false / absent; diagnostics ranges included. TLC decides acceptance of each distinct (method, tag, ranges+geometry) outcome.",
   note="Trusted: TLC, range extractor (walks Location/TextEdit/Diagnostic shapes), geometry read from the server's own buffer. Outcomes are de-duplicated before validation; in-process handle() rather than stdio.",
   design="4/C09"),
 "C16": dict(
   technique="TLA+ spec Framing.tla model-checked (reference reader; two named deviations must yield counterexamples); TLC-enumerated (messages, header order, chunking) behaviours replayed into the real JSONRPC2Connection behind io.BufferedReader; server output frames validated by TLC against FramingTrace.tla; Uri.tla path shapes (14 character classes incl. decomposed and compatibility characters, upper case, a byte that is not valid UTF-8) replayed into path_to_uri/path_from_uri against an independent RFC 3986 codec",
   text="Exhaustive within the bound: <=2 messages x UTF-8 width classes 1..4 x 3 header orders x all chunkings with <=2/3 cuts (raw UTF-8 and \\u-escaped renderings), plus unit-wise delivery of a 9-message stream; outbound frames of sessions with non-ASCII payloads and paths must have Content-Length = byte length of the JSON value that follows.",
   note="Trusted: TLC, renderer width-class->bytes, independent frame reader and percent codec (written from the RFCs, not from jsonrpc.py).",
   design="4/C16"),
 "C02": dict(
   technique="TLA+ spec DocText.tla: TLC model checking of edit laws + exhaustive spec->code replay of TLC-enumerated (document, edit) transitions + TLC trace validation (DocTextTrace.tla) of recorded server sessions",
   text="TLC proves the reference edit semantics self-consistent (structured = character-level, line-count law, identity, whole-range = full) on a small bound; every transition instance TLC enumerates (3.4e5 quick) is replayed into FortranFile.apply_change and compared line for line; simulated multi-change sessions go through a live server (incremental: several ranged changes per notification; full synchronisation: several whole-document changes per notification); random-editor traces from the live server are accepted/rejected by TLC.",
   note="Trusted: TLC, the 60-line TLA+ value reader, the renderer letters->text. Alphabet {a,b} x {LF,CRLF,CR}; bounded document and insert sizes; lone-CR fusing corner is a recorded known finding.",
   design="4/C02"),
}
NOT_YET = "check not built yet (build in progress; see DESIGN.md section 8)"
def main():
    m = {
     "version": 1,
     "setup_cmd": "./tools/setup.sh",
     "hooks": {"guard": "FORTLS_VERIF", "enable": "no source hooks: fortls is sequential and its abstract state is observable at public boundaries; checks import fortls from ${VERIF_REPO:-/repo} and observe from outside",
               "baseline_off_cmd": "cd /repo && /venv/bin/python -m pytest -ra -q -p no:cacheprovider --timeout=900 --continue-on-collection-errors",
               "source_commits": [], "add_only": True},
     "engines": [{"name": "tlc", "path": "/verif/harness/tlc.py", "serves_properties": sorted(CHECKS), "kind_free_text": "TLC 1.8 model checker: exhaustive MC, state-dump behaviour generation, -simulate, batched trace validation"}],
     "checks": [], "not_applicable": [],
     "notes": "All verdicts come from TLC or from comparing implementation state with TLC-computed spec state; see DESIGN.md.",
    }
    for pid in ALL:
        if pid in CHECKS:
            c = CHECKS[pid]
            m["checks"].append({
              "property_id": pid,
              "quick_cmd": "./check %s --tier quick" % pid,
              "thorough_cmd": "./check %s --tier thorough" % pid,
              "evidence_file": "/verif/evidence/%s.json" % pid,
              "replay_cmd_template": "./check %s --replay {path}" % pid,
              "engine": "tlc",
              "level_claimed": {"category": c.get("category", "model_checking"), "text": c["text"], "design_ref": c["design"]},
              "level_note": c["note"],
              "technique": c["technique"],
            })
        else:
            m["not_applicable"].append({"property_id": pid, "reason": NOT_YET})
    json.dump(m, open(os.path.join(HERE, "MANIFEST.json"), "w"), indent=1)
if __name__ == "__main__":
    main()
