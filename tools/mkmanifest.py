#!/usr/bin/env python3
"""Regenerate /verif/MANIFEST.json from the table below (keeps it schema-valid)."""
import json, os
HERE = os.path.dirname(os.path.dirname(os.path.abspath(__file__)))
ALL = ["C%02d" % i for i in range(1, 21)]
CHECKS = {
 "C02": dict(
   technique="TLA+ spec DocText.tla: TLC model checking of edit laws + exhaustive spec->code replay of TLC-enumerated (document, edit) transitions + TLC trace validation (DocTextTrace.tla) of recorded server sessions",
   text="TLC proves the reference edit semantics self-consistent (structured = character-level, line-count law, identity, whole-range = full) on a small bound; every transition instance TLC enumerates (3.4e5 quick) is replayed into FortranFile.apply_change and compared line for line; simulated multi-change sessions go through a live server; random-editor traces from the live server are accepted/rejected by TLC.",
   note="Trusted: TLC, the 60-line TLA+ value reader, the renderer letters->text. Alphabet {a,b} x {LF,CRLF,CR}; bounded document and insert sizes; lone-CR fusing corner is a recorded known finding.",
   design="4/C02"),
}
NOT_YET = "check not built yet (build in progress; see DESIGN.md section 8)"
def main():
    m = {
     "version": 1,
     "setup_cmd": "./tools/setup.sh",
     "hooks": {"guard": "FORTLS_VERIF", "enable": "no source hooks: fortls is sequential and its abstract state is observable at public boundaries; checks import fortls from ${VERIF_REPO:-/repo} and observe from outside",
               "baseline_off_cmd": "cd /repo && /venv/bin/python -m pytest -ra -q -p no:cacheprovider --timeout=900 --continue-on-collection-errors",
               "source_commits": [], "add_only": True},
     "engines": [{"name": "tlc", "path": "/verif/harness/tlc.py", "serves_properties": sorted(CHECKS), "kind_free_text": "TLC 1.8 model checker: exhaustive MC, state-dump behaviour generation, -simulate, batched trace validation"}],
     "checks": [], "not_applicable": [],
     "notes": "All verdicts come from TLC or from comparing implementation state with TLC-computed spec state; see DESIGN.md.",
    }
    for pid in ALL:
        if pid in CHECKS:
            c = CHECKS[pid]
            m["checks"].append({
              "property_id": pid,
              "quick_cmd": "./check %s --tier quick" % pid,
              "thorough_cmd": "./check %s --tier thorough" % pid,
              "evidence_file": "/verif/evidence/%s.json" % pid,
              "replay_cmd_template": "./check %s --replay {path}" % pid,
              "engine": "tlc",
              "level_claimed": {"category": c.get("category", "model_checking"), "text": c["text"], "design_ref": c["design"]},
              "level_note": c["note"],
              "technique": c["technique"],
            })
        else:
            m["not_applicable"].append({"property_id": pid, "reason": NOT_YET})
    json.dump(m, open(os.path.join(HERE, "MANIFEST.json"), "w"), indent=1)
if __name__ == "__main__":
    main()
