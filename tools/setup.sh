#!/bin/sh
# Offline setup: syntax-check every spec with SANY, byte-compile the harness.
set -e
cd "$(dirname "$0")/.."
mkdir -p evidence replays
for f in specs/*.tla; do
  out=$(cd specs && java -cp /opt/veriftools/tla/tla2tools.jar:/opt/veriftools/tla/CommunityModules-deps.jar tla2sany.SANY "$(basename "$f")" 2>&1) || { echo "$out"; echo "SANY failed on $f"; exit 1; }
  echo "$out" | grep -q "Semantic errors\|\*\*\* Errors\|Parse Error\|Fatal errors" && { echo "$out"; echo "SANY errors in $f"; exit 1; }
done
/venv/bin/python -m compileall -q harness check >/dev/null
echo "setup ok"
