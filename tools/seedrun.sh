#!/bin/sh
# seedrun.sh <seed id e.g. C01-1> [tier]  : apply the seeded change to /repo, run the property's check, revert.
id=$1; tier=${2:-quick}; base=${id#r[0-9]-}; pid=${3:-${base%%-*}}
cd /repo || exit 2
test -z "$(git status --porcelain -- fortls)" || { echo "repo not clean"; exit 2; }
git apply --recount -C1 /verif/seeded/$id/patch.diff 2>/dev/null || { echo "PATCH-DOES-NOT-APPLY $id"; git checkout -q -f HEAD -- . ; exit 3; }
cd /verif; ./check $pid --tier $tier > /var/tmp/vscratch/seedrun.$id.$pid.log 2>&1; rc=$?
git -C /repo checkout -q -- .
echo "$id check=$pid tier=$tier exit=$rc $(grep -c '^VIOLATION' /var/tmp/vscratch/seedrun.$id.$pid.log) violation line(s)"
grep -A1 '^VIOLATION' /var/tmp/vscratch/seedrun.$id.$pid.log | grep tags | head -3
