#!/bin/sh
# run every registered check (tier $1, default quick) sequentially; print one line per check
tier=${1:-quick}
cd /verif
for p in C01 C02 C03 C04 C05 C06 C07 C08 C09 C10 C11 C12 C13 C14 C15 C16 C17 C18 C19 C20; do
  s=$(date +%s)
  ./check $p --tier $tier > /var/tmp/vscratch/runall.$p.log 2>&1; rc=$?
  e=$(date +%s)
  echo "$p rc=$rc $((e-s))s $(grep -c '^KNOWN-FINDING' /var/tmp/vscratch/runall.$p.log) known $(tail -1 /var/tmp/vscratch/runall.$p.log | cut -c1-120)"
done
