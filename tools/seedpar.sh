#!/bin/sh
# seedpar.sh <seed id> [tier] [check]: like seedrun.sh but on a scratch worktree of /repo (HEAD) - /repo itself is not
# touched, evidence/replays go to a scratch directory; safe to run while other checks run on /repo.
id=$1; tier=${2:-quick}; base=${id#r[0-9]-}; pid=${3:-${base%%-*}}
S=/var/tmp/vscratch/seedpar; wt=$S/wt-$id; out=$S/out-$id
mkdir -p $S; rm -rf "$out"; mkdir -p "$out"
git -C /repo worktree remove --force "$wt" >/dev/null 2>&1
git -C /repo worktree add -q --detach "$wt" HEAD || exit 2
if ! git -C "$wt" apply --recount -C1 /verif/seeded/$id/patch.diff 2>/dev/null; then
  echo "PATCH-DOES-NOT-APPLY $id"; git -C /repo worktree remove --force "$wt"; exit 3
fi
cd /verif; VERIF_REPO=$wt VERIF_OUT=$out VERIF_SCRATCH=$S/scratch-$id ./check $pid --tier $tier > $out/log 2>&1; rc=$?
git -C /repo worktree remove --force "$wt"; rm -rf $S/scratch-$id
echo "$id check=$pid tier=$tier exit=$rc $(grep -c '^VIOLATION' $out/log) violation line(s) $(grep -A1 '^VIOLATION' $out/log | grep tags | head -2 | tr '\n' ' ')"
rm -rf "$out"
