#!/bin/sh
# confirm_seed.sh <seed dir with patch.diff demo.py> <scratch worktree>  -> prints one JSON line
sd=$1; wt=$2
cd "$wt" || exit 2
git checkout -q -- . ; git clean -fdq
/venv/bin/python "$sd/demo.py" >/dev/null 2>&1; clean_rc=$?
git apply "$sd/patch.diff" || { echo "{\"seed\":\"$sd\",\"error\":\"patch does not apply\"}"; exit 1; }
/venv/bin/python "$sd/demo.py" >"$sd/demo.patched.out" 2>&1; patched_rc=$?
junit=$(mktemp /var/tmp/vscratch/junit.XXXXXX)
/venv/bin/python -m pytest -q -p no:cacheprovider -p no:hypothesispytest --no-cov --timeout=900 --junitxml="$junit" >/dev/null 2>&1
res=$(/venv/bin/python - "$junit" <<'PY'
import json,sys,xml.etree.ElementTree as ET
stable=set(json.load(open('/root/.vp/BASELINE.json'))['stable_pass'])
passed=set()
for tc in ET.parse(sys.argv[1]).getroot().iter('testcase'):
    if not any(c.tag in ('failure','error','skipped') for c in tc):
        passed.add(tc.get('classname')+'::'+tc.get('name'))
print(len(stable&passed), sorted(stable-passed)[:3])
PY
)
rm -f "$junit"
git checkout -q -- . ; git clean -fdq
echo "{\"seed\":\"$sd\",\"demo_clean_rc\":$clean_rc,\"demo_patched_rc\":$patched_rc,\"stable_passed\":\"$res\"}"
