#!/bin/sh
# run every seeded change against the check(s) of its property; one line per seed in /verif/seeded/RESULTS.txt
cd /verif
: > seeded/RESULTS.txt
for d in seeded/*/; do
  id=$(basename "$d")
  extra=""
  case "$id" in
    r4-C04-2) extra="C10";;   # history-dependent: caught by the C10 differential
  esac
  ./tools/seedrun.sh "$id" quick $extra 2>&1 | grep -v "^KNOWN" | head -2 | tr '\n' ' ' >> seeded/RESULTS.txt
  echo >> seeded/RESULTS.txt
done
git -C /repo status --short >> seeded/RESULTS.txt
