#!/bin/sh
# Run the repository's pinned suite with the guard off and compare with BASELINE.json's stable set.
out=${1:-/var/tmp/vscratch/baseline.junit.xml}
mkdir -p "$(dirname "$out")"
cd /repo && env -u FORTLS_VERIF /venv/bin/python -m pytest -ra -q -p no:cacheprovider --timeout=900 --continue-on-collection-errors --junitxml="$out" >/var/tmp/vscratch/baseline.log 2>&1
/venv/bin/python - "$out" <<'PY'
import json,sys,xml.etree.ElementTree as ET
stable=set(json.load(open('/root/.vp/BASELINE.json'))['stable_pass'])
passed=set()
for tc in ET.parse(sys.argv[1]).getroot().iter('testcase'):
    if not any(c.tag in ('failure','error','skipped') for c in tc):
        passed.add(tc.get('classname')+'::'+tc.get('name'))
missing=sorted(stable-passed)
print("stable=%d passed_of_stable=%d missing=%s"%(len(stable),len(stable&passed),missing))
sys.exit(1 if missing else 0)
PY
rc=$?
cd /repo && rm -f .coverage.vm.* ; git -C /repo status --short
exit $rc
