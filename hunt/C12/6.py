"""Defect 6: `USE bmod, ONLY: <prefix>`: an entity that bmod itself obtained with a
rename (`use amod, only: qb_three => qa_three`) is offered under its ORIGINAL
name qa_three, which is not a name bmod exports (the public member is
qb_three), and is matched against the prefix by the new name.

Run as: cd <checkout> && /venv/bin/python <path>/6.py ; exit 1 = defect shows, 0 = not.
"""
import json, os, shutil, subprocess, sys, tempfile
from io import StringIO

sys.path.insert(0, os.getcwd())


def complete(files, fname, marker="|", extra_args=()):
    """Write `files` to a fresh dir under /var/tmp, start fortls (from the checkout
    in the current working directory) in a child process, ask for completion at
    every `marker` in files[fname]; return [(line_prefix, sorted labels | None)]."""
    from fortls.jsonrpc import (path_to_uri, read_rpc_messages,
                                write_rpc_notification, write_rpc_request)

    lines = files[fname].split("\n")
    queries = []
    for i, line in enumerate(lines):
        while marker in line:
            c = line.index(marker)
            line = line[:c] + line[c + 1:]
            queries.append((i, c))
        lines[i] = line
    files = dict(files)
    files[fname] = "\n".join(lines)
    root = tempfile.mkdtemp(dir="/var/tmp", prefix="hC12_")
    try:
        for name, text in files.items():
            with open(os.path.join(root, name), "w") as fh:
                fh.write(text)
        msg = write_rpc_request(1, "initialize", {"rootPath": root})
        for k, (ln, ch) in enumerate(queries):
            msg += write_rpc_request(
                k + 2,
                "textDocument/completion",
                {
                    "textDocument": {"uri": path_to_uri(os.path.join(root, fname))},
                    "position": {"line": ln, "character": ch},
                },
            )
        msg += write_rpc_notification("exit", {})
        env = dict(os.environ, PYTHONPATH=os.getcwd())
        proc = subprocess.run(
            [sys.executable, "-m", "fortls", "--disable_autoupdate",
             "--incremental_sync", *extra_args],
            input=msg.encode(), capture_output=True, timeout=60,
            cwd=os.getcwd(), env=env,
        )
        replies = {m.get("id"): m for m in
                   read_rpc_messages(StringIO(proc.stdout.decode())) if "id" in m}
        out = []
        for k, (ln, ch) in enumerate(queries):
            m = replies.get(k + 2)
            if m is None or "error" in m:
                labels = "NO-REPLY/ERROR: %r" % (m,)
            elif m["result"] is None:
                labels = None
            else:
                labels = sorted(item["label"] for item in m["result"])
            out.append((lines[ln][:ch], labels))
        return out
    finally:
        shutil.rmtree(root, ignore_errors=True)

FILES = {
    "a.f90": """module amod
  implicit none
  integer :: qa_three
end module
""",
    "b.f90": """module bmod
  use amod, only: qb_three => qa_three
  implicit none
  integer :: qb_own
end module
""",
    "p.f90": """subroutine s()
  use bmod, only: qb_|
  implicit none
end subroutine
subroutine control()
  use bmod
  implicit none
  integer :: x
  x = qb_|
  x = qa_|
end subroutine
""",
}
res = complete(FILES, "p.f90")
expected = [["qb_own", "qb_three"], ["qb_own", "qb_three"], []]
bad = 0
for (prefix, labels), exp in zip(res, expected):
    ok = labels == exp
    bad += not ok
    print("%-24r expected %r observed %r %s" % (prefix, exp, labels, "" if ok else "<-- DEFECT"))
sys.exit(1 if bad else 0)
