"""Defect 1: no completion at all in an assignment whose left-hand side is a
variable whose name merely BEGINS with "end" (end_time, endpoint, ...).
get_line_context() applies FRegex.END (no word boundary) and answers "skip".

Run as: cd <checkout> && /venv/bin/python <path>/1.py ; exit 1 = defect shows, 0 = not.
"""
import json, os, shutil, subprocess, sys, tempfile
from io import StringIO

sys.path.insert(0, os.getcwd())


def complete(files, fname, marker="|", extra_args=()):
    """Write `files` to a fresh dir under /var/tmp, start fortls (from the checkout
    in the current working directory) in a child process, ask for completion at
    every `marker` in files[fname]; return [(line_prefix, sorted labels | None)]."""
    from fortls.jsonrpc import (path_to_uri, read_rpc_messages,
                                write_rpc_notification, write_rpc_request)

    lines = files[fname].split("\n")
    queries = []
    for i, line in enumerate(lines):
        while marker in line:
            c = line.index(marker)
            line = line[:c] + line[c + 1:]
            queries.append((i, c))
        lines[i] = line
    files = dict(files)
    files[fname] = "\n".join(lines)
    root = tempfile.mkdtemp(dir="/var/tmp", prefix="hC12_")
    try:
        for name, text in files.items():
            with open(os.path.join(root, name), "w") as fh:
                fh.write(text)
        msg = write_rpc_request(1, "initialize", {"rootPath": root})
        for k, (ln, ch) in enumerate(queries):
            msg += write_rpc_request(
                k + 2,
                "textDocument/completion",
                {
                    "textDocument": {"uri": path_to_uri(os.path.join(root, fname))},
                    "position": {"line": ln, "character": ch},
                },
            )
        msg += write_rpc_notification("exit", {})
        env = dict(os.environ, PYTHONPATH=os.getcwd())
        proc = subprocess.run(
            [sys.executable, "-m", "fortls", "--disable_autoupdate",
             "--incremental_sync", *extra_args],
            input=msg.encode(), capture_output=True, timeout=60,
            cwd=os.getcwd(), env=env,
        )
        replies = {m.get("id"): m for m in
                   read_rpc_messages(StringIO(proc.stdout.decode())) if "id" in m}
        out = []
        for k, (ln, ch) in enumerate(queries):
            m = replies.get(k + 2)
            if m is None or "error" in m:
                labels = "NO-REPLY/ERROR: %r" % (m,)
            elif m["result"] is None:
                labels = None
            else:
                labels = sorted(item["label"] for item in m["result"])
            out.append((lines[ln][:ch], labels))
        return out
    finally:
        shutil.rmtree(root, ignore_errors=True)

FILES = {
    "p.f90": """program pp
  implicit none
  real :: start_time, end_time, endpoint, x
  x = start_|
  end_time = start_|
  endpoint = start_|
  end_time = x + start_|
end program
"""
}
res = complete(FILES, "p.f90")
expected = ["start_time"]
bad = 0
for prefix, labels in res:
    ok = labels == expected
    bad += not ok
    print("%-28r expected %r observed %r %s" % (prefix, expected, labels, "" if ok else "<-- DEFECT"))
sys.exit(1 if bad else 0)
