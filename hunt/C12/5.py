"""Defect 5: in an executable statement derived types are never offered
(structure constructors `obj = point_t(1., 2.)`, typed ALLOCATE
`allocate(point_t :: p)`), although variables and procedures with the same
prefix are.

Run as: cd <checkout> && /venv/bin/python <path>/5.py ; exit 1 = defect shows, 0 = not.
"""
import json, os, shutil, subprocess, sys, tempfile
from io import StringIO

sys.path.insert(0, os.getcwd())


def complete(files, fname, marker="|", extra_args=()):
    """Write `files` to a fresh dir under /var/tmp, start fortls (from the checkout
    in the current working directory) in a child process, ask for completion at
    every `marker` in files[fname]; return [(line_prefix, sorted labels | None)]."""
    from fortls.jsonrpc import (path_to_uri, read_rpc_messages,
                                write_rpc_notification, write_rpc_request)

    lines = files[fname].split("\n")
    queries = []
    for i, line in enumerate(lines):
        while marker in line:
            c = line.index(marker)
            line = line[:c] + line[c + 1:]
            queries.append((i, c))
        lines[i] = line
    files = dict(files)
    files[fname] = "\n".join(lines)
    root = tempfile.mkdtemp(dir="/var/tmp", prefix="hC12_")
    try:
        for name, text in files.items():
            with open(os.path.join(root, name), "w") as fh:
                fh.write(text)
        msg = write_rpc_request(1, "initialize", {"rootPath": root})
        for k, (ln, ch) in enumerate(queries):
            msg += write_rpc_request(
                k + 2,
                "textDocument/completion",
                {
                    "textDocument": {"uri": path_to_uri(os.path.join(root, fname))},
                    "position": {"line": ln, "character": ch},
                },
            )
        msg += write_rpc_notification("exit", {})
        env = dict(os.environ, PYTHONPATH=os.getcwd())
        proc = subprocess.run(
            [sys.executable, "-m", "fortls", "--disable_autoupdate",
             "--incremental_sync", *extra_args],
            input=msg.encode(), capture_output=True, timeout=60,
            cwd=os.getcwd(), env=env,
        )
        replies = {m.get("id"): m for m in
                   read_rpc_messages(StringIO(proc.stdout.decode())) if "id" in m}
        out = []
        for k, (ln, ch) in enumerate(queries):
            m = replies.get(k + 2)
            if m is None or "error" in m:
                labels = "NO-REPLY/ERROR: %r" % (m,)
            elif m["result"] is None:
                labels = None
            else:
                labels = sorted(item["label"] for item in m["result"])
            out.append((lines[ln][:ch], labels))
        return out
    finally:
        shutil.rmtree(root, ignore_errors=True)

FILES = {
    "m.f90": """module geom
  implicit none
  type :: point_t
    real :: x, y
  end type
  real :: point_scale
contains
  real function point_norm(p)
    type(point_t) :: p
    point_norm = p%x
  end function
end module
program pp
  use geom
  implicit none
  type :: point_local_t
    integer :: k
  end type
  type(point_t) :: obj
  class(point_t), allocatable :: p
  obj = point_|
  allocate(point_|
  type(point_|
end program
"""
}
res = complete(FILES, "m.f90")
expected = [
    ["point_local_t", "point_norm", "point_scale", "point_t"],
    ["point_local_t", "point_norm", "point_scale", "point_t"],
    ["point_local_t", "point_t"],  # control: declaration context knows the types
]
bad = 0
for (prefix, labels), exp in zip(res, expected):
    ok = labels == exp
    bad += not ok
    print("%-22r expected %r\n%22s observed %r %s" % (prefix, exp, "", labels, "" if ok else "<-- DEFECT"))
sys.exit(1 if bad else 0)
