"""Defect 2: "after CALL only callable entities" holds only when CALL is the very
first token of the line.  `if (cond) call <prefix>`, a labelled `100 call ...`
and `stmt; call ...` fall through to the default context and offer plain
variables (and functions' result-less data objects) as well.

Run as: cd <checkout> && /venv/bin/python <path>/2.py ; exit 1 = defect shows, 0 = not.
"""
import json, os, shutil, subprocess, sys, tempfile
from io import StringIO

sys.path.insert(0, os.getcwd())


def complete(files, fname, marker="|", extra_args=()):
    """Write `files` to a fresh dir under /var/tmp, start fortls (from the checkout
    in the current working directory) in a child process, ask for completion at
    every `marker` in files[fname]; return [(line_prefix, sorted labels | None)]."""
    from fortls.jsonrpc import (path_to_uri, read_rpc_messages,
                                write_rpc_notification, write_rpc_request)

    lines = files[fname].split("\n")
    queries = []
    for i, line in enumerate(lines):
        while marker in line:
            c = line.index(marker)
            line = line[:c] + line[c + 1:]
            queries.append((i, c))
        lines[i] = line
    files = dict(files)
    files[fname] = "\n".join(lines)
    root = tempfile.mkdtemp(dir="/var/tmp", prefix="hC12_")
    try:
        for name, text in files.items():
            with open(os.path.join(root, name), "w") as fh:
                fh.write(text)
        msg = write_rpc_request(1, "initialize", {"rootPath": root})
        for k, (ln, ch) in enumerate(queries):
            msg += write_rpc_request(
                k + 2,
                "textDocument/completion",
                {
                    "textDocument": {"uri": path_to_uri(os.path.join(root, fname))},
                    "position": {"line": ln, "character": ch},
                },
            )
        msg += write_rpc_notification("exit", {})
        env = dict(os.environ, PYTHONPATH=os.getcwd())
        proc = subprocess.run(
            [sys.executable, "-m", "fortls", "--disable_autoupdate",
             "--incremental_sync", *extra_args],
            input=msg.encode(), capture_output=True, timeout=60,
            cwd=os.getcwd(), env=env,
        )
        replies = {m.get("id"): m for m in
                   read_rpc_messages(StringIO(proc.stdout.decode())) if "id" in m}
        out = []
        for k, (ln, ch) in enumerate(queries):
            m = replies.get(k + 2)
            if m is None or "error" in m:
                labels = "NO-REPLY/ERROR: %r" % (m,)
            elif m["result"] is None:
                labels = None
            else:
                labels = sorted(item["label"] for item in m["result"])
            out.append((lines[ln][:ch], labels))
        return out
    finally:
        shutil.rmtree(root, ignore_errors=True)

FILES = {
    "p.f90": """module zm
  implicit none
  integer :: zeta_modvar
contains
  subroutine zeta_sub(a)
    integer :: a
  end subroutine
end module
program pp
  use zm
  implicit none
  integer :: zeta_var
  logical :: flag
  call zeta_|
  if (flag) call zeta_|
  if (zeta_var > 0 .and. flag) call zeta_|
100 call zeta_|
  zeta_var = 1; call zeta_|
end program
"""
}
res = complete(FILES, "p.f90")
expected = ["zeta_sub"]
bad = 0
for prefix, labels in res:
    ok = labels == expected
    bad += not ok
    print("%-42r expected %r observed %r %s" % (prefix, expected, labels, "" if ok else "<-- DEFECT"))
sys.exit(1 if bad else 0)
