"""Defect 3: PRIVATE components / PRIVATE type-bound procedures of a parent type
are offered after `object%` inside the module that EXTENDS the type (a different
module from the one that declares the parent), where they are inaccessible.
The private/public decision is taken once for the whole (extended) type.

Run as: cd <checkout> && /venv/bin/python <path>/3.py ; exit 1 = defect shows, 0 = not.
"""
import json, os, shutil, subprocess, sys, tempfile
from io import StringIO

sys.path.insert(0, os.getcwd())


def complete(files, fname, marker="|", extra_args=()):
    """Write `files` to a fresh dir under /var/tmp, start fortls (from the checkout
    in the current working directory) in a child process, ask for completion at
    every `marker` in files[fname]; return [(line_prefix, sorted labels | None)]."""
    from fortls.jsonrpc import (path_to_uri, read_rpc_messages,
                                write_rpc_notification, write_rpc_request)

    lines = files[fname].split("\n")
    queries = []
    for i, line in enumerate(lines):
        while marker in line:
            c = line.index(marker)
            line = line[:c] + line[c + 1:]
            queries.append((i, c))
        lines[i] = line
    files = dict(files)
    files[fname] = "\n".join(lines)
    root = tempfile.mkdtemp(dir="/var/tmp", prefix="hC12_")
    try:
        for name, text in files.items():
            with open(os.path.join(root, name), "w") as fh:
                fh.write(text)
        msg = write_rpc_request(1, "initialize", {"rootPath": root})
        for k, (ln, ch) in enumerate(queries):
            msg += write_rpc_request(
                k + 2,
                "textDocument/completion",
                {
                    "textDocument": {"uri": path_to_uri(os.path.join(root, fname))},
                    "position": {"line": ln, "character": ch},
                },
            )
        msg += write_rpc_notification("exit", {})
        env = dict(os.environ, PYTHONPATH=os.getcwd())
        proc = subprocess.run(
            [sys.executable, "-m", "fortls", "--disable_autoupdate",
             "--incremental_sync", *extra_args],
            input=msg.encode(), capture_output=True, timeout=60,
            cwd=os.getcwd(), env=env,
        )
        replies = {m.get("id"): m for m in
                   read_rpc_messages(StringIO(proc.stdout.decode())) if "id" in m}
        out = []
        for k, (ln, ch) in enumerate(queries):
            m = replies.get(k + 2)
            if m is None or "error" in m:
                labels = "NO-REPLY/ERROR: %r" % (m,)
            elif m["result"] is None:
                labels = None
            else:
                labels = sorted(item["label"] for item in m["result"])
            out.append((lines[ln][:ch], labels))
        return out
    finally:
        shutil.rmtree(root, ignore_errors=True)

FILES = {
    "base.f90": """module base_mod
  implicit none
  private
  public :: base_t
  type :: base_t
    private
    integer :: hidden_b
    integer, public :: shown_b
  contains
    private
    procedure :: priv_bind
    procedure, public :: pub_bind
  end type
contains
  subroutine priv_bind(self)
    class(base_t) :: self
  end subroutine
  subroutine pub_bind(self)
    class(base_t) :: self
  end subroutine
end module
""",
    "child.f90": """module child_mod
  use base_mod, only: base_t
  implicit none
  type, extends(base_t) :: child_t
    integer :: c_comp
  contains
    procedure :: c_bind
  end type
contains
  subroutine c_bind(self)
    class(child_t) :: self
    type(base_t) :: plain
    plain%|
    self%|
    self%h|
    call self%p|
  end subroutine
end module
""",
}
res = complete(FILES, "child.f90")
expected = [
    ["pub_bind", "shown_b"],                       # control: not extended -> correct
    ["c_bind", "c_comp", "pub_bind", "shown_b"],
    [],
    ["pub_bind"],
]
bad = 0
for (prefix, labels), exp in zip(res, expected):
    ok = labels == exp
    bad += not ok
    print("%-20r expected %r\n%20s observed %r %s" % (prefix, exp, "", labels, "" if ok else "<-- DEFECT"))
sys.exit(1 if bad else 0)
