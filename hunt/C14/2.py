"""h-C14 defect 2 - see REPORT.md.  Run as: cd <checkout> && /venv/bin/python 2.py"""
import json, os, shutil, subprocess, sys, tempfile, threading

TIMEOUT = 45


def _frame(obj):
    b = json.dumps(obj).encode()
    return b"Content-Length: %d\r\n\r\n" % len(b) + b


def _read(f):
    n = None
    while True:
        line = f.readline()
        if not line:
            return None
        line = line.strip()
        if not line:
            break
        if line.lower().startswith(b"content-length:"):
            n = int(line.split(b":")[1])
    return json.loads(f.read(n))


def lsp_session(root, steps):
    """Run fortls (from the checkout in the current working directory) as a
    child process, send `steps` = [(method, params, is_request)], return
    ([result of every request in order], [notifications])."""
    code = (
        "import sys, os; sys.path.insert(0, os.getcwd()); "
        "from fortls import main; "
        "sys.argv = ['fortls', '--disable_autoupdate']; main()"
    )
    p = subprocess.Popen(
        [sys.executable, "-c", code],
        stdin=subprocess.PIPE,
        stdout=subprocess.PIPE,
        stderr=subprocess.DEVNULL,
        cwd=os.getcwd(),
    )
    killer = threading.Timer(TIMEOUT, p.kill)
    killer.start()
    results, notes = [], []
    try:
        mid = 0
        msgs = [("initialize", {"rootPath": root, "capabilities": {}}, True)]
        msgs += list(steps)
        for method, params, is_req in msgs:
            m = {"jsonrpc": "2.0", "method": method, "params": params}
            if is_req:
                mid += 1
                m["id"] = mid
            p.stdin.write(_frame(m))
            p.stdin.flush()
            while is_req:
                r = _read(p.stdout)
                if r is None:
                    raise RuntimeError("fortls died or timed out")
                if r.get("id") == mid and "method" not in r:
                    results.append(r.get("result"))
                    break
                notes.append(r)
        try:
            p.stdin.write(_frame({"jsonrpc": "2.0", "method": "shutdown", "id": mid + 1, "params": None}))
            p.stdin.write(_frame({"jsonrpc": "2.0", "method": "exit", "params": None}))
            p.stdin.flush()
            p.wait(5)
        except Exception:
            pass
    finally:
        killer.cancel()
        if p.poll() is None:
            p.kill()
    return results[1:], notes


def uri(path):
    return "file://" + path


def open_and_query(files, queries):
    """files: {name: text} written to a fresh workspace; every file is opened.
    queries: [(method, file name, line, character)] (0-based positions; line
    None for documentSymbol).  Returns (results, {name: diagnostics})."""
    root = tempfile.mkdtemp(dir="/var/tmp", prefix="hC14_")
    try:
        steps = []
        for name, text in files.items():
            path = os.path.join(root, name)
            with open(path, "w", newline="") as f:
                f.write(text)
            steps.append((
                "textDocument/didOpen",
                {"textDocument": {"uri": uri(path), "languageId": "fortran", "version": 1, "text": text}},
                False,
            ))
        for method, name, line, char in queries:
            prm = {"textDocument": {"uri": uri(os.path.join(root, name))}}
            if line is not None:
                prm["position"] = {"line": line, "character": char}
            if method.endswith("references"):
                prm["context"] = {"includeDeclaration": True}
            steps.append((method, prm, True))
        results, notes = lsp_session(root, steps)
        diags = {}
        for n in notes:
            if n.get("method") == "textDocument/publishDiagnostics":
                diags[os.path.basename(n["params"]["uri"])] = [
                    (d["range"]["start"]["line"], d["message"]) for d in n["params"]["diagnostics"]
                ]
        return results, diags
    finally:
        shutil.rmtree(root, ignore_errors=True)


def hover_text(r):
    if not r:
        return None
    c = r.get("contents")
    if isinstance(c, dict):
        c = c.get("value")
    return " ".join(str(c).replace("```fortran90", "").replace("```", "").split())


def symbols(r):
    return sorted((s["name"].strip().lower(), s["kind"], (s.get("containerName") or "").lower()) for s in (r or []))


def ref_lines(r):
    return sorted((x["range"]["start"]["line"], x["range"]["start"]["character"]) for x in (r or []))


FIXED = """\
C     fixed form: comment and blank lines between continuation lines
      subroutine foo(a,
C        the b argument
     &               b)
      integer a,
c     a comment between the lines of one statement

     &        b
      a = b
      end
"""
FREE = """\
!     the same program in free form
subroutine foo(a, &
!        the b argument
               b)
  integer a, &
!     a comment between the lines of one statement

          b
  a = b
end
"""
FIXED_PP = """\
C     fixed form: preprocessor lines between continuation lines
      subroutine bar(a,
#ifdef HAVE_C
     &               c,
#endif
     &               b)
      integer a, b, c
      a = b
      end
"""
FREE_PP = """\
!     the same program in free form
subroutine bar(a, &
#ifdef HAVE_C
               c, &
#endif
               b)
  integer a, b, c
  a = b
end
"""


def run(name, text, l_sub, c_sub, l_b, c_b):
    res, diags = open_and_query(
        {name: text},
        [
            ("textDocument/hover", name, l_sub, c_sub),
            ("textDocument/hover", name, l_b, c_b),
            ("textDocument/documentSymbol", name, None, None),
        ],
    )
    return hover_text(res[0]), hover_text(res[1]), symbols(res[2]), diags.get(name)


bad = False
for title, (fx, fr) in {
    "comment + blank lines between continuation lines": (
        run("foo.f", FIXED, 1, 18, 8, 10),
        run("foo.f90", FREE, 1, 12, 8, 6),
    ),
    "preprocessor lines between continuation lines (.F / .F90)": (
        run("bar.F", FIXED_PP, 1, 18, 7, 10),
        run("bar.F90", FREE_PP, 1, 12, 7, 6),
    ),
}.items():
    print("==", title)
    print("EXPECTED (free-form rendering):")
    print("   hover on subroutine name:", fr[0])
    print("   hover on `b` in `a = b`  :", fr[1])
    print("   symbols:", fr[2], "diagnostics:", fr[3])
    print("OBSERVED (fixed form):")
    print("   hover on subroutine name:", fx[0])
    print("   hover on `b` in `a = b`  :", fx[1])
    print("   symbols:", fx[2], "diagnostics:", fx[3])
    if fx != fr:
        bad = True
print("DEFECT SHOWN" if bad else "no defect")
sys.exit(1 if bad else 0)
