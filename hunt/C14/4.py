"""h-C14 defect 4 - see REPORT.md.  Run as: cd <checkout> && /venv/bin/python 4.py"""
import json, os, shutil, subprocess, sys, tempfile, threading

TIMEOUT = 45


def _frame(obj):
    b = json.dumps(obj).encode()
    return b"Content-Length: %d\r\n\r\n" % len(b) + b


def _read(f):
    n = None
    while True:
        line = f.readline()
        if not line:
            return None
        line = line.strip()
        if not line:
            break
        if line.lower().startswith(b"content-length:"):
            n = int(line.split(b":")[1])
    return json.loads(f.read(n))


def lsp_session(root, steps):
    """Run fortls (from the checkout in the current working directory) as a
    child process, send `steps` = [(method, params, is_request)], return
    ([result of every request in order], [notifications])."""
    code = (
        "import sys, os; sys.path.insert(0, os.getcwd()); "
        "from fortls import main; "
        "sys.argv = ['fortls', '--disable_autoupdate']; main()"
    )
    p = subprocess.Popen(
        [sys.executable, "-c", code],
        stdin=subprocess.PIPE,
        stdout=subprocess.PIPE,
        stderr=subprocess.DEVNULL,
        cwd=os.getcwd(),
    )
    killer = threading.Timer(TIMEOUT, p.kill)
    killer.start()
    results, notes = [], []
    try:
        mid = 0
        msgs = [("initialize", {"rootPath": root, "capabilities": {}}, True)]
        msgs += list(steps)
        for method, params, is_req in msgs:
            m = {"jsonrpc": "2.0", "method": method, "params": params}
            if is_req:
                mid += 1
                m["id"] = mid
            p.stdin.write(_frame(m))
            p.stdin.flush()
            while is_req:
                r = _read(p.stdout)
                if r is None:
                    raise RuntimeError("fortls died or timed out")
                if r.get("id") == mid and "method" not in r:
                    results.append(r.get("result"))
                    break
                notes.append(r)
        try:
            p.stdin.write(_frame({"jsonrpc": "2.0", "method": "shutdown", "id": mid + 1, "params": None}))
            p.stdin.write(_frame({"jsonrpc": "2.0", "method": "exit", "params": None}))
            p.stdin.flush()
            p.wait(5)
        except Exception:
            pass
    finally:
        killer.cancel()
        if p.poll() is None:
            p.kill()
    return results[1:], notes


def uri(path):
    return "file://" + path


def open_and_query(files, queries):
    """files: {name: text} written to a fresh workspace; every file is opened.
    queries: [(method, file name, line, character)] (0-based positions; line
    None for documentSymbol).  Returns (results, {name: diagnostics})."""
    root = tempfile.mkdtemp(dir="/var/tmp", prefix="hC14_")
    try:
        steps = []
        for name, text in files.items():
            path = os.path.join(root, name)
            with open(path, "w", newline="") as f:
                f.write(text)
            steps.append((
                "textDocument/didOpen",
                {"textDocument": {"uri": uri(path), "languageId": "fortran", "version": 1, "text": text}},
                False,
            ))
        for method, name, line, char in queries:
            prm = {"textDocument": {"uri": uri(os.path.join(root, name))}}
            if line is not None:
                prm["position"] = {"line": line, "character": char}
            if method.endswith("references"):
                prm["context"] = {"includeDeclaration": True}
            steps.append((method, prm, True))
        results, notes = lsp_session(root, steps)
        diags = {}
        for n in notes:
            if n.get("method") == "textDocument/publishDiagnostics":
                diags[os.path.basename(n["params"]["uri"])] = [
                    (d["range"]["start"]["line"], d["message"]) for d in n["params"]["diagnostics"]
                ]
        return results, diags
    finally:
        shutil.rmtree(root, ignore_errors=True)


def hover_text(r):
    if not r:
        return None
    c = r.get("contents")
    if isinstance(c, dict):
        c = c.get("value")
    return " ".join(str(c).replace("```fortran90", "").replace("```", "").split())


def symbols(r):
    return sorted((s["name"].strip().lower(), s["kind"], (s.get("containerName") or "").lower()) for s in (r or []))


def ref_lines(r):
    return sorted((x["range"]["start"]["line"], x["range"]["start"]["character"]) for x in (r or []))


FIXED_A = """\
C     fixed form: comment line whose text contains a semicolon
      module grid
      integer nx
C     Grid spacing is in metres; real values only
      real dx, vmax
      contains
      subroutine step()
      dx = vmax
      end subroutine step
      end module grid
"""
FREE_A = """\
!     the same program in free form
module grid
  integer nx
!     Grid spacing is in metres; real values only
  real dx, vmax
contains
  subroutine step()
  dx = vmax
  end subroutine step
end module grid
"""
FIXED_B = """\
      module mesh
*     public data; end of the public part is marked below
      integer nx
      contains
      subroutine step(n)
      integer n
      do i = 1, n
c        nothing to do in this pass; end do follows below
         nx = nx + 1
      end do
      end subroutine step
      end module mesh
"""
FREE_B = """\
module mesh
!     public data; end of the public part is marked below
  integer nx
contains
  subroutine step(n)
    integer n
    do i = 1, n
!        nothing to do in this pass; end do follows below
       nx = nx + 1
    end do
  end subroutine step
end module mesh
"""


def run_a(name, text, col):
    # completion right after the "v" of "vmax" in `dx = vmax`
    res, diags = open_and_query({name: text}, [("textDocument/completion", name, 7, col)])
    items = res[0]
    if isinstance(items, dict):
        items = items.get("items")
    return sorted(i["label"] for i in (items or []) if i.get("kind") == 6), diags.get(name)


def run_b(name, text):
    res, diags = open_and_query({name: text}, [("textDocument/documentSymbol", name, None, None)])
    return symbols(res[0]), diags.get(name)


bad = False
fx, fr = run_a("grid.f", FIXED_A, 12), run_a("grid.f90", FREE_A, 8)
print("== A: `C     Grid spacing is in metres; real values only`")
print("EXPECTED (free form): variables completing `v` in step:", fr[0], "| diagnostics:", fr[1])
print("OBSERVED (fixed form): variables completing `v` in step:", fx[0], "| diagnostics:", fx[1])
bad |= fx != fr
fx, fr = run_b("mesh.f", FIXED_B), run_b("mesh.f90", FREE_B)
print("== B: `*     public data; end of the public part is marked below`")
print("EXPECTED (free form): symbols:", fr[0])
print("                      diagnostics:", fr[1])
print("OBSERVED (fixed form): symbols:", fx[0])
print("                      diagnostics:", fx[1])
bad |= fx != fr
print("DEFECT SHOWN" if bad else "no defect")
sys.exit(1 if bad else 0)
