"""Defect 3: a `!>` documentation comment that precedes a statement which creates
no variable/scope object (MODULE PROCEDURE in an interface block, PUBLIC ::
list, ...) stays pending and is attached to the next, unrelated entity.

Run as: cd <checkout> && /venv/bin/python 3.py   (exit 1 = defect shows)"""
import json
import os
import shutil
import subprocess
import sys
import tempfile
from io import StringIO

sys.path.insert(0, os.getcwd())
from fortls.jsonrpc import (  # noqa: E402
    path_to_uri,
    read_rpc_messages,
    write_rpc_notification,
    write_rpc_request,
)

METHODS = {"hover": "textDocument/hover", "sig": "textDocument/signatureHelp"}


def locate(text, needle, off=0):
    """0-based (line, character) of text.index(needle) + off"""
    i = text.index(needle) + off
    return text.count("\n", 0, i), i - (text.rfind("\n", 0, i) + 1)


def run_server(files, queries, timeout=60):
    """files: {relative path: text}; queries: [(kind, path, needle, offset)].
    Runs the fortls of the current working directory in a child process and
    returns one entry per query: the `result`, or {"error": ...}, or None"""
    root = tempfile.mkdtemp(dir="/var/tmp", prefix="hC11_")
    try:
        for rel, text in files.items():
            with open(os.path.join(root, rel), "w") as fh:
                fh.write(text)
        msg = write_rpc_request(1, "initialize", {"rootPath": root})
        for i, (kind, rel, needle, off) in enumerate(queries):
            line, char = locate(files[rel], needle, off)
            msg += write_rpc_request(
                i + 2,
                METHODS[kind],
                {
                    "textDocument": {"uri": path_to_uri(os.path.join(root, rel))},
                    "position": {"line": line, "character": char},
                },
            )
        msg += write_rpc_request(len(queries) + 2, "shutdown", {})
        msg += write_rpc_notification("exit", {})
        proc = subprocess.run(
            [sys.executable, "-m", "fortls", "--disable_autoupdate"],
            input=msg.encode(),
            capture_output=True,
            timeout=timeout,
            cwd=os.getcwd(),
        )
        by_id = {}
        for m in read_rpc_messages(StringIO(proc.stdout.decode())):
            if "id" in m:
                by_id[m["id"]] = m
        out = []
        for i in range(len(queries)):
            m = by_id.get(i + 2)
            if m is None:
                out.append(None)
            elif "error" in m:
                out.append({"error": m["error"].get("message")})
            else:
                out.append(m.get("result"))
        return out
    finally:
        shutil.rmtree(root, ignore_errors=True)


def hover_text(res):
    if not res or "contents" not in res:
        return repr(res)
    return res["contents"]["value"]


def squash(s):
    return "".join(s.split()).lower()


SRC = """module m
  implicit none
  private
  !> Exported API of the module
  public :: gen
  integer :: counter
  interface gen
    !> integer version
    module procedure gen_i
    !> real version
    module procedure gen_r
  end interface gen
  type :: shape
    real :: r
  end type shape
contains
  subroutine gen_i(x)
    integer, intent(in) :: x
  end subroutine gen_i
  subroutine gen_r(x)
    real, intent(in) :: x
  end subroutine gen_r
end module m
"""
CASES = [
    # (needle, offset, what, text that must NOT be in the hover)
    (":: counter", 3, "variable counter (has no doc comment)", "Exported API"),
    ("type :: shape", 8, "type shape (has no doc comment)", "real version"),
]


def main():
    res = run_server({"a.f90": SRC}, [("hover", "a.f90", n, o) for n, o, _, _ in CASES])
    bad = 0
    for (_, _, what, alien), r in zip(CASES, res):
        text = hover_text(r)
        leaked = alien in text
        print(f"hover on {what}")
        print("   expected : the declaration, no documentation")
        print("   observed : " + text.replace("\n", "\n              "))
        print("   ->", f"DEFECT, shows the comment {alien!r} of another statement"
              if leaked else "ok")
        bad += leaked
    return 1 if bad else 0


if __name__ == "__main__":
    sys.exit(main())
