"""Defect 6: a `!` inside a character literal of a declaration is taken for the
start of a comment: the entities declared after it on the same statement are
not registered at all (hover returns nothing).

Run as: cd <checkout> && /venv/bin/python 6.py   (exit 1 = defect shows)"""
import json
import os
import shutil
import subprocess
import sys
import tempfile
from io import StringIO

sys.path.insert(0, os.getcwd())
from fortls.jsonrpc import (  # noqa: E402
    path_to_uri,
    read_rpc_messages,
    write_rpc_notification,
    write_rpc_request,
)

METHODS = {"hover": "textDocument/hover", "sig": "textDocument/signatureHelp"}


def locate(text, needle, off=0):
    """0-based (line, character) of text.index(needle) + off"""
    i = text.index(needle) + off
    return text.count("\n", 0, i), i - (text.rfind("\n", 0, i) + 1)


def run_server(files, queries, timeout=60):
    """files: {relative path: text}; queries: [(kind, path, needle, offset)].
    Runs the fortls of the current working directory in a child process and
    returns one entry per query: the `result`, or {"error": ...}, or None"""
    root = tempfile.mkdtemp(dir="/var/tmp", prefix="hC11_")
    try:
        for rel, text in files.items():
            with open(os.path.join(root, rel), "w") as fh:
                fh.write(text)
        msg = write_rpc_request(1, "initialize", {"rootPath": root})
        for i, (kind, rel, needle, off) in enumerate(queries):
            line, char = locate(files[rel], needle, off)
            msg += write_rpc_request(
                i + 2,
                METHODS[kind],
                {
                    "textDocument": {"uri": path_to_uri(os.path.join(root, rel))},
                    "position": {"line": line, "character": char},
                },
            )
        msg += write_rpc_request(len(queries) + 2, "shutdown", {})
        msg += write_rpc_notification("exit", {})
        proc = subprocess.run(
            [sys.executable, "-m", "fortls", "--disable_autoupdate"],
            input=msg.encode(),
            capture_output=True,
            timeout=timeout,
            cwd=os.getcwd(),
        )
        by_id = {}
        for m in read_rpc_messages(StringIO(proc.stdout.decode())):
            if "id" in m:
                by_id[m["id"]] = m
        out = []
        for i in range(len(queries)):
            m = by_id.get(i + 2)
            if m is None:
                out.append(None)
            elif "error" in m:
                out.append({"error": m["error"].get("message")})
            else:
                out.append(m.get("result"))
        return out
    finally:
        shutil.rmtree(root, ignore_errors=True)


def hover_text(res):
    if not res or "contents" not in res:
        return repr(res)
    return res["contents"]["value"]


def squash(s):
    return "".join(s.split()).lower()


SRC = """module m
  implicit none
  character(len=6) :: greet = "Hello!", other = "abc"
  character(len=8), parameter :: warn = 'Stop!', note = 'fine'
  character(len=6) :: plain = "Hello", control = "abc"
end module m
"""
CASES = [
    ("other =", 0, "CHARACTER(len=6) :: other"),
    ("note =", 0, "CHARACTER(len=8), PARAMETER :: note = 'fine'"),
    ("control =", 0, "CHARACTER(len=6) :: control"),  # control: works
]


def main():
    res = run_server({"a.f90": SRC}, [("hover", "a.f90", n, o) for n, o, _ in CASES])
    bad = 0
    for (needle, off, exp), r in zip(CASES, res):
        text = hover_text(r)
        code = text.split("```")[1].split("\n", 1)[1].strip() if "```" in text else text
        good = squash(code) == squash(exp)
        print("source   :", SRC.splitlines()[locate(SRC, needle, off)[0]].strip())
        print(f"hover on {needle.split()[0]!r}")
        print(f"   expected : {exp}")
        print(f"   observed : {code}")
        print("   ->", "ok" if good else "DEFECT")
        bad += not good
    return 1 if bad else 0


if __name__ == "__main__":
    sys.exit(main())
