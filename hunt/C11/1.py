"""Defect 1: hover truncates the PARAMETER value at the first character that is
not in a small whitelist (comma, bracket, colon, comparison operator, ...).

Run as: cd <checkout> && /venv/bin/python 1.py   (exit 1 = defect shows)"""
import json
import os
import shutil
import subprocess
import sys
import tempfile
from io import StringIO

sys.path.insert(0, os.getcwd())
from fortls.jsonrpc import (  # noqa: E402
    path_to_uri,
    read_rpc_messages,
    write_rpc_notification,
    write_rpc_request,
)

METHODS = {"hover": "textDocument/hover", "sig": "textDocument/signatureHelp"}


def locate(text, needle, off=0):
    """0-based (line, character) of text.index(needle) + off"""
    i = text.index(needle) + off
    return text.count("\n", 0, i), i - (text.rfind("\n", 0, i) + 1)


def run_server(files, queries, timeout=60):
    """files: {relative path: text}; queries: [(kind, path, needle, offset)].
    Runs the fortls of the current working directory in a child process and
    returns one entry per query: the `result`, or {"error": ...}, or None"""
    root = tempfile.mkdtemp(dir="/var/tmp", prefix="hC11_")
    try:
        for rel, text in files.items():
            with open(os.path.join(root, rel), "w") as fh:
                fh.write(text)
        msg = write_rpc_request(1, "initialize", {"rootPath": root})
        for i, (kind, rel, needle, off) in enumerate(queries):
            line, char = locate(files[rel], needle, off)
            msg += write_rpc_request(
                i + 2,
                METHODS[kind],
                {
                    "textDocument": {"uri": path_to_uri(os.path.join(root, rel))},
                    "position": {"line": line, "character": char},
                },
            )
        msg += write_rpc_request(len(queries) + 2, "shutdown", {})
        msg += write_rpc_notification("exit", {})
        proc = subprocess.run(
            [sys.executable, "-m", "fortls", "--disable_autoupdate"],
            input=msg.encode(),
            capture_output=True,
            timeout=timeout,
            cwd=os.getcwd(),
        )
        by_id = {}
        for m in read_rpc_messages(StringIO(proc.stdout.decode())):
            if "id" in m:
                by_id[m["id"]] = m
        out = []
        for i in range(len(queries)):
            m = by_id.get(i + 2)
            if m is None:
                out.append(None)
            elif "error" in m:
                out.append({"error": m["error"].get("message")})
            else:
                out.append(m.get("result"))
        return out
    finally:
        shutil.rmtree(root, ignore_errors=True)


def hover_text(res):
    if not res or "contents" not in res:
        return repr(res)
    return res["contents"]["value"]


def squash(s):
    return "".join(s.split()).lower()


SRC = """module m
  implicit none
  integer, parameter :: dp = selected_real_kind(15, 307)
  integer, parameter :: primes(3) = [2, 3, 5]
  character(len=*), parameter :: fmt = '(a, i0)'
  complex(dp), parameter :: ci = (0.0_dp, 1.0_dp)
  logical, parameter :: wide = dp > 4
  integer, parameter :: ok = 2**10
end module m
"""
CASES = [
    # (needle, offset, expected value shown after "=")
    ("dp =", 0, "selected_real_kind(15, 307)"),
    ("primes(3)", 0, "[2, 3, 5]"),
    ("fmt =", 0, "'(a, i0)'"),
    ("ci =", 0, "(0.0_dp, 1.0_dp)"),
    ("wide =", 0, "dp > 4"),
    ("ok =", 0, "2**10"),  # control: works
]


def main():
    res = run_server({"a.f90": SRC}, [("hover", "a.f90", n, o) for n, o, _ in CASES])
    bad = 0
    for (needle, _, value), r in zip(CASES, res):
        text = hover_text(r)
        code = text.split("```")[1].split("\n", 1)[1].strip() if "```" in text else text
        good = squash("= " + value) in squash(code) and squash(code).endswith(
            squash(value)
        )
        print(f"hover on {needle.split()[0]!r}")
        print(f"   expected value : = {value}")
        print(f"   observed hover : {code}")
        print("   ->", "ok" if good else "DEFECT")
        bad += not good
    return 1 if bad else 0


if __name__ == "__main__":
    sys.exit(main())
