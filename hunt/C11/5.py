"""Defect 5: hover on a generic interface name fails with an internal error when
the documentation of one of its specific procedures contains braces (LaTeX in
FORD/Doxygen comments, e.g. \\frac{a}{b}), because str.format() is applied to
the whole hover text.

Run as: cd <checkout> && /venv/bin/python 5.py   (exit 1 = defect shows)"""
import json
import os
import shutil
import subprocess
import sys
import tempfile
from io import StringIO

sys.path.insert(0, os.getcwd())
from fortls.jsonrpc import (  # noqa: E402
    path_to_uri,
    read_rpc_messages,
    write_rpc_notification,
    write_rpc_request,
)

METHODS = {"hover": "textDocument/hover", "sig": "textDocument/signatureHelp"}


def locate(text, needle, off=0):
    """0-based (line, character) of text.index(needle) + off"""
    i = text.index(needle) + off
    return text.count("\n", 0, i), i - (text.rfind("\n", 0, i) + 1)


def run_server(files, queries, timeout=60):
    """files: {relative path: text}; queries: [(kind, path, needle, offset)].
    Runs the fortls of the current working directory in a child process and
    returns one entry per query: the `result`, or {"error": ...}, or None"""
    root = tempfile.mkdtemp(dir="/var/tmp", prefix="hC11_")
    try:
        for rel, text in files.items():
            with open(os.path.join(root, rel), "w") as fh:
                fh.write(text)
        msg = write_rpc_request(1, "initialize", {"rootPath": root})
        for i, (kind, rel, needle, off) in enumerate(queries):
            line, char = locate(files[rel], needle, off)
            msg += write_rpc_request(
                i + 2,
                METHODS[kind],
                {
                    "textDocument": {"uri": path_to_uri(os.path.join(root, rel))},
                    "position": {"line": line, "character": char},
                },
            )
        msg += write_rpc_request(len(queries) + 2, "shutdown", {})
        msg += write_rpc_notification("exit", {})
        proc = subprocess.run(
            [sys.executable, "-m", "fortls", "--disable_autoupdate"],
            input=msg.encode(),
            capture_output=True,
            timeout=timeout,
            cwd=os.getcwd(),
        )
        by_id = {}
        for m in read_rpc_messages(StringIO(proc.stdout.decode())):
            if "id" in m:
                by_id[m["id"]] = m
        out = []
        for i in range(len(queries)):
            m = by_id.get(i + 2)
            if m is None:
                out.append(None)
            elif "error" in m:
                out.append({"error": m["error"].get("message")})
            else:
                out.append(m.get("result"))
        return out
    finally:
        shutil.rmtree(root, ignore_errors=True)


def hover_text(res):
    if not res or "contents" not in res:
        return repr(res)
    return res["contents"]["value"]


def squash(s):
    return "".join(s.split()).lower()


SRC = """module m
  implicit none
  interface norm
    module procedure norm_r
  end interface norm
contains
  !> Computes \\f$ \\sqrt{\\sum x_i^2} \\f$
  function norm_r(x) result(n)
    real, intent(in) :: x(:) !< the vector {x_i}
    real :: n
    n = sqrt(sum(x**2))
  end function norm_r
  subroutine user()
    real :: y
    y = norm([1.0, 2.0])
    y = norm_r([1.0, 2.0])
  end subroutine user
end module m
"""


def main():
    res = run_server(
        {"a.f90": SRC},
        [("hover", "a.f90", "y = norm(", 5), ("hover", "a.f90", "y = norm_r(", 5)],
    )
    gen, spec = res
    print("hover on the specific name `norm_r` (control):")
    print("   " + hover_text(spec).replace("\n", "\n   "))
    print("hover on the generic name `norm`:")
    print("   expected : the same declaration and documentation (FUNCTION norm_r(x) ...,"
          " 'Computes ... \\sqrt{\\sum x_i^2}')")
    print("   observed : " + hover_text(gen).replace("\n", "\n              "))
    good = (
        isinstance(gen, dict)
        and "contents" in gen
        and "norm_r(x)" in hover_text(gen)
        and "\\sqrt{\\sum x_i^2}" in hover_text(gen)
    )
    print("   ->", "ok" if good else "DEFECT")
    return 0 if good else 1


if __name__ == "__main__":
    sys.exit(main())
