"""Defect 4: signature help takes a positional actual argument that contains `==`
(`n == 0`) for a `keyword=` argument when the name left of it is a dummy
argument name, and marks the wrong parameter as active.

Run as: cd <checkout> && /venv/bin/python 4.py   (exit 1 = defect shows)"""
import json
import os
import shutil
import subprocess
import sys
import tempfile
from io import StringIO

sys.path.insert(0, os.getcwd())
from fortls.jsonrpc import (  # noqa: E402
    path_to_uri,
    read_rpc_messages,
    write_rpc_notification,
    write_rpc_request,
)

METHODS = {"hover": "textDocument/hover", "sig": "textDocument/signatureHelp"}


def locate(text, needle, off=0):
    """0-based (line, character) of text.index(needle) + off"""
    i = text.index(needle) + off
    return text.count("\n", 0, i), i - (text.rfind("\n", 0, i) + 1)


def run_server(files, queries, timeout=60):
    """files: {relative path: text}; queries: [(kind, path, needle, offset)].
    Runs the fortls of the current working directory in a child process and
    returns one entry per query: the `result`, or {"error": ...}, or None"""
    root = tempfile.mkdtemp(dir="/var/tmp", prefix="hC11_")
    try:
        for rel, text in files.items():
            with open(os.path.join(root, rel), "w") as fh:
                fh.write(text)
        msg = write_rpc_request(1, "initialize", {"rootPath": root})
        for i, (kind, rel, needle, off) in enumerate(queries):
            line, char = locate(files[rel], needle, off)
            msg += write_rpc_request(
                i + 2,
                METHODS[kind],
                {
                    "textDocument": {"uri": path_to_uri(os.path.join(root, rel))},
                    "position": {"line": line, "character": char},
                },
            )
        msg += write_rpc_request(len(queries) + 2, "shutdown", {})
        msg += write_rpc_notification("exit", {})
        proc = subprocess.run(
            [sys.executable, "-m", "fortls", "--disable_autoupdate"],
            input=msg.encode(),
            capture_output=True,
            timeout=timeout,
            cwd=os.getcwd(),
        )
        by_id = {}
        for m in read_rpc_messages(StringIO(proc.stdout.decode())):
            if "id" in m:
                by_id[m["id"]] = m
        out = []
        for i in range(len(queries)):
            m = by_id.get(i + 2)
            if m is None:
                out.append(None)
            elif "error" in m:
                out.append({"error": m["error"].get("message")})
            else:
                out.append(m.get("result"))
        return out
    finally:
        shutil.rmtree(root, ignore_errors=True)


def hover_text(res):
    if not res or "contents" not in res:
        return repr(res)
    return res["contents"]["value"]


def squash(s):
    return "".join(s.split()).lower()


SRC = """module m
  implicit none
contains
  subroutine report(unit, last, n)
    integer, intent(in) :: unit
    logical, intent(in) :: last
    integer, intent(in) :: n
  end subroutine report
  subroutine user(n, k)
    integer, intent(in) :: n, k
    call report(6, n == 0, k)
    call report(6, k == 0, n)
  end subroutine user
end module m
"""
CASES = [
    # (needle, offset, description, expected active parameter)
    ("n == 0, k)", 6, "call report(6, n == 0|, k)   cursor in 2nd argument", 1),
    ("n == 0, k)", 9, "call report(6, n == 0, k|)   cursor in 3rd argument", 2),
    ("k == 0, n)", 6, "call report(6, k == 0|, n)   control, k is no dummy name", 1),
]


def main():
    res = run_server({"a.f90": SRC}, [("sig", "a.f90", n, o) for n, o, _, _ in CASES])
    bad = 0
    for (_, _, what, exp), r in zip(CASES, res):
        if not r or "signatures" not in r:
            print(what, "-> no signature help:", r)
            bad += 1
            continue
        labels = [p["label"] for p in r["signatures"][0]["parameters"]]
        got = r.get("activeParameter")
        print(what)
        print(f"   signature {r['signatures'][0]['label']}")
        print(f"   expected activeParameter {exp} ({labels[exp]})")
        print(f"   observed activeParameter {got} "
              f"({labels[got] if isinstance(got, int) and 0 <= got < len(labels) else '?'})")
        print("   ->", "ok" if got == exp else "DEFECT")
        bad += got != exp
    return 1 if bad else 0


if __name__ == "__main__":
    sys.exit(main())
