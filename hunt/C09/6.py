#!/usr/bin/env python
"""Defect 6: the diagnostics published for a file that is INCLUDEd somewhere are
computed from the scope of the *including* file (resolve_includes() overwrites the
`none_scope` of the included file's AST with the host scope), so they carry line
numbers of the host file and address lines the include file does not have.

Run as:  cd <checkout> && /venv/bin/python /var/tmp/wt-out/h-C09/6.py
Exit 1 = defect shows, 0 = it does not.
"""
import json
import os
import re
import shutil
import subprocess
import sys
import tempfile

SERVER = (
    "import sys, os; sys.path.insert(0, os.getcwd()); "
    "from fortls import main; main()"
)


def frame(obj):
    body = json.dumps(obj).encode()
    return b"Content-Length: %d\r\n\r\n" % len(body) + body


def parse(out):
    msgs, i = [], 0
    while True:
        j = out.find(b"Content-Length:", i)
        if j < 0:
            return msgs
        n = int(out[j + 15 : out.find(b"\r\n", j)].strip())
        k = out.find(b"\r\n\r\n", j) + 4
        msgs.append(json.loads(out[k : k + n]))
        i = k + n


def session(root, msgs, timeout=60):
    data, rid = b"", 0
    full = (
        [("initialize", {"rootPath": root, "rootUri": "file://" + root, "capabilities": {}}, True),
         ("initialized", {}, False)]
        + list(msgs)
        + [("shutdown", None, True), ("exit", None, False)]
    )
    for method, params, is_req in full:
        d = {"jsonrpc": "2.0", "method": method}
        if params is not None:
            d["params"] = params
        if is_req:
            rid += 1
            d["id"] = rid
        data += frame(d)
    proc = subprocess.run(
        [sys.executable, "-c", SERVER, "--disable_autoupdate", "--incremental_sync"],
        input=data, capture_output=True, timeout=timeout, cwd=os.getcwd(),
    )
    out = parse(proc.stdout)
    resp = {m["id"]: m for m in out if "id" in m and "method" not in m}
    notes = [m for m in out if "method" in m]
    return resp, notes


def bad_range(rng, text):
    """Return a reason when `rng` does not address an existing place in `text`"""
    lines = re.split(r"\n|\r\n?", text)
    for p in (rng["start"], rng["end"]):
        if not (0 <= p["line"] < len(lines)):
            return "line %d not in 0..%d" % (p["line"], len(lines) - 1)
        if not (0 <= p["character"] <= len(lines[p["line"]])):
            return "character %d > length %d of line %d" % (
                p["character"], len(lines[p["line"]]), p["line"])
    if (rng["start"]["line"], rng["start"]["character"]) > (
        rng["end"]["line"], rng["end"]["character"]):
        return "start > end"
    return None



MAIN = (
    "module big\n  implicit none\n"
    + "  ! comment\n" * 8
    + "contains\n  subroutine s(n)\n    use mpi\n    include 'decl.f90'\n"
    + "    n = k\n  end subroutine s\nend module big\n"
)
DECL = "integer :: n\ninteger :: k\n"


def main():
    root = tempfile.mkdtemp(dir="/var/tmp", prefix="hC09_6_")
    try:
        main_p = os.path.join(root, "main.f90")
        inc_p = os.path.join(root, "decl.f90")
        with open(main_p, "w") as f:
            f.write(MAIN)
        with open(inc_p, "w") as f:
            f.write(DECL)
        uri = "file://" + inc_p
        resp, notes = session(
            root, [("textDocument/didOpen", {"textDocument": {"uri": uri}}, False)]
        )
        diags = [n["params"] for n in notes
                 if n["method"] == "textDocument/publishDiagnostics" and n["params"]["uri"] == uri]
        print("decl.f90 has lines 0..%d; `use mpi` is on line %d of main.f90"
              % (len(DECL.split("\n")) - 1, MAIN.split("\n").index("    use mpi")))
        print("expected: diagnostics published for decl.f90 lie inside decl.f90")
        shown = False
        for d in diags:
            for diag in d["diagnostics"]:
                print("observed:", json.dumps(diag))
                why = bad_range(diag["range"], DECL)
                if why:
                    print("   -> diagnostic range outside decl.f90:", why)
                    shown = True
        if not diags:
            print("observed: no diagnostics published")
        print("DEFECT SHOWS" if shown else "defect does not show")
        return 1 if shown else 0
    finally:
        shutil.rmtree(root, ignore_errors=True)


if __name__ == "__main__":
    sys.exit(main())
