#!/usr/bin/env python
"""Defect 1: textDocument/hover on the name of a generic INTERFACE answers with an
internal error (-32603, KeyError) when the documentation comment (or the
signature) of one of its procedures contains braces.

Run as:  cd <checkout> && /venv/bin/python /var/tmp/wt-out/h-C09/1.py
Exit 1 = defect shows, 0 = it does not.
"""
import json
import os
import shutil
import subprocess
import sys
import tempfile

SERVER = (
    "import sys, os; sys.path.insert(0, os.getcwd()); "
    "from fortls import main; main()"
)


def frame(obj):
    body = json.dumps(obj).encode()
    return b"Content-Length: %d\r\n\r\n" % len(body) + body


def parse(out):
    msgs, i = [], 0
    while True:
        j = out.find(b"Content-Length:", i)
        if j < 0:
            return msgs
        n = int(out[j + 15 : out.find(b"\r\n", j)].strip())
        k = out.find(b"\r\n\r\n", j) + 4
        msgs.append(json.loads(out[k : k + n]))
        i = k + n


def session(root, msgs, timeout=60):
    """msgs: list of (method, params, is_request). Returns {id: response}, notifications"""
    data, rid, ids = b"", 0, {}
    full = (
        [("initialize", {"rootPath": root, "rootUri": "file://" + root, "capabilities": {}}, True),
         ("initialized", {}, False)]
        + list(msgs)
        + [("shutdown", None, True), ("exit", None, False)]
    )
    for method, params, is_req in full:
        d = {"jsonrpc": "2.0", "method": method}
        if params is not None:
            d["params"] = params
        if is_req:
            rid += 1
            d["id"] = rid
            ids[rid] = method
        data += frame(d)
    proc = subprocess.run(
        [sys.executable, "-c", SERVER, "--disable_autoupdate", "--incremental_sync"],
        input=data, capture_output=True, timeout=timeout, cwd=os.getcwd(),
    )
    out = parse(proc.stdout)
    resp = {m["id"]: m for m in out if "id" in m and "method" not in m}
    notes = [m for m in out if "method" in m]
    return resp, notes, ids


SRC = """module m2
  implicit none
  interface area
    module procedure area_sq
  end interface
contains
  !> Area of a square, i.e. the set {(x,y) : 0<=x,y<=a}
  function area_sq(a) result(s)
    real, intent(in) :: a
    real :: s
    s = a*a
  end function
end module
"""


def main():
    root = tempfile.mkdtemp(dir="/var/tmp", prefix="hC09_1_")
    try:
        path = os.path.join(root, "m2.f90")
        with open(path, "w") as f:
            f.write(SRC)
        uri = "file://" + path
        # line 2: "  interface area", cursor on "area" (character 13)
        hover_if = ("textDocument/hover",
                    {"textDocument": {"uri": uri}, "position": {"line": 2, "character": 13}}, True)
        # control: hover on the function itself works (line 7 "  function area_sq(a)")
        hover_fn = ("textDocument/hover",
                    {"textDocument": {"uri": uri}, "position": {"line": 7, "character": 13}}, True)
        resp, notes, ids = session(root, [hover_if, hover_fn])
        r_if, r_fn = resp.get(2), resp.get(3)
        print("expected: hover on generic interface name `area` -> Hover object or null")
        print("observed:", json.dumps(r_if)[:600] if r_if else "no response")
        print("control (hover on `area_sq` definition):", json.dumps(r_fn)[:200] if r_fn else None)
        bad = (r_if is None) or ("error" in r_if)
        print("DEFECT SHOWS" if bad else "defect does not show")
        return 1 if bad else 0
    finally:
        shutil.rmtree(root, ignore_errors=True)


if __name__ == "__main__":
    sys.exit(main())
