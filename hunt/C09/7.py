#!/usr/bin/env python
"""Defect 7 (bonus): textDocument/implementation answers with an internal error
(-32603, AttributeError) on the name of a module/submodule/program that follows an
INTERFACE block whose `end interface` has not been typed yet.

Run as:  cd <checkout> && /venv/bin/python /var/tmp/wt-out/h-C09/7.py
Exit 1 = defect shows, 0 = it does not.
"""
import json
import os
import re
import shutil
import subprocess
import sys
import tempfile

SERVER = (
    "import sys, os; sys.path.insert(0, os.getcwd()); "
    "from fortls import main; main()"
)


def frame(obj):
    body = json.dumps(obj).encode()
    return b"Content-Length: %d\r\n\r\n" % len(body) + body


def parse(out):
    msgs, i = [], 0
    while True:
        j = out.find(b"Content-Length:", i)
        if j < 0:
            return msgs
        n = int(out[j + 15 : out.find(b"\r\n", j)].strip())
        k = out.find(b"\r\n\r\n", j) + 4
        msgs.append(json.loads(out[k : k + n]))
        i = k + n


def session(root, msgs, timeout=60):
    data, rid = b"", 0
    full = (
        [("initialize", {"rootPath": root, "rootUri": "file://" + root, "capabilities": {}}, True),
         ("initialized", {}, False)]
        + list(msgs)
        + [("shutdown", None, True), ("exit", None, False)]
    )
    for method, params, is_req in full:
        d = {"jsonrpc": "2.0", "method": method}
        if params is not None:
            d["params"] = params
        if is_req:
            rid += 1
            d["id"] = rid
        data += frame(d)
    proc = subprocess.run(
        [sys.executable, "-c", SERVER, "--disable_autoupdate", "--incremental_sync"],
        input=data, capture_output=True, timeout=timeout, cwd=os.getcwd(),
    )
    out = parse(proc.stdout)
    resp = {m["id"]: m for m in out if "id" in m and "method" not in m}
    notes = [m for m in out if "method" in m]
    return resp, notes


def bad_range(rng, text):
    """Return a reason when `rng` does not address an existing place in `text`"""
    lines = re.split(r"\n|\r\n?", text)
    for p in (rng["start"], rng["end"]):
        if not (0 <= p["line"] < len(lines)):
            return "line %d not in 0..%d" % (p["line"], len(lines) - 1)
        if not (0 <= p["character"] <= len(lines[p["line"]])):
            return "character %d > length %d of line %d" % (
                p["character"], len(lines[p["line"]]), p["line"])
    if (rng["start"]["line"], rng["start"]["character"]) > (
        rng["end"]["line"], rng["end"]["character"]):
        return "start > end"
    return None



SRC = """module a
  implicit none
  interface
    subroutine foo(x)
      real :: x
    end subroutine foo
end module a

module b
  implicit none
end module b
"""


def main():
    root = tempfile.mkdtemp(dir="/var/tmp", prefix="hC09_7_")
    try:
        p = os.path.join(root, "ab.f90")
        with open(p, "w") as f:
            f.write(SRC)
        uri = "file://" + p
        line = SRC.split("\n").index("module b")
        msgs = [("textDocument/" + m,
                 {"textDocument": {"uri": uri}, "position": {"line": line, "character": 7}}, True)
                for m in ("implementation", "definition")]
        resp, notes = session(root, msgs)
        r_impl, r_def = resp.get(2), resp.get(3)
        print("request : implementation at ab.f90:%d:7 (on `b` of `module b`)" % line)
        print("expected: a location or null")
        print("observed:", json.dumps(r_impl)[:700] if r_impl else "no response")
        print("control (definition, same position):", json.dumps(r_def)[:300] if r_def else None)
        shown = r_impl is None or "error" in r_impl
        print("DEFECT SHOWS" if shown else "defect does not show")
        return 1 if shown else 0
    finally:
        shutil.rmtree(root, ignore_errors=True)


if __name__ == "__main__":
    sys.exit(main())
