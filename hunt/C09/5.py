#!/usr/bin/env python
"""Defect 5: textDocument/completion answers with an internal error (-32603,
IndexError) while the user types the attribute list of a declaration
(`integer, p|`) at a place that is not inside any program unit: in a new file
that has no PROGRAM/MODULE statement yet, or below an `end module`.

Run as:  cd <checkout> && /venv/bin/python /var/tmp/wt-out/h-C09/5.py
Exit 1 = defect shows, 0 = it does not.
"""
import json
import os
import re
import shutil
import subprocess
import sys
import tempfile

SERVER = (
    "import sys, os; sys.path.insert(0, os.getcwd()); "
    "from fortls import main; main()"
)


def frame(obj):
    body = json.dumps(obj).encode()
    return b"Content-Length: %d\r\n\r\n" % len(body) + body


def parse(out):
    msgs, i = [], 0
    while True:
        j = out.find(b"Content-Length:", i)
        if j < 0:
            return msgs
        n = int(out[j + 15 : out.find(b"\r\n", j)].strip())
        k = out.find(b"\r\n\r\n", j) + 4
        msgs.append(json.loads(out[k : k + n]))
        i = k + n


def session(root, msgs, timeout=60):
    data, rid = b"", 0
    full = (
        [("initialize", {"rootPath": root, "rootUri": "file://" + root, "capabilities": {}}, True),
         ("initialized", {}, False)]
        + list(msgs)
        + [("shutdown", None, True), ("exit", None, False)]
    )
    for method, params, is_req in full:
        d = {"jsonrpc": "2.0", "method": method}
        if params is not None:
            d["params"] = params
        if is_req:
            rid += 1
            d["id"] = rid
        data += frame(d)
    proc = subprocess.run(
        [sys.executable, "-c", SERVER, "--disable_autoupdate", "--incremental_sync"],
        input=data, capture_output=True, timeout=timeout, cwd=os.getcwd(),
    )
    out = parse(proc.stdout)
    resp = {m["id"]: m for m in out if "id" in m and "method" not in m}
    notes = [m for m in out if "method" in m]
    return resp, notes


def bad_range(rng, text):
    """Return a reason when `rng` does not address an existing place in `text`"""
    lines = re.split(r"\n|\r\n?", text)
    for p in (rng["start"], rng["end"]):
        if not (0 <= p["line"] < len(lines)):
            return "line %d not in 0..%d" % (p["line"], len(lines) - 1)
        if not (0 <= p["character"] <= len(lines[p["line"]])):
            return "character %d > length %d of line %d" % (
                p["character"], len(lines[p["line"]]), p["line"])
    if (rng["start"]["line"], rng["start"]["character"]) > (
        rng["end"]["line"], rng["end"]["character"]):
        return "start > end"
    return None



NEW_FILE = "real, dim"          # a brand new buffer, first thing typed
AFTER_MODULE = "module m\nend module m\ninteger, p"


def main():
    root = tempfile.mkdtemp(dir="/var/tmp", prefix="hC09_5_")
    try:
        p1 = os.path.join(root, "new.f90")
        p2 = os.path.join(root, "after.f90")
        with open(p2, "w") as f:
            f.write(AFTER_MODULE)
        msgs = [
            # new.f90 does not exist on disk yet, the editor sends its buffer
            ("textDocument/didOpen", {"textDocument": {"uri": "file://" + p1, "text": NEW_FILE}}, False),
            ("textDocument/completion",
             {"textDocument": {"uri": "file://" + p1},
              "position": {"line": 0, "character": len(NEW_FILE)}}, True),
            ("textDocument/didOpen", {"textDocument": {"uri": "file://" + p2, "text": AFTER_MODULE}}, False),
            ("textDocument/completion",
             {"textDocument": {"uri": "file://" + p2},
              "position": {"line": 2, "character": 10}}, True),
        ]
        resp, notes = session(root, msgs)
        shown = False
        for rid, what in ((2, "new buffer `real, dim|`"), (3, "`integer, p|` below `end module m`")):
            r = resp.get(rid)
            print("request : completion in", what)
            print("expected: a list of completion items (DIMENSION / PARAMETER, POINTER ...) or null")
            print("observed:", json.dumps(r)[:500] if r else "no response")
            if r is None or "error" in r:
                shown = True
        print("DEFECT SHOWS" if shown else "defect does not show")
        return 1 if shown else 0
    finally:
        shutil.rmtree(root, ignore_errors=True)


if __name__ == "__main__":
    sys.exit(main())
