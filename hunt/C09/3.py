#!/usr/bin/env python
"""Defect 3: textDocument/definition on the file name of an INCLUDE statement
returns a location in the *included* file whose line is the line of the INCLUDE
statement in the *including* file - a line that need not exist in the target.

Run as:  cd <checkout> && /venv/bin/python /var/tmp/wt-out/h-C09/3.py
Exit 1 = defect shows, 0 = it does not.
"""
import json
import os
import re
import shutil
import subprocess
import sys
import tempfile

SERVER = (
    "import sys, os; sys.path.insert(0, os.getcwd()); "
    "from fortls import main; main()"
)


def frame(obj):
    body = json.dumps(obj).encode()
    return b"Content-Length: %d\r\n\r\n" % len(body) + body


def parse(out):
    msgs, i = [], 0
    while True:
        j = out.find(b"Content-Length:", i)
        if j < 0:
            return msgs
        n = int(out[j + 15 : out.find(b"\r\n", j)].strip())
        k = out.find(b"\r\n\r\n", j) + 4
        msgs.append(json.loads(out[k : k + n]))
        i = k + n


def session(root, msgs, timeout=60):
    data, rid = b"", 0
    full = (
        [("initialize", {"rootPath": root, "rootUri": "file://" + root, "capabilities": {}}, True),
         ("initialized", {}, False)]
        + list(msgs)
        + [("shutdown", None, True), ("exit", None, False)]
    )
    for method, params, is_req in full:
        d = {"jsonrpc": "2.0", "method": method}
        if params is not None:
            d["params"] = params
        if is_req:
            rid += 1
            d["id"] = rid
        data += frame(d)
    proc = subprocess.run(
        [sys.executable, "-c", SERVER, "--disable_autoupdate", "--incremental_sync"],
        input=data, capture_output=True, timeout=timeout, cwd=os.getcwd(),
    )
    out = parse(proc.stdout)
    resp = {m["id"]: m for m in out if "id" in m and "method" not in m}
    notes = [m for m in out if "method" in m]
    return resp, notes


def bad_range(rng, text):
    """Return a reason when `rng` does not address an existing place in `text`"""
    lines = re.split(r"\n|\r\n?", text)
    for p in (rng["start"], rng["end"]):
        if not (0 <= p["line"] < len(lines)):
            return "line %d not in 0..%d" % (p["line"], len(lines) - 1)
        if not (0 <= p["character"] <= len(lines[p["line"]])):
            return "character %d > length %d of line %d" % (
                p["character"], len(lines[p["line"]]), p["line"])
    if (rng["start"]["line"], rng["start"]["character"]) > (
        rng["end"]["line"], rng["end"]["character"]):
        return "start > end"
    return None



MAIN = (
    "program p\n  implicit none\n"
    + "  ! some header comment\n" * 6
    + "  include 'consts.f90'\n  print *, pi\nend program p\n"
)
CONSTS = "real, parameter :: pi = 3.14\n"


def main():
    root = tempfile.mkdtemp(dir="/var/tmp", prefix="hC09_3_")
    try:
        main_p = os.path.join(root, "main.f90")
        inc_p = os.path.join(root, "consts.f90")
        with open(main_p, "w") as f:
            f.write(MAIN)
        with open(inc_p, "w") as f:
            f.write(CONSTS)
        line = MAIN.split("\n").index("  include 'consts.f90'")
        req = ("textDocument/definition",
               {"textDocument": {"uri": "file://" + main_p},
                "position": {"line": line, "character": 14}}, True)
        resp, notes = session(root, [req])
        r = resp.get(2)
        print("request : definition at main.f90:%d:14 (inside 'consts.f90')" % line)
        print("expected: null or a location inside consts.f90 (which has lines 0..%d)"
              % (len(CONSTS.split("\n")) - 1))
        print("observed:", json.dumps(r))
        shown = False
        if r is None or "error" in r:
            shown = True
        elif r["result"] is not None:
            locs = r["result"] if isinstance(r["result"], list) else [r["result"]]
            for loc in locs:
                text = CONSTS if loc["uri"].endswith("consts.f90") else MAIN
                why = bad_range(loc["range"], text)
                if why:
                    print("   -> location outside the target document:", why)
                    shown = True
        print("DEFECT SHOWS" if shown else "defect does not show")
        return 1 if shown else 0
    finally:
        shutil.rmtree(root, ignore_errors=True)


if __name__ == "__main__":
    sys.exit(main())
