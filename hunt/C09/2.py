#!/usr/bin/env python
"""Defect 2: diagnostics published for a file that INCLUDEs another file carry the
line numbers of the *included* file (entities grafted from the include file keep
their own `sline`), so they address lines that do not exist in the document the
diagnostics are published for.

Run as:  cd <checkout> && /venv/bin/python /var/tmp/wt-out/h-C09/2.py
Exit 1 = defect shows, 0 = it does not.
"""
import json
import os
import re
import shutil
import subprocess
import sys
import tempfile

SERVER = (
    "import sys, os; sys.path.insert(0, os.getcwd()); "
    "from fortls import main; main()"
)


def frame(obj):
    body = json.dumps(obj).encode()
    return b"Content-Length: %d\r\n\r\n" % len(body) + body


def parse(out):
    msgs, i = [], 0
    while True:
        j = out.find(b"Content-Length:", i)
        if j < 0:
            return msgs
        n = int(out[j + 15 : out.find(b"\r\n", j)].strip())
        k = out.find(b"\r\n\r\n", j) + 4
        msgs.append(json.loads(out[k : k + n]))
        i = k + n


def session(root, msgs, timeout=60):
    data, rid = b"", 0
    full = (
        [("initialize", {"rootPath": root, "rootUri": "file://" + root, "capabilities": {}}, True),
         ("initialized", {}, False)]
        + list(msgs)
        + [("shutdown", None, True), ("exit", None, False)]
    )
    for method, params, is_req in full:
        d = {"jsonrpc": "2.0", "method": method}
        if params is not None:
            d["params"] = params
        if is_req:
            rid += 1
            d["id"] = rid
        data += frame(d)
    proc = subprocess.run(
        [sys.executable, "-c", SERVER, "--disable_autoupdate", "--incremental_sync"],
        input=data, capture_output=True, timeout=timeout, cwd=os.getcwd(),
    )
    out = parse(proc.stdout)
    resp = {m["id"]: m for m in out if "id" in m and "method" not in m}
    notes = [m for m in out if "method" in m]
    return resp, notes


def bad_range(rng, text):
    """Return a reason when `rng` does not address an existing place in `text`"""
    lines = re.split(r"\n|\r\n?", text)
    for p in (rng["start"], rng["end"]):
        if not (0 <= p["line"] < len(lines)):
            return "line %d not in 0..%d" % (p["line"], len(lines) - 1)
        if not (0 <= p["character"] <= len(lines[p["line"]])):
            return "character %d > length %d of line %d" % (
                p["character"], len(lines[p["line"]]), p["line"])
    if (rng["start"]["line"], rng["start"]["character"]) > (
        rng["end"]["line"], rng["end"]["character"]):
        return "start > end"
    return None


MAIN = """module work
  implicit none
  integer :: ntot
contains
  subroutine step()
    include 'decls.f90'
    ntot = ntot + 1
  end subroutine step
end module work
"""
# valid Fortran: the include file declares a local `ntot`/`k`; the declarations sit
# on lines 11..12 (1-based) of the include file, main.f90 has only 9 lines of code
DECLS = "! shared declarations\n" * 10 + "integer :: ntot\ninteger :: k\n"


def main():
    root = tempfile.mkdtemp(dir="/var/tmp", prefix="hC09_2_")
    try:
        main_p = os.path.join(root, "main.f90")
        with open(main_p, "w") as f:
            f.write(MAIN)
        with open(os.path.join(root, "decls.f90"), "w") as f:
            f.write(DECLS)
        uri = "file://" + main_p
        resp, notes = session(
            root, [("textDocument/didOpen", {"textDocument": {"uri": uri}}, False)]
        )
        diags = [n["params"] for n in notes
                 if n["method"] == "textDocument/publishDiagnostics" and n["params"]["uri"] == uri]
        print("main.f90 has %d lines (0..%d)" % (len(MAIN.split("\n")), len(MAIN.split("\n")) - 1))
        print("expected: every diagnostic published for main.f90 lies inside main.f90")
        shown = False
        for d in diags:
            for diag in d["diagnostics"]:
                why = bad_range(diag["range"], MAIN)
                print("observed:", json.dumps(diag))
                if why:
                    print("   -> diagnostic range outside main.f90:", why)
                    shown = True
                for rel in diag.get("relatedInformation", []):
                    loc = rel["location"]
                    if loc["uri"] == uri:
                        why = bad_range(loc["range"], MAIN)
                        if why:
                            print("   -> relatedInformation location outside main.f90:", why)
                            shown = True
        if not diags:
            print("observed: no diagnostics published")
        print("DEFECT SHOWS" if shown else "defect does not show")
        return 1 if shown else 0
    finally:
        shutil.rmtree(root, ignore_errors=True)


if __name__ == "__main__":
    sys.exit(main())
