#!/usr/bin/env python
"""Defect 4: after a textDocument/didChange that shortens file A, a
definition request in file B (whose variable cached the derived type of A on an
earlier request) still resolves through the *old* objects of A and returns a
location in A beyond its new end.

Run as:  cd <checkout> && /venv/bin/python /var/tmp/wt-out/h-C09/4.py
Exit 1 = defect shows, 0 = it does not.
"""
import json
import os
import re
import shutil
import subprocess
import sys
import tempfile

SERVER = (
    "import sys, os; sys.path.insert(0, os.getcwd()); "
    "from fortls import main; main()"
)


def frame(obj):
    body = json.dumps(obj).encode()
    return b"Content-Length: %d\r\n\r\n" % len(body) + body


def parse(out):
    msgs, i = [], 0
    while True:
        j = out.find(b"Content-Length:", i)
        if j < 0:
            return msgs
        n = int(out[j + 15 : out.find(b"\r\n", j)].strip())
        k = out.find(b"\r\n\r\n", j) + 4
        msgs.append(json.loads(out[k : k + n]))
        i = k + n


def session(root, msgs, timeout=60):
    data, rid = b"", 0
    full = (
        [("initialize", {"rootPath": root, "rootUri": "file://" + root, "capabilities": {}}, True),
         ("initialized", {}, False)]
        + list(msgs)
        + [("shutdown", None, True), ("exit", None, False)]
    )
    for method, params, is_req in full:
        d = {"jsonrpc": "2.0", "method": method}
        if params is not None:
            d["params"] = params
        if is_req:
            rid += 1
            d["id"] = rid
        data += frame(d)
    proc = subprocess.run(
        [sys.executable, "-c", SERVER, "--disable_autoupdate", "--incremental_sync"],
        input=data, capture_output=True, timeout=timeout, cwd=os.getcwd(),
    )
    out = parse(proc.stdout)
    resp = {m["id"]: m for m in out if "id" in m and "method" not in m}
    notes = [m for m in out if "method" in m]
    return resp, notes


def bad_range(rng, text):
    """Return a reason when `rng` does not address an existing place in `text`"""
    lines = re.split(r"\n|\r\n?", text)
    for p in (rng["start"], rng["end"]):
        if not (0 <= p["line"] < len(lines)):
            return "line %d not in 0..%d" % (p["line"], len(lines) - 1)
        if not (0 <= p["character"] <= len(lines[p["line"]])):
            return "character %d > length %d of line %d" % (
                p["character"], len(lines[p["line"]]), p["line"])
    if (rng["start"]["line"], rng["start"]["character"]) > (
        rng["end"]["line"], rng["end"]["character"]):
        return "start > end"
    return None



A_OLD = (
    "module a\n  implicit none\n"
    + "  ! a long comment block\n" * 30
    + "  type :: point\n    real :: x\n    real :: y\n  end type point\nend module a\n"
)
B = """program b
  use a
  implicit none
  type(point) :: p
  p%x = 1.0
end program b
"""


def main():
    root = tempfile.mkdtemp(dir="/var/tmp", prefix="hC09_4_")
    try:
        a_p = os.path.join(root, "a.f90")
        b_p = os.path.join(root, "b.f90")
        with open(a_p, "w") as f:
            f.write(A_OLD)
        with open(b_p, "w") as f:
            f.write(B)
        ua, ub = "file://" + a_p, "file://" + b_p
        # the user deletes the 30 comment lines (lines 2..31) in the editor
        a_lines = A_OLD.split("\n")
        A_NEW = "\n".join(a_lines[:2] + a_lines[32:])
        req = ("textDocument/definition",
               {"textDocument": {"uri": ub}, "position": {"line": 4, "character": 4}}, True)
        msgs = [
            ("textDocument/didOpen", {"textDocument": {"uri": ua, "text": A_OLD}}, False),
            ("textDocument/didOpen", {"textDocument": {"uri": ub, "text": B}}, False),
            req,  # id 2: before the edit
            ("textDocument/didChange",
             {"textDocument": {"uri": ua, "version": 2},
              "contentChanges": [{"range": {"start": {"line": 2, "character": 0},
                                            "end": {"line": 32, "character": 0}},
                                  "text": ""}]}, False),
            req,  # id 3: after the edit
        ]
        resp, notes = session(root, msgs)
        before, after = resp.get(2), resp.get(3)
        print("a.f90 before the edit: %d lines, after: %d lines"
              % (len(a_lines), len(A_NEW.split("\n"))))
        print("request : definition of `x` in `p%x` (b.f90:4:4)")
        print("before edit:", json.dumps(before and before.get("result")))
        print("expected after edit: a.f90 line 3 (`    real :: x`), or at least a line < %d"
              % len(A_NEW.split("\n")))
        print("observed after edit:", json.dumps(after))
        shown = False
        if after is None or "error" in after:
            shown = True
        elif after["result"] is not None:
            loc = after["result"]
            text = A_NEW if loc["uri"].endswith("a.f90") else B
            why = bad_range(loc["range"], text)
            if why:
                print("   -> location outside the current a.f90:", why)
                shown = True
        print("DEFECT SHOWS" if shown else "defect does not show")
        return 1 if shown else 0
    finally:
        shutil.rmtree(root, ignore_errors=True)


if __name__ == "__main__":
    sys.exit(main())
