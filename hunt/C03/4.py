"""Fortran INCLUDE cycle a.f90 <-> b.f90 hangs in FortranAST.resolve_includes during workspace initialisation

Reproducer for a defect on the unmodified fortls HEAD (/repo, used read-only).
Run as:  /venv/bin/python 4.py
Creates its files in a fresh directory under /var/tmp, runs fortls from /repo in a
child process with a 30 s timeout, prints what happened and removes the directory.
Exit code: 1 = defect reproduced, 0 = not reproduced.
"""
import os
import shutil
import subprocess
import sys
import tempfile

TIMEOUT = 30
FILES = {'a.f90': "integer :: xa\ninclude 'b.f90'\n", 'b.f90': "integer :: xb\ninclude 'a.f90'\n"}

CHILD = r'''
import os, sys, time
import fortls
from fortls.interface import cli
from fortls.langserver import LangServer
print("fortls from", fortls.__file__)
root = sys.argv[1]

class Conn:
    def send_notification(self, m, p): print("  notification:", m, p)
    def write_error(self, rid, code=None, message=None, data=None): print("  error response:", rid, message)
    def write_response(self, rid, r): print("  response:", rid, "ok")

settings = vars(cli("fortls").parse_args([]))
settings["disable_autoupdate"] = True
settings["nthreads"] = 1
srv = LangServer(Conn(), settings)
t0 = time.time()
print("sending initialize for workspace", root, "(a.f90 and b.f90 include each other) ...")
srv.handle({"jsonrpc": "2.0", "id": 1, "method": "initialize",
            "params": {"rootPath": root, "initializationOptions": {}}})
print("initialize returned after %.2fs" % (time.time() - t0))

'''


def main():
    tmp = tempfile.mkdtemp(dir="/var/tmp", prefix="c03head_")
    try:
        for name, content in FILES.items():
            with open(os.path.join(tmp, name), "w", newline="") as fh:
                fh.write(content)
            print("--- %s ---" % name)
            print(content, end="" if content.endswith("\n") else "\n")
        print("---")
        with open(os.path.join(tmp, "_child.py"), "w") as fh:
            fh.write(CHILD)
        env = dict(os.environ, PYTHONPATH="/repo", PYTHONDONTWRITEBYTECODE="1")
        proc = subprocess.Popen(
            ["/venv/bin/python", "-u", os.path.join(tmp, "_child.py"), tmp],
            cwd=tmp, env=env, text=True,
            stdout=subprocess.PIPE, stderr=subprocess.STDOUT,
        )
        try:
            out, _ = proc.communicate(timeout=TIMEOUT)
            timed_out = False
        except subprocess.TimeoutExpired:
            proc.kill()
            out, _ = proc.communicate()
            timed_out = True
        print(out.rstrip()[-3000:])
        if timed_out:
            print("RESULT: DEFECT REPRODUCED - did not finish within %d s" % TIMEOUT)
            return 1
        if proc.returncode != 0:
            print("RESULT: DEFECT REPRODUCED - child exit code %d" % proc.returncode)
            return 1
        print("RESULT: not reproduced (indexing completed)")
        return 0
    finally:
        shutil.rmtree(tmp, ignore_errors=True)


if __name__ == "__main__":
    sys.exit(main())
