"""a preprocessed file that #includes itself twice never finishes preprocessing

Reproducer for a defect on the unmodified fortls HEAD (/repo, used read-only).
Run as:  /venv/bin/python 3.py
Creates its files in a fresh directory under /var/tmp, runs fortls from /repo in a
child process with a 30 s timeout, prints what happened and removes the directory.
Exit code: 1 = defect reproduced, 0 = not reproduced.
"""
import os
import shutil
import subprocess
import sys
import tempfile

TIMEOUT = 30
FILES = {'self.F90': '#include "self.F90"\n#include "self.F90"\ninteger :: a\n'}

CHILD = r'''
import os, sys, time, traceback
import fortls
from fortls.parsers.internal.parser import FortranFile
print("fortls from", fortls.__file__)
path = os.path.join(sys.argv[1], "self.F90")
f = FortranFile(path)
err, _ = f.load_from_disk()
assert err is None, err
t0 = time.time()
print("parsing", path, "...")
try:
    ast = f.parse()
except BaseException:
    traceback.print_exc()
    print("parse() RAISED after %.2fs" % (time.time() - t0))
    sys.exit(2)
print("parse() returned after %.2fs; preprocessed text: %r" % (time.time() - t0, f.contents_pp))

'''


def main():
    tmp = tempfile.mkdtemp(dir="/var/tmp", prefix="c03head_")
    try:
        for name, content in FILES.items():
            with open(os.path.join(tmp, name), "w", newline="") as fh:
                fh.write(content)
            print("--- %s ---" % name)
            print(content, end="" if content.endswith("\n") else "\n")
        print("---")
        with open(os.path.join(tmp, "_child.py"), "w") as fh:
            fh.write(CHILD)
        env = dict(os.environ, PYTHONPATH="/repo", PYTHONDONTWRITEBYTECODE="1")
        proc = subprocess.Popen(
            ["/venv/bin/python", "-u", os.path.join(tmp, "_child.py"), tmp],
            cwd=tmp, env=env, text=True,
            stdout=subprocess.PIPE, stderr=subprocess.STDOUT,
        )
        try:
            out, _ = proc.communicate(timeout=TIMEOUT)
            timed_out = False
        except subprocess.TimeoutExpired:
            proc.kill()
            out, _ = proc.communicate()
            timed_out = True
        print(out.rstrip()[-3000:])
        if timed_out:
            print("RESULT: DEFECT REPRODUCED - did not finish within %d s" % TIMEOUT)
            return 1
        if proc.returncode != 0:
            print("RESULT: DEFECT REPRODUCED - child exit code %d" % proc.returncode)
            return 1
        print("RESULT: not reproduced (indexing completed)")
        return 0
    finally:
        shutil.rmtree(tmp, ignore_errors=True)


if __name__ == "__main__":
    sys.exit(main())
