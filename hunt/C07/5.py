"""A function statement whose type-spec precedes the MODULE prefix
('integer module function f(a)', any prefix order is standard) is not recognised
as a function: its body declarations leak into the enclosing scope, two such
separate module functions with a dummy of the same name give 'declared twice'."""
import os
import shutil
import subprocess
import sys
import tempfile
from io import StringIO

sys.path.insert(0, os.getcwd())
from fortls.jsonrpc import (  # noqa: E402
    path_to_uri,
    read_rpc_messages,
    write_rpc_notification,
    write_rpc_request,
)


def diagnostics(files, args=()):
    """Write `files` into a fresh workspace under /var/tmp, start fortls (from the
    checkout in the current working directory) in a child process, open every
    file and return {file name: [published diagnostics]}"""
    root = tempfile.mkdtemp(dir="/var/tmp", prefix="h_c07_")
    try:
        for name, text in files.items():
            with open(os.path.join(root, name), "w") as fh:
                fh.write(text)
        req = write_rpc_request(1, "initialize", {"rootPath": root})
        for name in files:
            req += write_rpc_notification(
                "textDocument/didOpen",
                {"textDocument": {"uri": path_to_uri(os.path.join(root, name))}},
            )
        req += write_rpc_request(2, "shutdown", {})
        req += write_rpc_notification("exit", {})
        env = dict(os.environ, PYTHONPATH=os.getcwd())
        proc = subprocess.run(
            [sys.executable, "-m", "fortls", "--disable_autoupdate",
             "--incremental_sync", *args],
            input=req.encode(), capture_output=True, timeout=60,
            cwd=os.getcwd(), env=env,
        )
        out = {}
        for msg in read_rpc_messages(StringIO(proc.stdout.decode())):
            if msg.get("method") == "textDocument/publishDiagnostics":
                name = os.path.basename(msg["params"]["uri"])
                out[name] = msg["params"]["diagnostics"]
        return out
    finally:
        shutil.rmtree(root, ignore_errors=True)


def fmt(diags):
    return [
        "L%d sev%d %s" % (d["range"]["start"]["line"] + 1, d["severity"], d["message"])
        for d in diags
    ]


def errors(diags):
    return [d for d in diags if d["severity"] == 1]

SRC = """module m
  implicit none
  interface
    integer module function f2(a)
      integer, intent(in) :: a
    end function
    real module function f3(a)
      integer, intent(in) :: a
    end function
  end interface
end module
submodule (m) sm
  implicit none
contains
  integer module function f2(a)
    integer, intent(in) :: a
    f2 = a
  end function
  real module function f3(a)
    integer, intent(in) :: a
    f3 = a
  end function
end submodule
"""
d = diagnostics({"m.f90": SRC}).get("m.f90", [])
print("expected: no error-severity diagnostic")
print("observed:", fmt(d) or "none")
sys.exit(1 if errors(d) else 0)
