r"""FRegex.BLOCK ('[ ]*(label:)?BLOCK|CRITICAL(?!\w)') matches anything that starts
with BLOCK: a BLOCK DATA program unit closed by a bare END, and an assignment to an
array whose name starts with 'block', open a BLOCK construct scope; errors follow.
The same regex never sees an indented CRITICAL construct."""
import os
import shutil
import subprocess
import sys
import tempfile
from io import StringIO

sys.path.insert(0, os.getcwd())
from fortls.jsonrpc import (  # noqa: E402
    path_to_uri,
    read_rpc_messages,
    write_rpc_notification,
    write_rpc_request,
)


def diagnostics(files, args=()):
    """Write `files` into a fresh workspace under /var/tmp, start fortls (from the
    checkout in the current working directory) in a child process, open every
    file and return {file name: [published diagnostics]}"""
    root = tempfile.mkdtemp(dir="/var/tmp", prefix="h_c07_")
    try:
        for name, text in files.items():
            with open(os.path.join(root, name), "w") as fh:
                fh.write(text)
        req = write_rpc_request(1, "initialize", {"rootPath": root})
        for name in files:
            req += write_rpc_notification(
                "textDocument/didOpen",
                {"textDocument": {"uri": path_to_uri(os.path.join(root, name))}},
            )
        req += write_rpc_request(2, "shutdown", {})
        req += write_rpc_notification("exit", {})
        env = dict(os.environ, PYTHONPATH=os.getcwd())
        proc = subprocess.run(
            [sys.executable, "-m", "fortls", "--disable_autoupdate",
             "--incremental_sync", *args],
            input=req.encode(), capture_output=True, timeout=60,
            cwd=os.getcwd(), env=env,
        )
        out = {}
        for msg in read_rpc_messages(StringIO(proc.stdout.decode())):
            if msg.get("method") == "textDocument/publishDiagnostics":
                name = os.path.basename(msg["params"]["uri"])
                out[name] = msg["params"]["diagnostics"]
        return out
    finally:
        shutil.rmtree(root, ignore_errors=True)


def fmt(diags):
    return [
        "L%d sev%d %s" % (d["range"]["start"]["line"] + 1, d["severity"], d["message"])
        for d in diags
    ]


def errors(diags):
    return [d for d in diags if d["severity"] == 1]

SRC_BLOCKDATA = """      block data bd
      integer k
      common /c/ k
      data k /1/
      end
"""
SRC_ASSIGN = """module m
  implicit none
  integer :: blocks(3), block_size(2)
contains
  subroutine a()
    blocks(1) = 3
    block_size(1) = 2
  end subroutine a
  subroutine b()
  end subroutine b
end module m
"""
SRC_CRITICAL = """subroutine s()
  implicit none
  integer :: i
  critical
    i = 1
end
"""
bad = False
d = diagnostics({"bd.f": SRC_BLOCKDATA}).get("bd.f", [])
print("--- BLOCK DATA unit closed by a bare END (fixed form, F77 style)")
print("expected: no error-severity diagnostic")
print("observed:", fmt(d) or "none")
bad = bad or bool(errors(d))
d = diagnostics({"m.f90": SRC_ASSIGN}).get("m.f90", [])
print("--- assignment to arrays named blocks(...) / block_size(...)")
print("expected: no error-severity diagnostic")
print("observed:", fmt(d) or "none")
bad = bad or bool(errors(d))
d = diagnostics({"c.f90": SRC_CRITICAL}).get("c.f90", [])
print("--- seeded: indented CRITICAL construct left open at a bare END (line 6)")
print("expected: error 'Unexpected end of scope at line 6'")
print("observed:", fmt(d) or "none")
bad = bad or not any("Unexpected end of scope" in x["message"] for x in d)
sys.exit(1 if bad else 0)
