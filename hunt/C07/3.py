"""Fixed form: columns 73+ (sequence numbers / identification field) are not part of
the statement, but fortls parses them: 'integer a    ID000030' declares something
else than A, so the dummy argument is reported as undeclared (error)."""
import os
import shutil
import subprocess
import sys
import tempfile
from io import StringIO

sys.path.insert(0, os.getcwd())
from fortls.jsonrpc import (  # noqa: E402
    path_to_uri,
    read_rpc_messages,
    write_rpc_notification,
    write_rpc_request,
)


def diagnostics(files, args=()):
    """Write `files` into a fresh workspace under /var/tmp, start fortls (from the
    checkout in the current working directory) in a child process, open every
    file and return {file name: [published diagnostics]}"""
    root = tempfile.mkdtemp(dir="/var/tmp", prefix="h_c07_")
    try:
        for name, text in files.items():
            with open(os.path.join(root, name), "w") as fh:
                fh.write(text)
        req = write_rpc_request(1, "initialize", {"rootPath": root})
        for name in files:
            req += write_rpc_notification(
                "textDocument/didOpen",
                {"textDocument": {"uri": path_to_uri(os.path.join(root, name))}},
            )
        req += write_rpc_request(2, "shutdown", {})
        req += write_rpc_notification("exit", {})
        env = dict(os.environ, PYTHONPATH=os.getcwd())
        proc = subprocess.run(
            [sys.executable, "-m", "fortls", "--disable_autoupdate",
             "--incremental_sync", *args],
            input=req.encode(), capture_output=True, timeout=60,
            cwd=os.getcwd(), env=env,
        )
        out = {}
        for msg in read_rpc_messages(StringIO(proc.stdout.decode())):
            if msg.get("method") == "textDocument/publishDiagnostics":
                name = os.path.basename(msg["params"]["uri"])
                out[name] = msg["params"]["diagnostics"]
        return out
    finally:
        shutil.rmtree(root, ignore_errors=True)


def fmt(diags):
    return [
        "L%d sev%d %s" % (d["range"]["start"]["line"] + 1, d["severity"], d["message"])
        for d in diags
    ]


def errors(diags):
    return [d for d in diags if d["severity"] == 1]

lines = [
    "      subroutine s(a)",
    "      implicit none",
    "      integer a",
    "      if (a .eq. 1) then",
    "         a = 2",
    "      end if",
    "      end",
]
SRC = "".join("%-72sID%06d\n" % (text, 10 * (i + 1)) for i, text in enumerate(lines))
print(SRC)
d = diagnostics({"seq.f": SRC}).get("seq.f", [])
print("expected: no error-severity diagnostic (columns 73-80 are ignored in fixed form)")
print("observed:", fmt(d) or "none")
sys.exit(1 if errors(d) else 0)
