"""PROCEDURE() with an empty interface ('procedure() :: f',
'procedure(), pointer :: p') is not parsed as a declaration at all, so a dummy
procedure declared that way is 'undeclared' under IMPLICIT NONE (error), and a
duplicate declaration of such an entity goes unnoticed."""
import os
import shutil
import subprocess
import sys
import tempfile
from io import StringIO

sys.path.insert(0, os.getcwd())
from fortls.jsonrpc import (  # noqa: E402
    path_to_uri,
    read_rpc_messages,
    write_rpc_notification,
    write_rpc_request,
)


def diagnostics(files, args=()):
    """Write `files` into a fresh workspace under /var/tmp, start fortls (from the
    checkout in the current working directory) in a child process, open every
    file and return {file name: [published diagnostics]}"""
    root = tempfile.mkdtemp(dir="/var/tmp", prefix="h_c07_")
    try:
        for name, text in files.items():
            with open(os.path.join(root, name), "w") as fh:
                fh.write(text)
        req = write_rpc_request(1, "initialize", {"rootPath": root})
        for name in files:
            req += write_rpc_notification(
                "textDocument/didOpen",
                {"textDocument": {"uri": path_to_uri(os.path.join(root, name))}},
            )
        req += write_rpc_request(2, "shutdown", {})
        req += write_rpc_notification("exit", {})
        env = dict(os.environ, PYTHONPATH=os.getcwd())
        proc = subprocess.run(
            [sys.executable, "-m", "fortls", "--disable_autoupdate",
             "--incremental_sync", *args],
            input=req.encode(), capture_output=True, timeout=60,
            cwd=os.getcwd(), env=env,
        )
        out = {}
        for msg in read_rpc_messages(StringIO(proc.stdout.decode())):
            if msg.get("method") == "textDocument/publishDiagnostics":
                name = os.path.basename(msg["params"]["uri"])
                out[name] = msg["params"]["diagnostics"]
        return out
    finally:
        shutil.rmtree(root, ignore_errors=True)


def fmt(diags):
    return [
        "L%d sev%d %s" % (d["range"]["start"]["line"] + 1, d["severity"], d["message"])
        for d in diags
    ]


def errors(diags):
    return [d for d in diags if d["severity"] == 1]

SRC = """subroutine s(f, g)
  implicit none
  procedure() :: f
  procedure(), pointer, intent(in) :: g
  call f()
  call g()
end subroutine
"""
SRC_DUP = """module m
  implicit none
  procedure(), pointer :: pp
  integer :: k
  procedure(), pointer :: pp
end module
"""
bad = False
d = diagnostics({"p.f90": SRC}).get("p.f90", [])
print("--- dummy procedures declared with PROCEDURE()")
print("expected: no error-severity diagnostic")
print("observed:", fmt(d) or "none")
bad = bad or bool(errors(d))
d = diagnostics({"q.f90": SRC_DUP}).get("q.f90", [])
print("--- seeded: procedure pointer pp declared twice (line 5)")
print("expected: error 'Variable \"pp\" declared twice in scope' on line 5")
print("observed:", fmt(d) or "none")
bad = bad or not any("declared twice" in x["message"] for x in d)
sys.exit(1 if bad else 0)
