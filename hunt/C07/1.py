"""EXTERNAL/type declaration pairs are merged file-wide instead of per scope:
the usual F77 pair 'REAL F' + 'EXTERNAL F' repeated in two procedures of one file
(or written in different case) is reported as 'declared twice' (error)."""
import os
import shutil
import subprocess
import sys
import tempfile
from io import StringIO

sys.path.insert(0, os.getcwd())
from fortls.jsonrpc import (  # noqa: E402
    path_to_uri,
    read_rpc_messages,
    write_rpc_notification,
    write_rpc_request,
)


def diagnostics(files, args=()):
    """Write `files` into a fresh workspace under /var/tmp, start fortls (from the
    checkout in the current working directory) in a child process, open every
    file and return {file name: [published diagnostics]}"""
    root = tempfile.mkdtemp(dir="/var/tmp", prefix="h_c07_")
    try:
        for name, text in files.items():
            with open(os.path.join(root, name), "w") as fh:
                fh.write(text)
        req = write_rpc_request(1, "initialize", {"rootPath": root})
        for name in files:
            req += write_rpc_notification(
                "textDocument/didOpen",
                {"textDocument": {"uri": path_to_uri(os.path.join(root, name))}},
            )
        req += write_rpc_request(2, "shutdown", {})
        req += write_rpc_notification("exit", {})
        env = dict(os.environ, PYTHONPATH=os.getcwd())
        proc = subprocess.run(
            [sys.executable, "-m", "fortls", "--disable_autoupdate",
             "--incremental_sync", *args],
            input=req.encode(), capture_output=True, timeout=60,
            cwd=os.getcwd(), env=env,
        )
        out = {}
        for msg in read_rpc_messages(StringIO(proc.stdout.decode())):
            if msg.get("method") == "textDocument/publishDiagnostics":
                name = os.path.basename(msg["params"]["uri"])
                out[name] = msg["params"]["diagnostics"]
        return out
    finally:
        shutil.rmtree(root, ignore_errors=True)


def fmt(diags):
    return [
        "L%d sev%d %s" % (d["range"]["start"]["line"] + 1, d["severity"], d["message"])
        for d in diags
    ]


def errors(diags):
    return [d for d in diags if d["severity"] == 1]

SRC_TWO = """subroutine s1(f)
  implicit none
  real f
  external f
end subroutine
subroutine s2(f)
  implicit none
  real f
  external f
end subroutine
subroutine s3(f)
  implicit none
  external f
  real f
end subroutine
"""
SRC_CASE = """subroutine s(F, g)
  implicit none
  real F
  external f
  EXTERNAL G
  real g
end subroutine
"""
SRC_OTHER_SCOPE = """module m
  implicit none
  real :: f
end module
subroutine s1(f)
  implicit none
  external f
end subroutine
"""
bad = False
for title, src in (
    ("REAL F / EXTERNAL F in three procedures of one file", SRC_TWO),
    ("REAL F / EXTERNAL f written in different case", SRC_CASE),
    ("EXTERNAL f in a procedure, unrelated REAL :: f in a module above", SRC_OTHER_SCOPE),
):
    diags = diagnostics({"ext.f90": src}).get("ext.f90", [])
    print("---", title)
    print("expected: no error-severity diagnostic (standard-conforming)")
    print("observed:", fmt(diags) or "none")
    bad = bad or bool(errors(diags))
sys.exit(1 if bad else 0)
