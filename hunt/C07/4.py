"""FRegex.IMPORT and FRegex.INT have no word boundary after the keyword: an assignment
to an array whose name merely starts with IMPORT / INTERFACE is read as an IMPORT
statement / as the start of an INTERFACE block."""
import os
import shutil
import subprocess
import sys
import tempfile
from io import StringIO

sys.path.insert(0, os.getcwd())
from fortls.jsonrpc import (  # noqa: E402
    path_to_uri,
    read_rpc_messages,
    write_rpc_notification,
    write_rpc_request,
)


def diagnostics(files, args=()):
    """Write `files` into a fresh workspace under /var/tmp, start fortls (from the
    checkout in the current working directory) in a child process, open every
    file and return {file name: [published diagnostics]}"""
    root = tempfile.mkdtemp(dir="/var/tmp", prefix="h_c07_")
    try:
        for name, text in files.items():
            with open(os.path.join(root, name), "w") as fh:
                fh.write(text)
        req = write_rpc_request(1, "initialize", {"rootPath": root})
        for name in files:
            req += write_rpc_notification(
                "textDocument/didOpen",
                {"textDocument": {"uri": path_to_uri(os.path.join(root, name))}},
            )
        req += write_rpc_request(2, "shutdown", {})
        req += write_rpc_notification("exit", {})
        env = dict(os.environ, PYTHONPATH=os.getcwd())
        proc = subprocess.run(
            [sys.executable, "-m", "fortls", "--disable_autoupdate",
             "--incremental_sync", *args],
            input=req.encode(), capture_output=True, timeout=60,
            cwd=os.getcwd(), env=env,
        )
        out = {}
        for msg in read_rpc_messages(StringIO(proc.stdout.decode())):
            if msg.get("method") == "textDocument/publishDiagnostics":
                name = os.path.basename(msg["params"]["uri"])
                out[name] = msg["params"]["diagnostics"]
        return out
    finally:
        shutil.rmtree(root, ignore_errors=True)


def fmt(diags):
    return [
        "L%d sev%d %s" % (d["range"]["start"]["line"] + 1, d["severity"], d["message"])
        for d in diags
    ]


def errors(diags):
    return [d for d in diags if d["severity"] == 1]

SRC_IMPORT = """module m
  implicit none
  integer :: imports(3), import_count(2)
contains
  subroutine s()
    imports(1) = 2
    import_count(1) = 2
  end subroutine
end module
"""
SRC_INTERFACE = """module m
  implicit none
  type tt
    integer :: i
  end type
  integer :: interfaces(3)
contains
  subroutine s()
    interfaces(1) = 1
  end subroutine
  subroutine t(x)
    type(tt) :: x
  end subroutine
end module
"""
bad = False
for title, src in (
    ("imports(1) = 2 / import_count(1) = 2", SRC_IMPORT),
    ("interfaces(1) = 1, followed by a procedure that uses a host type", SRC_INTERFACE),
):
    d = diagnostics({"m.f90": src}).get("m.f90", [])
    print("---", title)
    print("expected: no error-severity diagnostic")
    print("observed:", fmt(d) or "none")
    bad = bad or bool(errors(d))
sys.exit(1 if bad else 0)
