#!/usr/bin/env python
# Self-contained reproducer. Run as:  cd <fortls checkout> && /venv/bin/python <this file>
# exit 1 = defect shows, exit 0 = defect does not show, exit 2 = harness problem
import json
import os
import queue
import shutil
import subprocess
import sys
import tempfile
import threading

CHECKOUT = os.getcwd()
sys.path.insert(0, CHECKOUT)
TIMEOUT = 45  # seconds for the whole script
_SERVERS = []


def _watchdog():
    print("TIMEOUT: harness watchdog fired")
    for s in _SERVERS:
        try:
            s.p.kill()
        except Exception:
            pass
    os._exit(2)


_wd = threading.Timer(TIMEOUT, _watchdog)
_wd.daemon = True
_wd.start()


def uri(path):
    return "file://" + path


class Server:
    """fortls from the current checkout, run in a child process, talked to over stdio"""

    def __init__(self, root, *args):
        code = (
            "import sys, os; sys.path.insert(0, os.getcwd()); "
            "from fortls import main; sys.exit(main())"
        )
        self.p = subprocess.Popen(
            [sys.executable, "-c", code, "--disable_autoupdate", *args],
            cwd=CHECKOUT,
            stdin=subprocess.PIPE,
            stdout=subprocess.PIPE,
            stderr=subprocess.DEVNULL,
        )
        _SERVERS.append(self)
        self.q = queue.Queue()
        self.notes = []
        self.nid = 0
        self.version = {}
        threading.Thread(target=self._reader, daemon=True).start()
        self.request("initialize", {"rootPath": root, "capabilities": {}})
        self.notify("initialized", {})

    def _reader(self):
        f = self.p.stdout
        while True:
            length = None
            while True:
                line = f.readline()
                if not line:
                    self.q.put(None)
                    return
                line = line.strip()
                if not line:
                    break
                if line.lower().startswith(b"content-length:"):
                    length = int(line.split(b":")[1])
            body = f.read(length)
            self.q.put(json.loads(body))

    def _send(self, msg):
        body = json.dumps(msg).encode()
        self.p.stdin.write(b"Content-Length: %d\r\n\r\n" % len(body) + body)
        self.p.stdin.flush()

    def notify(self, method, params):
        self._send({"jsonrpc": "2.0", "method": method, "params": params})

    def request(self, method, params):
        self.nid += 1
        self._send({"jsonrpc": "2.0", "id": self.nid, "method": method, "params": params})
        while True:
            msg = self.q.get(timeout=30)
            if msg is None:
                raise RuntimeError("server died")
            if msg.get("id") == self.nid and "method" not in msg:
                if "error" in msg:
                    return {"ERROR": msg["error"].get("message")}
                return msg.get("result")
            self.notes.append(msg)

    def sync(self):
        self.request("workspace/symbol", {"query": "@@nothing@@"})

    # --- editor actions -------------------------------------------------
    def open(self, path, text=None):
        if text is None:
            with open(path) as fh:
                text = fh.read()
        self.version[path] = 1
        self.notify(
            "textDocument/didOpen",
            {"textDocument": {"uri": uri(path), "languageId": "fortran", "version": 1, "text": text}},
        )
        self.sync()

    def change(self, path, text):
        self.version[path] = self.version.get(path, 1) + 1
        self.notify(
            "textDocument/didChange",
            {
                "textDocument": {"uri": uri(path), "version": self.version[path]},
                "contentChanges": [{"text": text}],
            },
        )
        self.sync()

    def save(self, path, text):
        """what an editor does on save: write the buffer to disk, send didSave"""
        with open(path, "w") as fh:
            fh.write(text)
        self.notify("textDocument/didSave", {"textDocument": {"uri": uri(path)}})
        self.sync()

    def edit_and_save(self, path, text):
        self.change(path, text)
        self.save(path, text)

    def close(self, path):
        self.notify("textDocument/didClose", {"textDocument": {"uri": uri(path)}})
        self.sync()

    # --- queries --------------------------------------------------------
    def _pos(self, path, line, col):
        return {"textDocument": {"uri": uri(path)}, "position": {"line": line, "character": col}}

    def hover(self, path, line, col):
        r = self.request("textDocument/hover", self._pos(path, line, col))
        if isinstance(r, dict) and "contents" in r:
            c = r["contents"]
            return c.get("value") if isinstance(c, dict) else c
        return r

    def definition(self, path, line, col):
        r = self.request("textDocument/definition", self._pos(path, line, col))
        if isinstance(r, dict) and "uri" in r:
            return (os.path.basename(r["uri"]), r["range"]["start"]["line"])
        return r

    def completion(self, path, line, col):
        r = self.request("textDocument/completion", self._pos(path, line, col))
        if isinstance(r, dict) and "items" in r:
            r = r["items"]
        if isinstance(r, list):
            return sorted(i["label"] for i in r)
        return r

    def references(self, path, line, col):
        p = self._pos(path, line, col)
        p["context"] = {"includeDeclaration": True}
        r = self.request("textDocument/references", p)
        if isinstance(r, list):
            return sorted((os.path.basename(i["uri"]), i["range"]["start"]["line"]) for i in r)
        return r

    def symbols(self, path):
        r = self.request("textDocument/documentSymbol", {"textDocument": {"uri": uri(path)}})
        if isinstance(r, list):
            return sorted((i["name"], i["kind"]) for i in r)
        return r

    def wsymbols(self, query):
        r = self.request("workspace/symbol", {"query": query})
        if isinstance(r, list):
            return sorted((i["name"], os.path.basename(i["location"]["uri"])) for i in r)
        return r

    def diagnostics(self, path):
        """diagnostics as published on a (re-)open of the document"""
        self.notes = []
        self.open(path)
        out = None
        for n in self.notes:
            if n.get("method") == "textDocument/publishDiagnostics" and n["params"]["uri"] == uri(path):
                out = sorted((d["range"]["start"]["line"], d["message"]) for d in n["params"]["diagnostics"])
        return out

    def stop(self):
        try:
            self.request("shutdown", None)
            self.notify("exit", None)
            self.p.wait(timeout=5)
        except Exception:
            self.p.kill()


def write(path, text):
    os.makedirs(os.path.dirname(path), exist_ok=True)
    with open(path, "w") as fh:
        fh.write(text)


def run(scenario):
    """scenario(root) -> list of (what, fresh answer, answer after history)"""
    root = tempfile.mkdtemp(dir="/var/tmp", prefix="hC10_")
    bad = 0
    try:
        import fortls

        print("fortls from:", os.path.dirname(fortls.__file__))
        for what, fresh, hist in scenario(root):
            same = fresh == hist
            bad += not same
            print(("OK       " if same else "VIOLATION") + " " + what)
            print("   expected (fresh server on the final files):", fresh)
            print("   observed (server that lived through edits):", hist)
    finally:
        for s in _SERVERS:
            s.stop()
        shutil.rmtree(root, ignore_errors=True)
    print("RESULT:", "defect shows" if bad else "defect does not show")
    sys.exit(1 if bad else 0)


# Defect 1: macros #define'd by one file leak into LangServer.pp_defs and from there
# into every later (re)parse of other files - even after the #define was removed again.
A0 = "module a\n  integer :: ia\nend module a\n"
A1 = "#define WITH_MPI\n" + A0          # typed, then undone again
B0 = (
    "module b\n"
    "#ifdef WITH_MPI\n"
    "  integer :: mpi_rank\n"
    "#endif\n"
    "  integer :: plain\n"
    "end module b\n"
)
B1 = B0 + "! a comment\n"
MAIN = "program main\n  use b\n  mpi_rank = plain\nend program main\n"


def scenario(root):
    a, b = os.path.join(root, "a.F90"), os.path.join(root, "b.F90")
    write(a, A0)
    write(b, B0)
    m = os.path.join(root, "main.f90")
    write(m, MAIN)
    hist = Server(root)
    hist.open(a)
    hist.change(a, A1)          # user types '#define WITH_MPI' ...
    hist.edit_and_save(a, A0)   # ... removes it again and saves (file identical to the start)
    hist.open(b)
    hist.edit_and_save(b, B1)   # unrelated edit (a comment) of b.F90, saved
    hist.close(a)
    hist.close(b)
    fresh = Server(root)        # same files on disk
    out = []
    for name, q in [
        ("hover on 'mpi_rank' in main.f90 (line 3)", lambda s: s.hover(m, 2, 4)),
        ("definition of 'mpi_rank' in main.f90 (line 3)", lambda s: s.definition(m, 2, 4)),
        ("completion 'mpi_' in main.f90 (line 3, col 6)", lambda s: s.completion(m, 2, 6)),
        ("workspace/symbol 'mpi_rank'", lambda s: s.wsymbols("mpi_rank")),
    ]:
        out.append((name, q(fresh), q(hist)))
    return out


run(scenario)
