#!/usr/bin/env python
# Self-contained reproducer. Run as:  cd <fortls checkout> && /venv/bin/python <this file>
# exit 1 = defect shows, exit 0 = defect does not show, exit 2 = harness problem
import json
import os
import queue
import shutil
import subprocess
import sys
import tempfile
import threading

CHECKOUT = os.getcwd()
sys.path.insert(0, CHECKOUT)
TIMEOUT = 60  # seconds for the whole script
_SERVERS = []


def _watchdog():
    print("TIMEOUT: harness watchdog fired")
    for s in _SERVERS:
        try:
            s.p.kill()
        except Exception:
            pass
    os._exit(2)


_wd = threading.Timer(TIMEOUT, _watchdog)
_wd.daemon = True
_wd.start()


def uri(path):
    return "file://" + path


class Server:
    """fortls from the current checkout, run in a child process, talked to over stdio"""

    def __init__(self, root, *args):
        code = (
            "import sys, os; sys.path.insert(0, os.getcwd()); "
            "from fortls import main; sys.exit(main())"
        )
        self.p = subprocess.Popen(
            [sys.executable, "-c", code, "--disable_autoupdate", *args],
            cwd=CHECKOUT,
            stdin=subprocess.PIPE,
            stdout=subprocess.PIPE,
            stderr=subprocess.DEVNULL,
        )
        _SERVERS.append(self)
        self.q = queue.Queue()
        self.notes = []
        self.nid = 0
        self.version = {}
        threading.Thread(target=self._reader, daemon=True).start()
        self.request("initialize", {"rootPath": root, "capabilities": {}})
        self.notify("initialized", {})

    def _reader(self):
        f = self.p.stdout
        while True:
            length = None
            while True:
                line = f.readline()
                if not line:
                    self.q.put(None)
                    return
                line = line.strip()
                if not line:
                    break
                if line.lower().startswith(b"content-length:"):
                    length = int(line.split(b":")[1])
            body = f.read(length)
            self.q.put(json.loads(body))

    def _send(self, msg):
        body = json.dumps(msg).encode()
        self.p.stdin.write(b"Content-Length: %d\r\n\r\n" % len(body) + body)
        self.p.stdin.flush()

    def notify(self, method, params):
        self._send({"jsonrpc": "2.0", "method": method, "params": params})

    def request(self, method, params):
        self.nid += 1
        self._send({"jsonrpc": "2.0", "id": self.nid, "method": method, "params": params})
        while True:
            msg = self.q.get(timeout=30)
            if msg is None:
                raise RuntimeError("server died")
            if msg.get("id") == self.nid and "method" not in msg:
                if "error" in msg:
                    return {"ERROR": msg["error"].get("message")}
                return msg.get("result")
            self.notes.append(msg)

    def sync(self):
        self.request("workspace/symbol", {"query": "@@nothing@@"})

    # --- editor actions -------------------------------------------------
    def open(self, path, text=None):
        if text is None:
            with open(path) as fh:
                text = fh.read()
        self.version[path] = 1
        self.notify(
            "textDocument/didOpen",
            {"textDocument": {"uri": uri(path), "languageId": "fortran", "version": 1, "text": text}},
        )
        self.sync()

    def change(self, path, text):
        self.version[path] = self.version.get(path, 1) + 1
        self.notify(
            "textDocument/didChange",
            {
                "textDocument": {"uri": uri(path), "version": self.version[path]},
                "contentChanges": [{"text": text}],
            },
        )
        self.sync()

    def save(self, path, text):
        """what an editor does on save: write the buffer to disk, send didSave"""
        with open(path, "w") as fh:
            fh.write(text)
        self.notify("textDocument/didSave", {"textDocument": {"uri": uri(path)}})
        self.sync()

    def edit_and_save(self, path, text):
        self.change(path, text)
        self.save(path, text)

    def close(self, path):
        self.notify("textDocument/didClose", {"textDocument": {"uri": uri(path)}})
        self.sync()

    # --- queries --------------------------------------------------------
    def _pos(self, path, line, col):
        return {"textDocument": {"uri": uri(path)}, "position": {"line": line, "character": col}}

    def hover(self, path, line, col):
        r = self.request("textDocument/hover", self._pos(path, line, col))
        if isinstance(r, dict) and "contents" in r:
            c = r["contents"]
            return c.get("value") if isinstance(c, dict) else c
        return r

    def definition(self, path, line, col):
        r = self.request("textDocument/definition", self._pos(path, line, col))
        if isinstance(r, dict) and "uri" in r:
            return (os.path.basename(r["uri"]), r["range"]["start"]["line"])
        return r

    def completion(self, path, line, col):
        r = self.request("textDocument/completion", self._pos(path, line, col))
        if isinstance(r, dict) and "items" in r:
            r = r["items"]
        if isinstance(r, list):
            return sorted(i["label"] for i in r)
        return r

    def references(self, path, line, col):
        p = self._pos(path, line, col)
        p["context"] = {"includeDeclaration": True}
        r = self.request("textDocument/references", p)
        if isinstance(r, list):
            return sorted((os.path.basename(i["uri"]), i["range"]["start"]["line"]) for i in r)
        return r

    def symbols(self, path):
        r = self.request("textDocument/documentSymbol", {"textDocument": {"uri": uri(path)}})
        if isinstance(r, list):
            return sorted((i["name"], i["kind"]) for i in r)
        return r

    def wsymbols(self, query):
        r = self.request("workspace/symbol", {"query": query})
        if isinstance(r, list):
            return sorted((i["name"], os.path.basename(i["location"]["uri"])) for i in r)
        return r

    def diagnostics(self, path):
        """diagnostics as published on a (re-)open of the document"""
        self.notes = []
        self.open(path)
        out = None
        for n in self.notes:
            if n.get("method") == "textDocument/publishDiagnostics" and n["params"]["uri"] == uri(path):
                out = sorted((d["range"]["start"]["line"], d["message"]) for d in n["params"]["diagnostics"])
        return out

    def stop(self):
        try:
            self.request("shutdown", None)
            self.notify("exit", None)
            self.p.wait(timeout=5)
        except Exception:
            self.p.kill()


def write(path, text):
    os.makedirs(os.path.dirname(path), exist_ok=True)
    with open(path, "w") as fh:
        fh.write(text)


def run(scenario):
    """scenario(root) -> list of (what, fresh answer, answer after history)"""
    root = tempfile.mkdtemp(dir="/var/tmp", prefix="hC10_")
    bad = 0
    try:
        import fortls

        print("fortls from:", os.path.dirname(fortls.__file__))
        for what, fresh, hist in scenario(root):
            same = fresh == hist
            bad += not same
            print(("OK       " if same else "VIOLATION") + " " + what)
            print("   expected (fresh server on the final files):", fresh)
            print("   observed (server that lived through edits):", hist)
    finally:
        for s in _SERVERS:
            s.stop()
        shutil.rmtree(root, ignore_errors=True)
    print("RESULT:", "defect shows" if bad else "defect does not show")
    sys.exit(1 if bad else 0)


# Defect 6: Method.resolve_link() (type-bound procedure 'procedure :: name => impl')
# never clears link_obj.  When 'impl' lives in another file and disappears from it
# (renamed / removed), the binding keeps pointing at the procedure object parsed from
# the earlier version of that file.
UTIL0 = (
    "module util\n"
    "  implicit none\n"
    "contains\n"
    "  subroutine helper_impl(n, scale)\n"
    "    integer, intent(in) :: n\n"
    "    real, intent(in) :: scale\n"
    "  end subroutine helper_impl\n"
    "end module util\n"
)
UTIL1 = UTIL0.replace("helper_impl", "other_name")
TYPES = (
    "module types\n"
    "  use util\n"
    "  implicit none\n"
    "  type :: t\n"
    "  contains\n"
    "    procedure, nopass :: helper => helper_impl\n"
    "  end type t\n"
    "end module types\n"
)
MAIN = (
    "program main\n"
    "  use types\n"
    "  type(t) :: obj\n"
    "  call obj%helper(1, 2.0)\n"
    "end program main\n"
)


def scenario(root):
    u, t, m = (os.path.join(root, f) for f in ("util.f90", "types.f90", "main.f90"))
    write(u, UTIL0)
    write(t, TYPES)
    write(m, MAIN)
    hist = Server(root)
    hist.open(u)
    hist.edit_and_save(u, UTIL1)    # helper_impl is renamed in util.f90, saved
    hist.close(u)
    fresh = Server(root)
    out = []
    for name, q in [
        ("hover on 'helper' in 'call obj%helper' (main.f90 line 4)", lambda s: s.hover(m, 3, 13)),
        ("hover on 'helper' in the binding (types.f90 line 6)", lambda s: s.hover(t, 5, 27)),
        ("completion after 'obj%' (main.f90 line 4, col 11)", lambda s: s.completion(m, 3, 11)),
        ("signatureHelp inside 'obj%helper(' (main.f90 line 4, col 18)",
         lambda s: s.request("textDocument/signatureHelp", s._pos(m, 3, 18))),
    ]:
        out.append((name, q(fresh), q(hist)))
    return out


run(scenario)
