"""Defect 6: PUBLIC/PRIVATE statements have no effect on names that the module gets through
INCLUDE. The statements are resolved when the including file is parsed, before the
declarations of the included file are grafted into the module.
(a) `private` + `public :: nx` + `include 'consts.f90'`  -> nx stays private: no definition
(b) `include 'consts2.f90'` + `private :: scratch_len`   -> scratch_len stays public: the
    private entity is the answer outside the module (should be util_mod's scratch_len)

Run as: cd <checkout> && /venv/bin/python /var/tmp/wt-out/h-C05/6.py
exit 1 = defect shows, 0 = it does not, 2 = harness problem
"""
TITLE = 'Defect 6: PUBLIC/PRIVATE statements do not reach names brought in by INCLUDE'

FILES = {
    'consts.f90': '''\
  integer, parameter :: nx = 4
  integer, parameter :: scratch_len = 5
''',
    'consts2.f90': '''\
  integer, parameter :: ny = 4
  integer, parameter :: scratch_len = 5
''',
    'grid.f90': '''\
module grid_mod
  implicit none
  private
  public :: nx, field
  include 'consts.f90'
  real :: field(nx)
end module grid_mod
''',
    'grid2.f90': '''\
module grid2_mod
  implicit none
  include 'consts2.f90'
  private :: scratch_len
end module grid2_mod
''',
    'util.f90': '''\
module util_mod
  implicit none
  integer, parameter :: scratch_len = 100
end module util_mod
''',
    'p.f90': '''\
program p
  use grid_mod
  implicit none
  print *, nx
  print *, size(field)
end program p
''',
    'r.f90': '''\
program r
  use grid2_mod
  use util_mod
  implicit none
  print *, scratch_len
  print *, ny
end program r
''',
}

# (label, file, needle, column offset inside needle, expected (file, 0-based line) or None, is_control)
CHECKS = [('control: included name used inside the including module',
  'grid.f90',
  'field(nx)',
  6,
  ('consts.f90', 0),
  True),
 ('control: `public :: field` declared in the module itself',
  'p.f90',
  'size(field)',
  5,
  ('grid.f90', 5),
  True),
 ('control: included public name via grid2_mod',
  'r.f90',
  'print *, ny',
  9,
  ('consts2.f90', 0),
  True),
 ('(a) `public :: nx` for an included name, use in program p',
  'p.f90',
  'print *, nx',
  9,
  ('consts.f90', 0),
  False),
 ('(b) `private :: scratch_len` for an included name, use in program r',
  'r.f90',
  'print *, scratch_len',
  9,
  ('util.f90', 2),
  False)]

import json
import os
import shutil
import subprocess
import sys
import tempfile
from io import StringIO

sys.path.insert(0, os.getcwd())
from fortls.jsonrpc import (  # noqa: E402
    path_to_uri,
    read_rpc_messages,
    write_rpc_notification,
    write_rpc_request,
)


def locate(text, needle, offset):
    """0-based (line, column) of the first occurrence of `needle`, column + offset"""
    idx = text.index(needle)
    line = text.count("\n", 0, idx)
    col = idx - (text.rfind("\n", 0, idx) + 1)
    return line, col + offset


def main():
    root = tempfile.mkdtemp(dir="/var/tmp", prefix="hC05_")
    try:
        for rel, txt in FILES.items():
            path = os.path.join(root, rel)
            os.makedirs(os.path.dirname(path), exist_ok=True)
            with open(path, "w") as fh:
                fh.write(txt)
        req = write_rpc_request(1, "initialize", {"rootPath": root})
        positions = []
        for i, (label, rel, needle, off, exp, is_control) in enumerate(CHECKS):
            line, col = locate(FILES[rel], needle, off)
            positions.append((line, col))
            req += write_rpc_request(
                i + 2,
                "textDocument/definition",
                {
                    "textDocument": {"uri": path_to_uri(os.path.join(root, rel))},
                    "position": {"line": line, "character": col},
                },
            )
        req += write_rpc_request(len(CHECKS) + 2, "shutdown", {})
        req += write_rpc_notification("exit", {})
        env = dict(os.environ, PYTHONPATH=os.getcwd())
        try:
            proc = subprocess.run(
                [sys.executable, "-m", "fortls", "--disable_autoupdate"],
                input=req.encode(),
                capture_output=True,
                timeout=60,
                cwd=os.getcwd(),
                env=env,
            )
        except subprocess.TimeoutExpired:
            print("HARNESS: fortls child timed out")
            return 2
        msgs = read_rpc_messages(StringIO(proc.stdout.decode()))
        by_id = {m["id"]: m for m in msgs if "id" in m}
        if 1 not in by_id:
            print("HARNESS: no reply to initialize\n", proc.stderr.decode()[-800:])
            return 2
        print(TITLE)
        defect = False
        for i, (label, rel, needle, off, exp, is_control) in enumerate(CHECKS):
            msg = by_id.get(i + 2)
            if msg is None:
                obs = "NO REPLY"
            elif "error" in msg:
                obs = "ERROR " + json.dumps(msg["error"])[:200]
            elif msg["result"] is None:
                obs = None
            else:
                res = msg["result"]
                obs = (
                    os.path.relpath(res["uri"][len("file://"):], root),
                    res["range"]["start"]["line"],
                )
            ok = obs == exp
            kind = "control" if is_control else "check  "
            print(
                f"  [{kind}] {label}\n"
                f"      request : definition at {rel}:{positions[i][0]}:{positions[i][1]}"
                f" (0-based)\n"
                f"      expected: {exp}\n"
                f"      observed: {obs}   {'ok' if ok else 'MISMATCH'}"
            )
            if not ok:
                if is_control:
                    print("      (a control failed: the harness or an unrelated part broke)")
                defect = True
        print("DEFECT PRESENT" if defect else "defect not present")
        return 1 if defect else 0
    finally:
        shutil.rmtree(root, ignore_errors=True)


if __name__ == "__main__":
    sys.exit(main())
