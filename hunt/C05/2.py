"""Defect 2: when one scope has several USE statements for the same module, the renames of
the earlier statements are thrown away.
    use kinds, only: sp => single
    use kinds, only: dp => double
go-to-definition on `sp` finds nothing; only the last statement's rename survives.

Run as: cd <checkout> && /venv/bin/python /var/tmp/wt-out/h-C05/2.py
exit 1 = defect shows, 0 = it does not, 2 = harness problem
"""
TITLE = 'Defect 2: second USE of the same module discards the renames of the first'

FILES = {
    'k.f90': '''\
module kinds
  implicit none
  integer, parameter :: single = 4
  integer, parameter :: double = 8
  integer, parameter :: quad = 16
end module kinds
''',
    'p.f90': '''\
program p
  use kinds, only: sp => single
  use kinds, only: dp => double
  implicit none
  real(sp) :: a
  real(dp) :: b
end program p
''',
    'q.f90': '''\
subroutine q()
  use kinds, only: quad
  use kinds, wp => double
  implicit none
  real(wp) :: c
  real(quad) :: d
end subroutine q
''',
}

# (label, file, needle, column offset inside needle, expected (file, 0-based line) or None, is_control)
CHECKS = [('control: dp (rename of the LAST use statement)', 'p.f90', 'real(dp)', 5, ('k.f90', 3), True),
 ('sp (rename of the FIRST use statement)', 'p.f90', 'real(sp)', 5, ('k.f90', 2), False),
 ('control: quad (`use kinds, only: quad` then `use kinds, wp => double`)',
  'q.f90',
  'real(quad)',
  5,
  ('k.f90', 4),
  True),
 ('wp (`use kinds, only: quad` then `use kinds, wp => double`)',
  'q.f90',
  'real(wp)',
  5,
  ('k.f90', 3),
  False)]

import json
import os
import shutil
import subprocess
import sys
import tempfile
from io import StringIO

sys.path.insert(0, os.getcwd())
from fortls.jsonrpc import (  # noqa: E402
    path_to_uri,
    read_rpc_messages,
    write_rpc_notification,
    write_rpc_request,
)


def locate(text, needle, offset):
    """0-based (line, column) of the first occurrence of `needle`, column + offset"""
    idx = text.index(needle)
    line = text.count("\n", 0, idx)
    col = idx - (text.rfind("\n", 0, idx) + 1)
    return line, col + offset


def main():
    root = tempfile.mkdtemp(dir="/var/tmp", prefix="hC05_")
    try:
        for rel, txt in FILES.items():
            path = os.path.join(root, rel)
            os.makedirs(os.path.dirname(path), exist_ok=True)
            with open(path, "w") as fh:
                fh.write(txt)
        req = write_rpc_request(1, "initialize", {"rootPath": root})
        positions = []
        for i, (label, rel, needle, off, exp, is_control) in enumerate(CHECKS):
            line, col = locate(FILES[rel], needle, off)
            positions.append((line, col))
            req += write_rpc_request(
                i + 2,
                "textDocument/definition",
                {
                    "textDocument": {"uri": path_to_uri(os.path.join(root, rel))},
                    "position": {"line": line, "character": col},
                },
            )
        req += write_rpc_request(len(CHECKS) + 2, "shutdown", {})
        req += write_rpc_notification("exit", {})
        env = dict(os.environ, PYTHONPATH=os.getcwd())
        try:
            proc = subprocess.run(
                [sys.executable, "-m", "fortls", "--disable_autoupdate"],
                input=req.encode(),
                capture_output=True,
                timeout=60,
                cwd=os.getcwd(),
                env=env,
            )
        except subprocess.TimeoutExpired:
            print("HARNESS: fortls child timed out")
            return 2
        msgs = read_rpc_messages(StringIO(proc.stdout.decode()))
        by_id = {m["id"]: m for m in msgs if "id" in m}
        if 1 not in by_id:
            print("HARNESS: no reply to initialize\n", proc.stderr.decode()[-800:])
            return 2
        print(TITLE)
        defect = False
        for i, (label, rel, needle, off, exp, is_control) in enumerate(CHECKS):
            msg = by_id.get(i + 2)
            if msg is None:
                obs = "NO REPLY"
            elif "error" in msg:
                obs = "ERROR " + json.dumps(msg["error"])[:200]
            elif msg["result"] is None:
                obs = None
            else:
                res = msg["result"]
                obs = (
                    os.path.relpath(res["uri"][len("file://"):], root),
                    res["range"]["start"]["line"],
                )
            ok = obs == exp
            kind = "control" if is_control else "check  "
            print(
                f"  [{kind}] {label}\n"
                f"      request : definition at {rel}:{positions[i][0]}:{positions[i][1]}"
                f" (0-based)\n"
                f"      expected: {exp}\n"
                f"      observed: {obs}   {'ok' if ok else 'MISMATCH'}"
            )
            if not ok:
                if is_control:
                    print("      (a control failed: the harness or an unrelated part broke)")
                defect = True
        print("DEFECT PRESENT" if defect else "defect not present")
        return 1 if defect else 0
    finally:
        shutil.rmtree(root, ignore_errors=True)


if __name__ == "__main__":
    sys.exit(main())
