"""Defect 5: in a module whose default accessibility is PRIVATE, procedures declared by
interface bodies in an (unnamed) INTERFACE block are treated as PUBLIC.
c_api is `private; public :: wrapper`; its interface body `low_level` is private, so the
call in the program binds to module other's public `low_level`.

Run as: cd <checkout> && /venv/bin/python /var/tmp/wt-out/h-C05/5.py
exit 1 = defect shows, 0 = it does not, 2 = harness problem
"""
TITLE = 'Defect 5: interface bodies of a default-PRIVATE module are offered outside the module'

FILES = {
    'c_api.f90': '''\
module c_api
  implicit none
  private
  public :: wrapper
  integer :: hidden_var
  interface
    subroutine low_level(n) bind(c, name="low_level")
      integer, intent(in) :: n
    end subroutine low_level
  end interface
contains
  subroutine wrapper()
    call low_level(1)
  end subroutine wrapper
end module c_api
''',
    'other.f90': '''\
module other
  implicit none
  integer :: hidden_var
contains
  subroutine low_level(n)
    integer, intent(in) :: n
  end subroutine low_level
end module other
''',
    'p.f90': '''\
program p
  use c_api
  use other
  implicit none
  hidden_var = 1
  call low_level(2)
  call wrapper()
end program p
''',
}

# (label, file, needle, column offset inside needle, expected (file, 0-based line) or None, is_control)
CHECKS = [('control: inside c_api the call reaches the interface body',
  'c_api.f90',
  'call low_level(1)',
  6,
  ('c_api.f90', 6),
  True),
 ('control: private variable of c_api is skipped',
  'p.f90',
  'hidden_var = 1',
  2,
  ('other.f90', 2),
  True),
 ('control: public wrapper', 'p.f90', 'call wrapper', 6, ('c_api.f90', 11), True),
 ('call low_level(2) in the program', 'p.f90', 'call low_level(2)', 6, ('other.f90', 4), False)]

import json
import os
import shutil
import subprocess
import sys
import tempfile
from io import StringIO

sys.path.insert(0, os.getcwd())
from fortls.jsonrpc import (  # noqa: E402
    path_to_uri,
    read_rpc_messages,
    write_rpc_notification,
    write_rpc_request,
)


def locate(text, needle, offset):
    """0-based (line, column) of the first occurrence of `needle`, column + offset"""
    idx = text.index(needle)
    line = text.count("\n", 0, idx)
    col = idx - (text.rfind("\n", 0, idx) + 1)
    return line, col + offset


def main():
    root = tempfile.mkdtemp(dir="/var/tmp", prefix="hC05_")
    try:
        for rel, txt in FILES.items():
            path = os.path.join(root, rel)
            os.makedirs(os.path.dirname(path), exist_ok=True)
            with open(path, "w") as fh:
                fh.write(txt)
        req = write_rpc_request(1, "initialize", {"rootPath": root})
        positions = []
        for i, (label, rel, needle, off, exp, is_control) in enumerate(CHECKS):
            line, col = locate(FILES[rel], needle, off)
            positions.append((line, col))
            req += write_rpc_request(
                i + 2,
                "textDocument/definition",
                {
                    "textDocument": {"uri": path_to_uri(os.path.join(root, rel))},
                    "position": {"line": line, "character": col},
                },
            )
        req += write_rpc_request(len(CHECKS) + 2, "shutdown", {})
        req += write_rpc_notification("exit", {})
        env = dict(os.environ, PYTHONPATH=os.getcwd())
        try:
            proc = subprocess.run(
                [sys.executable, "-m", "fortls", "--disable_autoupdate"],
                input=req.encode(),
                capture_output=True,
                timeout=60,
                cwd=os.getcwd(),
                env=env,
            )
        except subprocess.TimeoutExpired:
            print("HARNESS: fortls child timed out")
            return 2
        msgs = read_rpc_messages(StringIO(proc.stdout.decode()))
        by_id = {m["id"]: m for m in msgs if "id" in m}
        if 1 not in by_id:
            print("HARNESS: no reply to initialize\n", proc.stderr.decode()[-800:])
            return 2
        print(TITLE)
        defect = False
        for i, (label, rel, needle, off, exp, is_control) in enumerate(CHECKS):
            msg = by_id.get(i + 2)
            if msg is None:
                obs = "NO REPLY"
            elif "error" in msg:
                obs = "ERROR " + json.dumps(msg["error"])[:200]
            elif msg["result"] is None:
                obs = None
            else:
                res = msg["result"]
                obs = (
                    os.path.relpath(res["uri"][len("file://"):], root),
                    res["range"]["start"]["line"],
                )
            ok = obs == exp
            kind = "control" if is_control else "check  "
            print(
                f"  [{kind}] {label}\n"
                f"      request : definition at {rel}:{positions[i][0]}:{positions[i][1]}"
                f" (0-based)\n"
                f"      expected: {exp}\n"
                f"      observed: {obs}   {'ok' if ok else 'MISMATCH'}"
            )
            if not ok:
                if is_control:
                    print("      (a control failed: the harness or an unrelated part broke)")
                defect = True
        print("DEFECT PRESENT" if defect else "defect not present")
        return 1 if defect else 0
    finally:
        shutil.rmtree(root, ignore_errors=True)


if __name__ == "__main__":
    sys.exit(main())
