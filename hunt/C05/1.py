"""Defect 1: a `local => remote` rename in a USE statement WITHOUT ONLY is lost when the
name travels through a module that re-exports what it uses.
(a) a_mod: `use b_mod, y => x`; program: `use a_mod, only: y`      -> y is b_mod's x
(b) a2_mod: `use b_mod` ; program: `use a2_mod, z => x`            -> z is b_mod's x

Run as: cd <checkout> && /venv/bin/python /var/tmp/wt-out/h-C05/1.py
exit 1 = defect shows, 0 = it does not, 2 = harness problem
"""
TITLE = 'Defect 1: rename without ONLY is dropped across a re-exporting module'

FILES = {
    'b.f90': '''\
module b_mod
  implicit none
  integer :: x = 1
  integer :: w = 2
end module b_mod
''',
    'a.f90': '''\
module a_mod
  use b_mod, y => x
  implicit none
end module a_mod
''',
    'a2.f90': '''\
module a2_mod
  use b_mod
  implicit none
end module a2_mod
''',
    'p1.f90': '''\
program p1
  use a_mod, only: y, w
  implicit none
  print *, y
  print *, w
end program p1
''',
    'p2.f90': '''\
program p2
  use a2_mod, z => x
  implicit none
  print *, z
end program p2
''',
    'p3.f90': '''\
program p3
  use b_mod, y => x
  implicit none
  print *, y
end program p3
''',
}

# (label, file, needle, column offset inside needle, expected (file, 0-based line) or None, is_control)
CHECKS = [('control: direct `use b_mod, y => x`, use of y', 'p3.f90', 'print *, y', 9, ('b.f90', 2), True),
 ('control: `use a_mod, only: y, w`, use of w (not renamed)',
  'p1.f90',
  'print *, w',
  9,
  ('b.f90', 3),
  True),
 ('(a) `use a_mod, only: y` with a_mod doing `use b_mod, y => x`, use of y',
  'p1.f90',
  'print *, y',
  9,
  ('b.f90', 2),
  False),
 ('(b) `use a2_mod, z => x` with a2_mod doing `use b_mod`, use of z',
  'p2.f90',
  'print *, z',
  9,
  ('b.f90', 2),
  False)]

import json
import os
import shutil
import subprocess
import sys
import tempfile
from io import StringIO

sys.path.insert(0, os.getcwd())
from fortls.jsonrpc import (  # noqa: E402
    path_to_uri,
    read_rpc_messages,
    write_rpc_notification,
    write_rpc_request,
)


def locate(text, needle, offset):
    """0-based (line, column) of the first occurrence of `needle`, column + offset"""
    idx = text.index(needle)
    line = text.count("\n", 0, idx)
    col = idx - (text.rfind("\n", 0, idx) + 1)
    return line, col + offset


def main():
    root = tempfile.mkdtemp(dir="/var/tmp", prefix="hC05_")
    try:
        for rel, txt in FILES.items():
            path = os.path.join(root, rel)
            os.makedirs(os.path.dirname(path), exist_ok=True)
            with open(path, "w") as fh:
                fh.write(txt)
        req = write_rpc_request(1, "initialize", {"rootPath": root})
        positions = []
        for i, (label, rel, needle, off, exp, is_control) in enumerate(CHECKS):
            line, col = locate(FILES[rel], needle, off)
            positions.append((line, col))
            req += write_rpc_request(
                i + 2,
                "textDocument/definition",
                {
                    "textDocument": {"uri": path_to_uri(os.path.join(root, rel))},
                    "position": {"line": line, "character": col},
                },
            )
        req += write_rpc_request(len(CHECKS) + 2, "shutdown", {})
        req += write_rpc_notification("exit", {})
        env = dict(os.environ, PYTHONPATH=os.getcwd())
        try:
            proc = subprocess.run(
                [sys.executable, "-m", "fortls", "--disable_autoupdate"],
                input=req.encode(),
                capture_output=True,
                timeout=60,
                cwd=os.getcwd(),
                env=env,
            )
        except subprocess.TimeoutExpired:
            print("HARNESS: fortls child timed out")
            return 2
        msgs = read_rpc_messages(StringIO(proc.stdout.decode()))
        by_id = {m["id"]: m for m in msgs if "id" in m}
        if 1 not in by_id:
            print("HARNESS: no reply to initialize\n", proc.stderr.decode()[-800:])
            return 2
        print(TITLE)
        defect = False
        for i, (label, rel, needle, off, exp, is_control) in enumerate(CHECKS):
            msg = by_id.get(i + 2)
            if msg is None:
                obs = "NO REPLY"
            elif "error" in msg:
                obs = "ERROR " + json.dumps(msg["error"])[:200]
            elif msg["result"] is None:
                obs = None
            else:
                res = msg["result"]
                obs = (
                    os.path.relpath(res["uri"][len("file://"):], root),
                    res["range"]["start"]["line"],
                )
            ok = obs == exp
            kind = "control" if is_control else "check  "
            print(
                f"  [{kind}] {label}\n"
                f"      request : definition at {rel}:{positions[i][0]}:{positions[i][1]}"
                f" (0-based)\n"
                f"      expected: {exp}\n"
                f"      observed: {obs}   {'ok' if ok else 'MISMATCH'}"
            )
            if not ok:
                if is_control:
                    print("      (a control failed: the harness or an unrelated part broke)")
                defect = True
        print("DEFECT PRESENT" if defect else "defect not present")
        return 1 if defect else 0
    finally:
        shutil.rmtree(root, ignore_errors=True)


if __name__ == "__main__":
    sys.exit(main())
