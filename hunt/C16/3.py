"""fortls C16 defect 3 - run as: cd <checkout> && /venv/bin/python 3.py"""
import json, os, shutil, subprocess, sys, tempfile, threading

LAUNCH = "import sys,os; sys.path.insert(0, os.getcwd()); from fortls import main; main()"
TIMEOUT = 60


def frame(obj, header="Content-Length: %d\r\n\r\n"):
    body = json.dumps(obj, ensure_ascii=False).encode("utf-8")
    return (header % len(body)).encode("ascii") + body


def parse_stream(data):
    """A strict, conforming LSP base-protocol reader."""
    msgs, i = [], 0
    while i < len(data):
        j = data.index(b"\r\n\r\n", i)
        n = None
        for h in data[i:j].split(b"\r\n"):
            k, _, v = h.partition(b":")
            if k.strip().lower() == b"content-length":
                n = int(v.strip())
        body = data[j + 4 : j + 4 + n]
        assert len(body) == n, "short body"
        msgs.append(json.loads(body.decode("utf-8")))
        i = j + 4 + n
    return msgs


def run_server(stream):
    """Run fortls from the checkout in the cwd as a child; feed `stream` on stdin."""
    p = subprocess.Popen(
        [sys.executable, "-c", LAUNCH, "--disable_autoupdate"],
        stdin=subprocess.PIPE, stdout=subprocess.PIPE, stderr=subprocess.PIPE,
        cwd=os.getcwd(),
    )
    try:
        out, err = p.communicate(stream, timeout=TIMEOUT)
    except subprocess.TimeoutExpired:
        p.kill()
        out, err = p.communicate()
        print("NOTE: server timed out and was killed")
    return parse_stream(out), err.decode("utf-8", "replace")


def by_id(msgs, rid):
    for m in msgs:
        if m.get("id") == rid and "method" not in m:
            return m
    return None


def initialize(root):
    return {"jsonrpc": "2.0", "id": 1, "method": "initialize",
            "params": {"rootPath": root, "rootUri": "file://" + root, "capabilities": {}}}


INITIALIZED = {"jsonrpc": "2.0", "method": "initialized", "params": {}}
SHUTDOWN = {"jsonrpc": "2.0", "id": 99, "method": "shutdown", "params": None}
EXIT = {"jsonrpc": "2.0", "method": "exit", "params": None}


def main():
    d = tempfile.mkdtemp(dir="/var/tmp", prefix="h-C16-3-")
    try:
        with open(os.path.join(d, "a.f90"), "w") as f:
            f.write("module m\nend module m\n")
        msgs = [initialize(d), INITIALIZED, SHUTDOWN, EXIT]
        variants = [
            ("Content-Length: N   (control)", "Content-Length: %d\r\n\r\n"),
            ("content-length: N", "content-length: %d\r\n\r\n"),
            ("Content-length: N", "Content-length: %d\r\n\r\n"),
            ("CONTENT-LENGTH: N + Content-Type",
             "CONTENT-LENGTH: %d\r\nContent-Type: application/vscode-jsonrpc; charset=utf-8\r\n\r\n"),
            ("Content-Length:N  (no optional space)", "Content-Length:%d\r\n\r\n"),
        ]
        bad = False
        print("LSP base protocol: 'The structure of header fields conforms to the HTTP")
        print("semantic' -> field names are case-insensitive, whitespace after ':' is optional.")
        print("expected for every variant: responses to id 1 (initialize) and id 99 (shutdown)")
        for name, hdr in variants:
            res, err = run_server(b"".join(frame(m, hdr) for m in msgs))
            ids = [m.get("id") for m in res if "id" in m]
            notes = [m["params"].get("message") for m in res if m.get("method") == "window/showMessage"]
            ok = ids == [1, 99]
            print(f"  {name:42s} -> response ids {ids} {notes if notes else ''}")
            if not ok and "control" not in name:
                bad = True
        print("DEFECT SHOWS (server drops the connection on a well-formed header)" if bad else "no defect")
        return 1 if bad else 0
    finally:
        shutil.rmtree(d, ignore_errors=True)


if __name__ == "__main__":
    sys.exit(main())
