"""fortls C16 defect 1 - run as: cd <checkout> && /venv/bin/python 1.py"""
import json, os, shutil, subprocess, sys, tempfile, threading

LAUNCH = "import sys,os; sys.path.insert(0, os.getcwd()); from fortls import main; main()"
TIMEOUT = 60


def frame(obj, header="Content-Length: %d\r\n\r\n"):
    body = json.dumps(obj, ensure_ascii=False).encode("utf-8")
    return (header % len(body)).encode("ascii") + body


def parse_stream(data):
    """A strict, conforming LSP base-protocol reader."""
    msgs, i = [], 0
    while i < len(data):
        j = data.index(b"\r\n\r\n", i)
        n = None
        for h in data[i:j].split(b"\r\n"):
            k, _, v = h.partition(b":")
            if k.strip().lower() == b"content-length":
                n = int(v.strip())
        body = data[j + 4 : j + 4 + n]
        assert len(body) == n, "short body"
        msgs.append(json.loads(body.decode("utf-8")))
        i = j + 4 + n
    return msgs


def run_server(stream):
    """Run fortls from the checkout in the cwd as a child; feed `stream` on stdin."""
    p = subprocess.Popen(
        [sys.executable, "-c", LAUNCH, "--disable_autoupdate"],
        stdin=subprocess.PIPE, stdout=subprocess.PIPE, stderr=subprocess.PIPE,
        cwd=os.getcwd(),
    )
    try:
        out, err = p.communicate(stream, timeout=TIMEOUT)
    except subprocess.TimeoutExpired:
        p.kill()
        out, err = p.communicate()
        print("NOTE: server timed out and was killed")
    return parse_stream(out), err.decode("utf-8", "replace")


def by_id(msgs, rid):
    for m in msgs:
        if m.get("id") == rid and "method" not in m:
            return m
    return None


def initialize(root):
    return {"jsonrpc": "2.0", "id": 1, "method": "initialize",
            "params": {"rootPath": root, "rootUri": "file://" + root, "capabilities": {}}}


INITIALIZED = {"jsonrpc": "2.0", "method": "initialized", "params": {}}
SHUTDOWN = {"jsonrpc": "2.0", "id": 99, "method": "shutdown", "params": None}
EXIT = {"jsonrpc": "2.0", "method": "exit", "params": None}


def main():
    d = tempfile.mkdtemp(dir="/var/tmp", prefix="h-C16-1-")
    try:
        # A file whose name is Latin-1 encoded ("météo.f90" saved by an old tool /
        # unpacked from an old archive): perfectly legal on Linux, Python shows the
        # bytes 0xE9 as the surrogate-escaped characters U+DCE9.
        fb = os.fsencode(d) + b"/m\xe9t\xe9o.f90"
        with open(fb, "w") as f:
            f.write("module meteo\n  integer :: temp = 1\nend module meteo\n")
        main_f = os.path.join(d, "main.f90")
        with open(main_f, "w") as f:
            f.write("program p\n use meteo, only: temp\n print *, temp\nend program p\n")
        expected_uri = "file://" + d + "/m%E9t%E9o.f90"
        msgs = [
            initialize(d), INITIALIZED,
            {"jsonrpc": "2.0", "id": 2, "method": "workspace/symbol", "params": {"query": "temp"}},
            {"jsonrpc": "2.0", "id": 3, "method": "textDocument/definition",
             "params": {"textDocument": {"uri": "file://" + main_f},
                        "position": {"line": 2, "character": 11}}},
            SHUTDOWN, EXIT,
        ]
        res, err = run_server(b"".join(frame(m) for m in msgs))
        bad = False
        for rid, what in ((2, "workspace/symbol 'temp'"), (3, "definition of 'temp' in main.f90")):
            m = by_id(res, rid)
            print(f"--- {what}")
            print(f"expected: a location with uri {expected_uri}")
            if m is None:
                print("observed: no response at all"); bad = True
            elif "error" in m:
                print(f"observed: error {m['error']['code']}: {m['error']['message']}"); bad = True
            else:
                text = json.dumps(m["result"])
                print(f"observed: {text[:300]}")
                if expected_uri not in text:
                    bad = True
        print("DEFECT SHOWS" if bad else "no defect")
        return 1 if bad else 0
    finally:
        shutil.rmtree(os.fsencode(d), ignore_errors=True)


if __name__ == "__main__":
    sys.exit(main())
