"""fortls C16 defect 5 - run as: cd <checkout> && /venv/bin/python 5.py"""
import json, os, shutil, subprocess, sys, tempfile, threading

LAUNCH = "import sys,os; sys.path.insert(0, os.getcwd()); from fortls import main; main()"
TIMEOUT = 60


def frame(obj, header="Content-Length: %d\r\n\r\n"):
    body = json.dumps(obj, ensure_ascii=False).encode("utf-8")
    return (header % len(body)).encode("ascii") + body


def parse_stream(data):
    """A strict, conforming LSP base-protocol reader."""
    msgs, i = [], 0
    while i < len(data):
        j = data.index(b"\r\n\r\n", i)
        n = None
        for h in data[i:j].split(b"\r\n"):
            k, _, v = h.partition(b":")
            if k.strip().lower() == b"content-length":
                n = int(v.strip())
        body = data[j + 4 : j + 4 + n]
        assert len(body) == n, "short body"
        msgs.append(json.loads(body.decode("utf-8")))
        i = j + 4 + n
    return msgs


def run_server(stream):
    """Run fortls from the checkout in the cwd as a child; feed `stream` on stdin."""
    p = subprocess.Popen(
        [sys.executable, "-c", LAUNCH, "--disable_autoupdate"],
        stdin=subprocess.PIPE, stdout=subprocess.PIPE, stderr=subprocess.PIPE,
        cwd=os.getcwd(),
    )
    try:
        out, err = p.communicate(stream, timeout=TIMEOUT)
    except subprocess.TimeoutExpired:
        p.kill()
        out, err = p.communicate()
        print("NOTE: server timed out and was killed")
    return parse_stream(out), err.decode("utf-8", "replace")


def by_id(msgs, rid):
    for m in msgs:
        if m.get("id") == rid and "method" not in m:
            return m
    return None


def initialize(root):
    return {"jsonrpc": "2.0", "id": 1, "method": "initialize",
            "params": {"rootPath": root, "rootUri": "file://" + root, "capabilities": {}}}


INITIALIZED = {"jsonrpc": "2.0", "method": "initialized", "params": {}}
SHUTDOWN = {"jsonrpc": "2.0", "id": 99, "method": "shutdown", "params": None}
EXIT = {"jsonrpc": "2.0", "method": "exit", "params": None}


def main():
    d = tempfile.mkdtemp(dir="/var/tmp", prefix="h-C16-5-")
    try:
        root, ext = os.path.join(d, "proj"), os.path.join(d, "ext")
        os.mkdir(root); os.mkdir(ext)
        with open(os.path.join(ext, "util.f90"), "w") as f:
            f.write("module util\n  integer :: counter = 0\nend module util\n")
        # a shared source linked into the project, as is common with vendored code
        os.symlink("../ext/util.f90", os.path.join(root, "util.f90"))
        main_f = os.path.join(root, "main.f90")
        with open(main_f, "w") as f:
            f.write("program p\n use util, only: counter\n print *, counter\nend program p\n")
        msgs = [
            initialize(root), INITIALIZED,
            {"jsonrpc": "2.0", "id": 2, "method": "workspace/symbol", "params": {"query": "counter"}},
        ]
        res, err = run_server(b"".join(frame(m) for m in msgs + [SHUTDOWN, EXIT]))
        sym = by_id(res, 2)["result"]
        server_uri = sym[0]["location"]["uri"]
        print("workspace/symbol 'counter' -> server's own URI:", server_uri)

        # second session: hand the server's own URI straight back to it
        msgs += [
            {"jsonrpc": "2.0", "id": 3, "method": "textDocument/documentSymbol",
             "params": {"textDocument": {"uri": server_uri}}},
            {"jsonrpc": "2.0", "id": 4, "method": "textDocument/hover",
             "params": {"textDocument": {"uri": server_uri}, "position": {"line": 1, "character": 15}}},
            {"jsonrpc": "2.0", "method": "textDocument/didOpen",
             "params": {"textDocument": {"uri": server_uri, "languageId": "fortran", "version": 1,
                        "text": "module util\n  integer :: counter = 0\nend module util\n"}}},
            {"jsonrpc": "2.0", "id": 5, "method": "textDocument/references",
             "params": {"textDocument": {"uri": "file://" + main_f},
                        "position": {"line": 2, "character": 11},
                        "context": {"includeDeclaration": True}}},
            SHUTDOWN, EXIT,
        ]
        res, err = run_server(b"".join(frame(m) for m in msgs))
        ds = [s["name"] for s in (by_id(res, 3).get("result") or [])]
        hv = by_id(res, 4).get("result")
        refs = by_id(res, 5).get("result") or []
        decl = sorted({r["uri"] for r in refs if r["uri"].endswith("util.f90")})
        print("--- documentSymbol on the URI the server itself handed out")
        print("expected: a list starting with 'util'")
        print("observed:", ds)
        print("--- hover on 'counter' at that URI")
        print("expected: INTEGER :: counter")
        print("observed:", hv)
        print("--- after the editor opens that URI: references of 'counter' (declaration URIs)")
        print("expected: one declaration, at", server_uri)
        print("observed:", decl)
        bad = ds[:1] != ["util"] or hv is None or decl != [server_uri]
        print("DEFECT SHOWS (path_from_uri(path_to_uri(p)) != p for a workspace file)" if bad else "no defect")
        return 1 if bad else 0
    finally:
        shutil.rmtree(d, ignore_errors=True)


if __name__ == "__main__":
    sys.exit(main())
