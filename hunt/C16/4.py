"""fortls C16 defect 4 - run as: cd <checkout> && /venv/bin/python 4.py"""
import json, os, shutil, subprocess, sys, tempfile, threading

LAUNCH = "import sys,os; sys.path.insert(0, os.getcwd()); from fortls import main; main()"
TIMEOUT = 60


def frame(obj, header="Content-Length: %d\r\n\r\n"):
    body = json.dumps(obj, ensure_ascii=False).encode("utf-8")
    return (header % len(body)).encode("ascii") + body


def parse_stream(data):
    """A strict, conforming LSP base-protocol reader."""
    msgs, i = [], 0
    while i < len(data):
        j = data.index(b"\r\n\r\n", i)
        n = None
        for h in data[i:j].split(b"\r\n"):
            k, _, v = h.partition(b":")
            if k.strip().lower() == b"content-length":
                n = int(v.strip())
        body = data[j + 4 : j + 4 + n]
        assert len(body) == n, "short body"
        msgs.append(json.loads(body.decode("utf-8")))
        i = j + 4 + n
    return msgs


def run_server(stream):
    """Run fortls from the checkout in the cwd as a child; feed `stream` on stdin."""
    p = subprocess.Popen(
        [sys.executable, "-c", LAUNCH, "--disable_autoupdate"],
        stdin=subprocess.PIPE, stdout=subprocess.PIPE, stderr=subprocess.PIPE,
        cwd=os.getcwd(),
    )
    try:
        out, err = p.communicate(stream, timeout=TIMEOUT)
    except subprocess.TimeoutExpired:
        p.kill()
        out, err = p.communicate()
        print("NOTE: server timed out and was killed")
    return parse_stream(out), err.decode("utf-8", "replace")


def by_id(msgs, rid):
    for m in msgs:
        if m.get("id") == rid and "method" not in m:
            return m
    return None


def initialize(root):
    return {"jsonrpc": "2.0", "id": 1, "method": "initialize",
            "params": {"rootPath": root, "rootUri": "file://" + root, "capabilities": {}}}


INITIALIZED = {"jsonrpc": "2.0", "method": "initialized", "params": {}}
SHUTDOWN = {"jsonrpc": "2.0", "id": 99, "method": "shutdown", "params": None}
EXIT = {"jsonrpc": "2.0", "method": "exit", "params": None}


def main():
    d = tempfile.mkdtemp(dir="/var/tmp", prefix="h-C16-4-")
    try:
        path = os.path.join(d, "a.f90")
        with open(path, "w") as f:
            f.write("module m\n  integer :: v\nend module m\n")
        forms = [
            ("file://<abs>  (control)", "file://" + path),
            ("file:<abs>    (RFC 8089 minimal form, java.io.File.toURI)", "file:" + path),
            ("file://localhost<abs> (RFC 8089 explicit local host)", "file://localhost" + path),
        ]
        msgs = [initialize(d), INITIALIZED]
        for i, (_, u) in enumerate(forms):
            msgs.append({"jsonrpc": "2.0", "id": 10 + i, "method": "textDocument/documentSymbol",
                         "params": {"textDocument": {"uri": u}}})
        msgs += [SHUTDOWN, EXIT]
        res, err = run_server(b"".join(frame(m) for m in msgs))

        code = ("import sys,os; sys.path.insert(0, os.getcwd());"
                "from fortls.jsonrpc import path_from_uri;"
                "[print(path_from_uri(u)) for u in sys.argv[1:]]")
        r = subprocess.run([sys.executable, "-c", code] + [u for _, u in forms],
                           capture_output=True, text=True, timeout=TIMEOUT, cwd=os.getcwd())
        paths = r.stdout.splitlines()
        bad = False
        want = [s["name"] for s in (by_id(res, 10).get("result") or [])]
        print("expected for every form: path", path, "and documentSymbol", want, "(as for the control)")
        for i, (name, u) in enumerate(forms):
            m = by_id(res, 10 + i)
            names = [s["name"] for s in (m.get("result") or [])]
            print(f"  {name}\n      path_from_uri -> {paths[i] if i < len(paths) else '?'}\n      documentSymbol -> {names}")
            if "control" not in name and (names != want or paths[i] != path):
                bad = True
        print("DEFECT SHOWS" if bad else "no defect")
        return 1 if bad else 0
    finally:
        shutil.rmtree(d, ignore_errors=True)


if __name__ == "__main__":
    sys.exit(main())
