"""fortls C16 defect 2 - run as: cd <checkout> && /venv/bin/python 2.py"""
import json, os, shutil, subprocess, sys, tempfile, threading

LAUNCH = "import sys,os; sys.path.insert(0, os.getcwd()); from fortls import main; main()"
TIMEOUT = 60


def frame(obj, header="Content-Length: %d\r\n\r\n"):
    body = json.dumps(obj, ensure_ascii=False).encode("utf-8")
    return (header % len(body)).encode("ascii") + body


def parse_stream(data):
    """A strict, conforming LSP base-protocol reader."""
    msgs, i = [], 0
    while i < len(data):
        j = data.index(b"\r\n\r\n", i)
        n = None
        for h in data[i:j].split(b"\r\n"):
            k, _, v = h.partition(b":")
            if k.strip().lower() == b"content-length":
                n = int(v.strip())
        body = data[j + 4 : j + 4 + n]
        assert len(body) == n, "short body"
        msgs.append(json.loads(body.decode("utf-8")))
        i = j + 4 + n
    return msgs


def run_server(stream):
    """Run fortls from the checkout in the cwd as a child; feed `stream` on stdin."""
    p = subprocess.Popen(
        [sys.executable, "-c", LAUNCH, "--disable_autoupdate"],
        stdin=subprocess.PIPE, stdout=subprocess.PIPE, stderr=subprocess.PIPE,
        cwd=os.getcwd(),
    )
    try:
        out, err = p.communicate(stream, timeout=TIMEOUT)
    except subprocess.TimeoutExpired:
        p.kill()
        out, err = p.communicate()
        print("NOTE: server timed out and was killed")
    return parse_stream(out), err.decode("utf-8", "replace")


def by_id(msgs, rid):
    for m in msgs:
        if m.get("id") == rid and "method" not in m:
            return m
    return None


def initialize(root):
    return {"jsonrpc": "2.0", "id": 1, "method": "initialize",
            "params": {"rootPath": root, "rootUri": "file://" + root, "capabilities": {}}}


INITIALIZED = {"jsonrpc": "2.0", "method": "initialized", "params": {}}
SHUTDOWN = {"jsonrpc": "2.0", "id": 99, "method": "shutdown", "params": None}
EXIT = {"jsonrpc": "2.0", "method": "exit", "params": None}


def main():
    d = tempfile.mkdtemp(dir="/var/tmp", prefix="h-C16-2-")
    try:
        src = "module meteo\n  integer :: temp = 1\nend module meteo\n"
        fb = os.fsencode(d) + b"/m\xe9t\xe9o.f90"       # Latin-1 encoded file name
        with open(fb, "w") as f:
            f.write(src)
        with open(os.path.join(d, "ascii.f90"), "w") as f:   # control
            f.write(src.replace("meteo", "ctrl"))
        # RFC 3986: every byte of the path may be percent-encoded; this is the only
        # way a client can name this file.
        uri = "file://" + d + "/m%E9t%E9o.f90"
        ctrl_uri = "file://" + d + "/ascii.f90"

        # function level, in a child running the checkout's code
        code = ("import sys,os; sys.path.insert(0, os.getcwd());"
                "from fortls.jsonrpc import path_from_uri;"
                "p = path_from_uri(sys.argv[1]);"
                "print(ascii(p)); print(os.path.exists(p))")
        r = subprocess.run([sys.executable, "-c", code, uri], capture_output=True,
                           text=True, timeout=TIMEOUT, cwd=os.getcwd())
        print("--- path_from_uri(%r)" % uri)
        print("expected: %s (an existing file)" % ascii(os.fsdecode(fb)))
        print("observed: %s exists=%s" % tuple(r.stdout.split()[:2]) if r.stdout else r.stderr)

        msgs = [
            initialize(d), INITIALIZED,
            {"jsonrpc": "2.0", "id": 2, "method": "textDocument/documentSymbol",
             "params": {"textDocument": {"uri": ctrl_uri}}},
            {"jsonrpc": "2.0", "id": 3, "method": "textDocument/documentSymbol",
             "params": {"textDocument": {"uri": uri}}},
            SHUTDOWN, EXIT,
        ]
        res, err = run_server(b"".join(frame(m) for m in msgs))
        ctrl = by_id(res, 2).get("result")
        got = by_id(res, 3)
        names = lambda r: [s["name"] for s in (r or [])]
        print("--- documentSymbol on a workspace file (not opened by the editor)")
        print("control  ascii.f90       :", names(ctrl))
        print("expected m%E9t%E9o.f90    : ['meteo']")
        print("observed m%E9t%E9o.f90    :", names(got.get("result")) if "result" in got else got)
        bad = names(got.get("result")) != ["meteo"] and names(ctrl) == ["ctrl"]
        print("DEFECT SHOWS" if bad else "no defect")
        return 1 if bad else 0
    finally:
        shutil.rmtree(os.fsencode(d), ignore_errors=True)


if __name__ == "__main__":
    sys.exit(main())
