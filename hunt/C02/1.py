import json
import os
import shutil
import subprocess
import sys
import tempfile

# ---------------------------------------------------------------------------
# Code run in the CHILD process: an in-process fortls LangServer of the checkout
# in the current working directory, driven through LangServer.handle() with
# ordinary LSP request dictionaries.
# ---------------------------------------------------------------------------
CHILD_PRELUDE = r'''
import json, os, sys
sys.path.insert(0, os.getcwd())
from fortls.interface import cli
from fortls.langserver import LangServer
from fortls.jsonrpc import path_to_uri

class Conn:
    def __init__(self):
        self.notes = []; self.resp = None
    def send_notification(self, method, params):
        self.notes.append((method, params))
    def write_response(self, rid, result):
        self.resp = result
    def write_error(self, rid, **kw):
        self.resp = {"ERROR": kw.get("message")}

class Client:
    def __init__(self, root, files, extra=("--incremental_sync",)):
        self.d = os.path.realpath(root)
        for name, text in files.items():
            with open(os.path.join(self.d, name), "w", newline="", encoding="utf-8") as f:
                f.write(text)
        args = vars(cli("fortls").parse_args(["--disable_autoupdate", *extra]))
        self.c = Conn(); self.s = LangServer(self.c, args); self.n = 0
        self.caps = self.req("initialize", {"rootPath": self.d, "capabilities": {}})["capabilities"]
        self.note("initialized", {})
    def p(self, name): return os.path.join(self.d, name)
    def uri(self, name): return path_to_uri(self.p(name))
    def note(self, method, params):
        self.s.handle({"jsonrpc": "2.0", "method": method, "params": params})
    def req(self, method, params):
        self.n += 1; self.c.resp = None
        self.s.handle({"jsonrpc": "2.0", "id": self.n, "method": method, "params": params})
        return self.c.resp
    def open(self, name, text):
        self.note("textDocument/didOpen", {"textDocument": {
            "uri": self.uri(name), "languageId": "fortran", "version": 1, "text": text}})
    def change(self, name, *changes):
        self.note("textDocument/didChange", {"textDocument": {
            "uri": self.uri(name), "version": 2}, "contentChanges": list(changes)})
    def save(self, name):
        self.note("textDocument/didSave", {"textDocument": {"uri": self.uri(name)}})
    def held(self, name):
        f = self.s.workspace.get(self.p(name))
        return None if f is None else list(f.contents_split)
    def at(self, method, name, line, char, **kw):
        return self.req(method, {"textDocument": {"uri": self.uri(name)},
                                 "position": {"line": line, "character": char}, **kw})

def R(sl, sc, el, ec, text):
    return {"range": {"start": {"line": sl, "character": sc},
                      "end": {"line": el, "character": ec}}, "text": text}
'''


def run_child(scenario: str, timeout: int = 60):
    """Run CHILD_PRELUDE + scenario in a child; scenario must print one line
    'RESULT ' + json.  Returns the decoded json."""
    root = tempfile.mkdtemp(dir="/var/tmp", prefix="hC02_")
    try:
        proc = subprocess.run(
            [sys.executable, "-c", CHILD_PRELUDE + scenario, root],
            cwd=os.getcwd(), capture_output=True, text=True, timeout=timeout,
        )
        for line in proc.stdout.splitlines():
            if line.startswith("RESULT "):
                return json.loads(line[len("RESULT "):])
        print("child produced no result\nSTDOUT:\n", proc.stdout, "\nSTDERR:\n", proc.stderr)
        sys.exit(2)
    except subprocess.TimeoutExpired:
        print("child timed out")
        sys.exit(2)
    finally:
        shutil.rmtree(root, ignore_errors=True)


def report(checks):
    """checks: list of (label, expected, observed). Exit 1 if any differ."""
    bad = False
    for label, exp, obs in checks:
        ok = exp == obs
        bad = bad or not ok
        print(f"[{'ok ' if ok else 'BAD'}] {label}\n      expected: {exp!r}\n      observed: {obs!r}")
    print("DEFECT SHOWS" if bad else "defect does not show")
    sys.exit(1 if bad else 0)

"""Defect 1: LSP `character` offsets are UTF-16 code units (no positionEncoding is
negotiated), fortls uses them as Python code-point indices.  A ranged edit to the
right of a non-BMP character (emoji in a string / comment) lands one column late."""
SCENARIO = r'''
SRC = ("module msgs\n"
       "  implicit none\n"
       "  character(len=*), parameter :: ok = \"\U0001F680 ok\", bad = \"failed\"\n"
       "end module msgs\n")
def u16(s): return len(s.encode("utf-16-le")) // 2
c = Client(sys.argv[1], {"msgs.f90": SRC})
c.open("msgs.f90", SRC)
line = SRC.split("\n")[2]
i = line.index("bad")
col = u16(line[:i])                    # what an LSP client sends (UTF-16 units)
# the user renames  bad -> err  (replace 3 characters)
c.change("msgs.f90", R(2, col, 2, col + 3, "err"))
client_text = SRC.replace("bad", "err").split("\n")
held = c.held("msgs.f90")
# hover in the middle of `err`, client coordinates
hov = c.at("textDocument/hover", "msgs.f90", 2, col + 1)
hov = hov["contents"]["value"] if hov else None
print("RESULT " + json.dumps({"col": col, "client": client_text, "held": held,
                              "hover": hov}))
'''
def main():
    r = run_child(SCENARIO)
    print(f"ranged replace at line 2, UTF-16 characters {r['col']}..{r['col']+3}: 'bad' -> 'err'")
    report([
        ("text held by the server, line 2", r["client"][2], r["held"][2]),
        ("whole document", r["client"], r["held"]),
        ("hover in the middle of the new name `err` (client coordinates)",
         '```fortran90\nCHARACTER(len=*), PARAMETER :: err = "failed"\n```', r["hover"]),
    ])
main()
