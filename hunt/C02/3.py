import json
import os
import shutil
import subprocess
import sys
import tempfile

# ---------------------------------------------------------------------------
# Code run in the CHILD process: an in-process fortls LangServer of the checkout
# in the current working directory, driven through LangServer.handle() with
# ordinary LSP request dictionaries.
# ---------------------------------------------------------------------------
CHILD_PRELUDE = r'''
import json, os, sys
sys.path.insert(0, os.getcwd())
from fortls.interface import cli
from fortls.langserver import LangServer
from fortls.jsonrpc import path_to_uri

class Conn:
    def __init__(self):
        self.notes = []; self.resp = None
    def send_notification(self, method, params):
        self.notes.append((method, params))
    def write_response(self, rid, result):
        self.resp = result
    def write_error(self, rid, **kw):
        self.resp = {"ERROR": kw.get("message")}

class Client:
    def __init__(self, root, files, extra=("--incremental_sync",)):
        self.d = os.path.realpath(root)
        for name, text in files.items():
            with open(os.path.join(self.d, name), "w", newline="", encoding="utf-8") as f:
                f.write(text)
        args = vars(cli("fortls").parse_args(["--disable_autoupdate", *extra]))
        self.c = Conn(); self.s = LangServer(self.c, args); self.n = 0
        self.caps = self.req("initialize", {"rootPath": self.d, "capabilities": {}})["capabilities"]
        self.note("initialized", {})
    def p(self, name): return os.path.join(self.d, name)
    def uri(self, name): return path_to_uri(self.p(name))
    def note(self, method, params):
        self.s.handle({"jsonrpc": "2.0", "method": method, "params": params})
    def req(self, method, params):
        self.n += 1; self.c.resp = None
        self.s.handle({"jsonrpc": "2.0", "id": self.n, "method": method, "params": params})
        return self.c.resp
    def open(self, name, text):
        self.note("textDocument/didOpen", {"textDocument": {
            "uri": self.uri(name), "languageId": "fortran", "version": 1, "text": text}})
    def change(self, name, *changes):
        self.note("textDocument/didChange", {"textDocument": {
            "uri": self.uri(name), "version": 2}, "contentChanges": list(changes)})
    def save(self, name):
        self.note("textDocument/didSave", {"textDocument": {"uri": self.uri(name)}})
    def held(self, name):
        f = self.s.workspace.get(self.p(name))
        return None if f is None else list(f.contents_split)
    def at(self, method, name, line, char, **kw):
        return self.req(method, {"textDocument": {"uri": self.uri(name)},
                                 "position": {"line": line, "character": char}, **kw})

def R(sl, sc, el, ec, text):
    return {"range": {"start": {"line": sl, "character": sc},
                      "end": {"line": el, "character": ec}}, "text": text}
'''


def run_child(scenario: str, timeout: int = 60):
    """Run CHILD_PRELUDE + scenario in a child; scenario must print one line
    'RESULT ' + json.  Returns the decoded json."""
    root = tempfile.mkdtemp(dir="/var/tmp", prefix="hC02_")
    try:
        proc = subprocess.run(
            [sys.executable, "-c", CHILD_PRELUDE + scenario, root],
            cwd=os.getcwd(), capture_output=True, text=True, timeout=timeout,
        )
        for line in proc.stdout.splitlines():
            if line.startswith("RESULT "):
                return json.loads(line[len("RESULT "):])
        print("child produced no result\nSTDOUT:\n", proc.stdout, "\nSTDERR:\n", proc.stderr)
        sys.exit(2)
    except subprocess.TimeoutExpired:
        print("child timed out")
        sys.exit(2)
    finally:
        shutil.rmtree(root, ignore_errors=True)


def report(checks):
    """checks: list of (label, expected, observed). Exit 1 if any differ."""
    bad = False
    for label, exp, obs in checks:
        ok = exp == obs
        bad = bad or not ok
        print(f"[{'ok ' if ok else 'BAD'}] {label}\n      expected: {exp!r}\n      observed: {obs!r}")
    print("DEFECT SHOWS" if bad else "defect does not show")
    sys.exit(1 if bad else 0)

"""Defect 3: didOpen with a buffer that differs from the file on disk (unsaved
changes restored by the editor).  serve_onOpen publishes diagnostics computed from
the DISK text first and only then installs the buffer text; no diagnostics follow,
so the only diagnostics the client gets are in the disk file's coordinates."""
SCENARIO = r'''
DISK = ("program p\n"
        "  implicit none\n"
        "  integer :: a\n"
        "  integer :: a\n"
        "  a = 1\n"
        "end program p\n")
BUF = "! todo 1\n! todo 2\n! todo 3\n" + DISK      # 3 unsaved lines at the top
c = Client(sys.argv[1], {"p.f90": DISK})
c.c.notes.clear()
c.open("p.f90", BUF)
diags = [p for m, p in c.c.notes if m == "textDocument/publishDiagnostics"]
print("RESULT " + json.dumps({"held": c.held("p.f90"), "client": BUF.split("\n"),
                              "diags": diags}))
'''
def main():
    r = run_child(SCENARIO)
    last = r["diags"][-1]["diagnostics"] if r["diags"] else None
    dup = [d for d in (last or []) if "declared twice" in d["message"]]
    obs_line = dup[0]["range"]["start"]["line"] if dup else None
    obs_rel = dup[0]["relatedInformation"][0]["location"]["range"]["start"]["line"] if dup else None
    print("number of publishDiagnostics notifications after didOpen:", len(r["diags"]))
    report([
        ("control: server text equals the client's buffer", r["client"], r["held"]),
        ("last published 'declared twice' diagnostic: line (client buffer: 6)", 6, obs_line),
        ("its relatedInformation 'First declaration' line (client buffer: 5)", 5, obs_rel),
    ])
main()
