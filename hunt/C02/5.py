import json
import os
import shutil
import subprocess
import sys
import tempfile

# ---------------------------------------------------------------------------
# Code run in the CHILD process: an in-process fortls LangServer of the checkout
# in the current working directory, driven through LangServer.handle() with
# ordinary LSP request dictionaries.
# ---------------------------------------------------------------------------
CHILD_PRELUDE = r'''
import json, os, sys
sys.path.insert(0, os.getcwd())
from fortls.interface import cli
from fortls.langserver import LangServer
from fortls.jsonrpc import path_to_uri

class Conn:
    def __init__(self):
        self.notes = []; self.resp = None
    def send_notification(self, method, params):
        self.notes.append((method, params))
    def write_response(self, rid, result):
        self.resp = result
    def write_error(self, rid, **kw):
        self.resp = {"ERROR": kw.get("message")}

class Client:
    def __init__(self, root, files, extra=("--incremental_sync",)):
        self.d = os.path.realpath(root)
        for name, text in files.items():
            with open(os.path.join(self.d, name), "w", newline="", encoding="utf-8") as f:
                f.write(text)
        args = vars(cli("fortls").parse_args(["--disable_autoupdate", *extra]))
        self.c = Conn(); self.s = LangServer(self.c, args); self.n = 0
        self.caps = self.req("initialize", {"rootPath": self.d, "capabilities": {}})["capabilities"]
        self.note("initialized", {})
    def p(self, name): return os.path.join(self.d, name)
    def uri(self, name): return path_to_uri(self.p(name))
    def note(self, method, params):
        self.s.handle({"jsonrpc": "2.0", "method": method, "params": params})
    def req(self, method, params):
        self.n += 1; self.c.resp = None
        self.s.handle({"jsonrpc": "2.0", "id": self.n, "method": method, "params": params})
        return self.c.resp
    def open(self, name, text):
        self.note("textDocument/didOpen", {"textDocument": {
            "uri": self.uri(name), "languageId": "fortran", "version": 1, "text": text}})
    def change(self, name, *changes):
        self.note("textDocument/didChange", {"textDocument": {
            "uri": self.uri(name), "version": 2}, "contentChanges": list(changes)})
    def save(self, name):
        self.note("textDocument/didSave", {"textDocument": {"uri": self.uri(name)}})
    def held(self, name):
        f = self.s.workspace.get(self.p(name))
        return None if f is None else list(f.contents_split)
    def at(self, method, name, line, char, **kw):
        return self.req(method, {"textDocument": {"uri": self.uri(name)},
                                 "position": {"line": line, "character": char}, **kw})

def R(sl, sc, el, ec, text):
    return {"range": {"start": {"line": sl, "character": sc},
                      "end": {"line": el, "character": ec}}, "text": text}
'''


def run_child(scenario: str, timeout: int = 60):
    """Run CHILD_PRELUDE + scenario in a child; scenario must print one line
    'RESULT ' + json.  Returns the decoded json."""
    root = tempfile.mkdtemp(dir="/var/tmp", prefix="hC02_")
    try:
        proc = subprocess.run(
            [sys.executable, "-c", CHILD_PRELUDE + scenario, root],
            cwd=os.getcwd(), capture_output=True, text=True, timeout=timeout,
        )
        for line in proc.stdout.splitlines():
            if line.startswith("RESULT "):
                return json.loads(line[len("RESULT "):])
        print("child produced no result\nSTDOUT:\n", proc.stdout, "\nSTDERR:\n", proc.stderr)
        sys.exit(2)
    except subprocess.TimeoutExpired:
        print("child timed out")
        sys.exit(2)
    finally:
        shutil.rmtree(root, ignore_errors=True)


def report(checks):
    """checks: list of (label, expected, observed). Exit 1 if any differ."""
    bad = False
    for label, exp, obs in checks:
        ok = exp == obs
        bad = bad or not ok
        print(f"[{'ok ' if ok else 'BAD'}] {label}\n      expected: {exp!r}\n      observed: {obs!r}")
    print("DEFECT SHOWS" if bad else "defect does not show")
    sys.exit(1 if bad else 0)

"""Defect 5: the server stores the document as a list of lines, so a CR and an LF
that become adjacent through an edit are not recognised as ONE CRLF line break.
(a) document with CR-only line ends (old Mac), client inserts "\n" after the CR
    (an editor converting the line ends one at a time)
(b) document with LF line ends, client inserts "\r" in front of the LF
(c) CR document, deletion of the text between a CR and an LF"""
SCENARIO = r'''
import re
def lsp_lines(t): return re.split(r"\r\n|\n|\r", t)
out = {}
# (a)
T = "program p\rinteger :: i\rend program p\r"
c = Client(sys.argv[1], {"a.f90": "program p\n"})
c.open("a.f90", T)
c.change("a.f90", R(1, 0, 1, 0, "\n"))          # offset right after the first CR
client = T[:10] + "\n" + T[10:]
out["a"] = {"client": lsp_lines(client), "held": c.held("a.f90")}
d1 = c.at("textDocument/definition", "a.f90", 1, 11)   # on `i` in the client's line 1
out["a"]["def_i_line"] = None if not d1 else d1["range"]["start"]["line"]
# (b)
T = "program p\ninteger :: i\nend program p\n"
c.open("a.f90", T)
c.change("a.f90", R(0, 9, 0, 9, "\r"))          # end of line 0, in front of the LF
client = T[:9] + "\r" + T[9:]
out["b"] = {"client": lsp_lines(client), "held": c.held("a.f90")}
# (c)
T = "program p\rxx\ninteger :: i\nend program p\n"
c.open("a.f90", T)
c.change("a.f90", R(1, 0, 1, 2, ""))            # delete xx -> "\r\n"
client = T.replace("xx", "")
out["c"] = {"client": lsp_lines(client), "held": c.held("a.f90")}
print("RESULT " + json.dumps(out))
'''
def main():
    r = run_child(SCENARIO)
    report([
        ("(a) CR document, insert LF after a CR: lines", r["a"]["client"], r["a"]["held"]),
        ("(a) definition of `i` asked at client line 1 -> declaration line", 1, r["a"]["def_i_line"]),
        ("(b) LF document, insert CR before an LF: lines", r["b"]["client"], r["b"]["held"]),
        ("(c) delete the text between a CR and an LF: lines", r["c"]["client"], r["c"]["held"]),
    ])
main()
