import json
import os
import shutil
import subprocess
import sys
import tempfile

# ---------------------------------------------------------------------------
# Code run in the CHILD process: an in-process fortls LangServer of the checkout
# in the current working directory, driven through LangServer.handle() with
# ordinary LSP request dictionaries.
# ---------------------------------------------------------------------------
CHILD_PRELUDE = r'''
import json, os, sys
sys.path.insert(0, os.getcwd())
from fortls.interface import cli
from fortls.langserver import LangServer
from fortls.jsonrpc import path_to_uri

class Conn:
    def __init__(self):
        self.notes = []; self.resp = None
    def send_notification(self, method, params):
        self.notes.append((method, params))
    def write_response(self, rid, result):
        self.resp = result
    def write_error(self, rid, **kw):
        self.resp = {"ERROR": kw.get("message")}

class Client:
    def __init__(self, root, files, extra=("--incremental_sync",)):
        self.d = os.path.realpath(root)
        for name, text in files.items():
            with open(os.path.join(self.d, name), "w", newline="", encoding="utf-8") as f:
                f.write(text)
        args = vars(cli("fortls").parse_args(["--disable_autoupdate", *extra]))
        self.c = Conn(); self.s = LangServer(self.c, args); self.n = 0
        self.caps = self.req("initialize", {"rootPath": self.d, "capabilities": {}})["capabilities"]
        self.note("initialized", {})
    def p(self, name): return os.path.join(self.d, name)
    def uri(self, name): return path_to_uri(self.p(name))
    def note(self, method, params):
        self.s.handle({"jsonrpc": "2.0", "method": method, "params": params})
    def req(self, method, params):
        self.n += 1; self.c.resp = None
        self.s.handle({"jsonrpc": "2.0", "id": self.n, "method": method, "params": params})
        return self.c.resp
    def open(self, name, text):
        self.note("textDocument/didOpen", {"textDocument": {
            "uri": self.uri(name), "languageId": "fortran", "version": 1, "text": text}})
    def change(self, name, *changes):
        self.note("textDocument/didChange", {"textDocument": {
            "uri": self.uri(name), "version": 2}, "contentChanges": list(changes)})
    def save(self, name):
        self.note("textDocument/didSave", {"textDocument": {"uri": self.uri(name)}})
    def held(self, name):
        f = self.s.workspace.get(self.p(name))
        return None if f is None else list(f.contents_split)
    def at(self, method, name, line, char, **kw):
        return self.req(method, {"textDocument": {"uri": self.uri(name)},
                                 "position": {"line": line, "character": char}, **kw})

def R(sl, sc, el, ec, text):
    return {"range": {"start": {"line": sl, "character": sc},
                      "end": {"line": el, "character": ec}}, "text": text}
'''


def run_child(scenario: str, timeout: int = 60):
    """Run CHILD_PRELUDE + scenario in a child; scenario must print one line
    'RESULT ' + json.  Returns the decoded json."""
    root = tempfile.mkdtemp(dir="/var/tmp", prefix="hC02_")
    try:
        proc = subprocess.run(
            [sys.executable, "-c", CHILD_PRELUDE + scenario, root],
            cwd=os.getcwd(), capture_output=True, text=True, timeout=timeout,
        )
        for line in proc.stdout.splitlines():
            if line.startswith("RESULT "):
                return json.loads(line[len("RESULT "):])
        print("child produced no result\nSTDOUT:\n", proc.stdout, "\nSTDERR:\n", proc.stderr)
        sys.exit(2)
    except subprocess.TimeoutExpired:
        print("child timed out")
        sys.exit(2)
    finally:
        shutil.rmtree(root, ignore_errors=True)


def report(checks):
    """checks: list of (label, expected, observed). Exit 1 if any differ."""
    bad = False
    for label, exp, obs in checks:
        ok = exp == obs
        bad = bad or not ok
        print(f"[{'ok ' if ok else 'BAD'}] {label}\n      expected: {exp!r}\n      observed: {obs!r}")
    print("DEFECT SHOWS" if bad else "defect does not show")
    sys.exit(1 if bad else 0)

"""Defect 6 (needs a didSave between the edits, so it is outside the letter of
"didOpen/didChange only"; listed because every real session contains saves):
didSave throws the synchronised text away and re-reads the file from disk.  What is
on disk is not what the client holds when the file has a UTF-8 BOM (the client's
buffer never contains it) -- likewise for legacy multi-byte encodings, which
load_from_disk() turns into several U+FFFD per character.  Later ranged edits on
such a line land in the wrong column."""
SCENARIO = r'''
BOM = "\ufeff"
T0 = "module geom\n  implicit none\n  integer :: n\nend module geom\n"
c = Client(sys.argv[1], {"geom.f90": BOM + T0})
c.open("geom.f90", T0)                           # editors strip the BOM from the buffer
after_open = c.held("geom.f90")
c.change("geom.f90", R(2, 13, 2, 14, "npts"))    # n -> npts
T1 = T0.replace(":: n", ":: npts")
with open(c.p("geom.f90"), "w", encoding="utf-8", newline="") as f:
    f.write(BOM + T1)                            # the editor saves, keeping the BOM
c.save("geom.f90")
after_save = c.held("geom.f90")
c.change("geom.f90", R(0, 7, 0, 11, "geometry")) # rename the module on line 0
T2 = T1.replace("module geom\n", "module geometry\n", 1)
print("RESULT " + json.dumps({"open_ok": after_open == T0.split("\n"),
      "save_client": T1.split("\n"), "save_held": after_save,
      "client": T2.split("\n"), "held": c.held("geom.f90")}))
'''
def main():
    r = run_child(SCENARIO)
    report([
        ("control: after didOpen the server holds the client's text", True, r["open_ok"]),
        ("after didSave: line 0", r["save_client"][0], r["save_held"][0]),
        ("after the following ranged edit (0:7-0:11 -> 'geometry'): line 0", r["client"][0], r["held"][0]),
    ])
main()
