import json
import os
import shutil
import subprocess
import sys
import tempfile

# ---------------------------------------------------------------------------
# Code run in the CHILD process: an in-process fortls LangServer of the checkout
# in the current working directory, driven through LangServer.handle() with
# ordinary LSP request dictionaries.
# ---------------------------------------------------------------------------
CHILD_PRELUDE = r'''
import json, os, sys
sys.path.insert(0, os.getcwd())
from fortls.interface import cli
from fortls.langserver import LangServer
from fortls.jsonrpc import path_to_uri

class Conn:
    def __init__(self):
        self.notes = []; self.resp = None
    def send_notification(self, method, params):
        self.notes.append((method, params))
    def write_response(self, rid, result):
        self.resp = result
    def write_error(self, rid, **kw):
        self.resp = {"ERROR": kw.get("message")}

class Client:
    def __init__(self, root, files, extra=("--incremental_sync",)):
        self.d = os.path.realpath(root)
        for name, text in files.items():
            with open(os.path.join(self.d, name), "w", newline="", encoding="utf-8") as f:
                f.write(text)
        args = vars(cli("fortls").parse_args(["--disable_autoupdate", *extra]))
        self.c = Conn(); self.s = LangServer(self.c, args); self.n = 0
        self.caps = self.req("initialize", {"rootPath": self.d, "capabilities": {}})["capabilities"]
        self.note("initialized", {})
    def p(self, name): return os.path.join(self.d, name)
    def uri(self, name): return path_to_uri(self.p(name))
    def note(self, method, params):
        self.s.handle({"jsonrpc": "2.0", "method": method, "params": params})
    def req(self, method, params):
        self.n += 1; self.c.resp = None
        self.s.handle({"jsonrpc": "2.0", "id": self.n, "method": method, "params": params})
        return self.c.resp
    def open(self, name, text):
        self.note("textDocument/didOpen", {"textDocument": {
            "uri": self.uri(name), "languageId": "fortran", "version": 1, "text": text}})
    def change(self, name, *changes):
        self.note("textDocument/didChange", {"textDocument": {
            "uri": self.uri(name), "version": 2}, "contentChanges": list(changes)})
    def save(self, name):
        self.note("textDocument/didSave", {"textDocument": {"uri": self.uri(name)}})
    def held(self, name):
        f = self.s.workspace.get(self.p(name))
        return None if f is None else list(f.contents_split)
    def at(self, method, name, line, char, **kw):
        return self.req(method, {"textDocument": {"uri": self.uri(name)},
                                 "position": {"line": line, "character": char}, **kw})

def R(sl, sc, el, ec, text):
    return {"range": {"start": {"line": sl, "character": sc},
                      "end": {"line": el, "character": ec}}, "text": text}
'''


def run_child(scenario: str, timeout: int = 60):
    """Run CHILD_PRELUDE + scenario in a child; scenario must print one line
    'RESULT ' + json.  Returns the decoded json."""
    root = tempfile.mkdtemp(dir="/var/tmp", prefix="hC02_")
    try:
        proc = subprocess.run(
            [sys.executable, "-c", CHILD_PRELUDE + scenario, root],
            cwd=os.getcwd(), capture_output=True, text=True, timeout=timeout,
        )
        for line in proc.stdout.splitlines():
            if line.startswith("RESULT "):
                return json.loads(line[len("RESULT "):])
        print("child produced no result\nSTDOUT:\n", proc.stdout, "\nSTDERR:\n", proc.stderr)
        sys.exit(2)
    except subprocess.TimeoutExpired:
        print("child timed out")
        sys.exit(2)
    finally:
        shutil.rmtree(root, ignore_errors=True)


def report(checks):
    """checks: list of (label, expected, observed). Exit 1 if any differ."""
    bad = False
    for label, exp, obs in checks:
        ok = exp == obs
        bad = bad or not ok
        print(f"[{'ok ' if ok else 'BAD'}] {label}\n      expected: {exp!r}\n      observed: {obs!r}")
    print("DEFECT SHOWS" if bad else "defect does not show")
    sys.exit(1 if bad else 0)

"""Defect 2: after didChange of file A (lines inserted), cross-file links cached in
OTHER files (variable -> derived type, type -> parent type) still point into A's old
AST, so definition/references answered from file B carry A's OLD line numbers."""
SCENARIO = r'''
A = ("module shapes\n"
     "  implicit none\n"
     "  type :: circle\n"
     "    real :: radius\n"
     "  contains\n"
     "    procedure :: area\n"
     "  end type circle\n"
     "contains\n"
     "  real function area(self)\n"
     "    class(circle), intent(in) :: self\n"
     "    area = 3.14159 * self%radius**2\n"
     "  end function area\n"
     "end module shapes\n")
B = ("program main\n"
     "  use shapes\n"
     "  implicit none\n"
     "  type(circle) :: c\n"
     "  c%radius = 2.0\n"
     "  print *, c%area()\n"
     "end program main\n")
c = Client(sys.argv[1], {"shapes.f90": A, "main.f90": B})
c.open("shapes.f90", A); c.open("main.f90", B)
before = c.at("textDocument/definition", "main.f90", 4, 6)      # c%radius
# The user adds a three-line header comment at the top of shapes.f90 (not saved yet)
c.change("shapes.f90", R(0, 0, 0, 0, "! Shapes library\n! (c) someone\n!\n"))
held = c.held("shapes.f90")
after_radius = c.at("textDocument/definition", "main.f90", 4, 6)  # c%radius
after_area = c.at("textDocument/definition", "main.f90", 5, 13)   # c%area
after_type = c.at("textDocument/definition", "main.f90", 3, 9)    # circle (not cached)
print("RESULT " + json.dumps({"before": before, "held": held, "radius": after_radius,
      "area": after_area, "type": after_type}))
'''
def main():
    r = run_child(SCENARIO)
    held = r["held"]
    exp_radius = next(i for i, l in enumerate(held) if "real :: radius" in l)
    exp_area = next(i for i, l in enumerate(held) if "procedure :: area" in l)
    exp_type = next(i for i, l in enumerate(held) if "type :: circle" in l)
    print("definition of c%radius before the edit:", r["before"]["range"])
    print("server text of shapes.f90 after the edit (it is correct):")
    for i, l in enumerate(held[:8]):
        print(f"   {i}: {l}")
    report([
        ("definition(c%radius) from main.f90 -> start of range in shapes.f90",
         {"line": exp_radius, "character": held[exp_radius].index("radius")},
         r["radius"]["range"]["start"]),
        ("definition(c%area) from main.f90 -> start of range in shapes.f90",
         {"line": exp_area, "character": held[exp_area].index("area")},
         r["area"]["range"]["start"]),
        ("control: definition(circle) from main.f90 (resolved freshly) -> line",
         exp_type, r["type"]["range"]["start"]["line"]),
    ])
main()
