#!/usr/bin/env python
# Self-contained reproduction script. Run as:  cd <fortls checkout> && /venv/bin/python <this file>
# Exit status: 1 = defect shows, 0 = defect does not show, 2 = harness problem.
import json
import os
import shutil
import subprocess
import sys
import tempfile

sys.path.insert(0, os.getcwd())
TIMEOUT = 60
METHODS = {
    "ref": "textDocument/references",
    "hl": "textDocument/documentHighlight",
    "ren": "textDocument/rename",
}


def _rpc(obj):
    body = json.dumps(obj)
    return f"Content-Length: {len(body)}\r\n\r\n{body}"


def run_server(files, queries, new_name="zz_new"):
    """files: {relative name: text}; queries: [(file, line, character, kind)], kind in ref/hl/ren.
    Starts fortls (from the checkout in the current directory) in a child process, returns one
    result per query: sorted list of (file, line, start_char, end_char), or None."""
    root = tempfile.mkdtemp(dir="/var/tmp", prefix="hC06_")
    try:
        for name, text in files.items():
            path = os.path.join(root, name)
            os.makedirs(os.path.dirname(path), exist_ok=True)
            with open(path, "w") as fh:
                fh.write(text)
        msgs = [
            _rpc({"jsonrpc": "2.0", "id": 1, "method": "initialize",
                  "params": {"rootPath": root, "rootUri": "file://" + root, "capabilities": {}}}),
            _rpc({"jsonrpc": "2.0", "method": "initialized", "params": {}}),
        ]
        for i, (fn, line, ch, kind) in enumerate(queries):
            params = {"textDocument": {"uri": "file://" + os.path.join(root, fn)},
                      "position": {"line": line, "character": ch}}
            if kind == "ref":
                params["context"] = {"includeDeclaration": True}
            if kind == "ren":
                params["newName"] = new_name
            msgs.append(_rpc({"jsonrpc": "2.0", "id": 100 + i, "method": METHODS[kind], "params": params}))
        msgs.append(_rpc({"jsonrpc": "2.0", "id": 9999, "method": "shutdown", "params": {}}))
        msgs.append(_rpc({"jsonrpc": "2.0", "method": "exit", "params": {}}))
        env = dict(os.environ)
        env["PYTHONPATH"] = os.getcwd() + os.pathsep + env.get("PYTHONPATH", "")
        try:
            proc = subprocess.run(
                [sys.executable, "-m", "fortls", "--disable_autoupdate", "--incremental_sync"],
                input="".join(msgs).encode(), capture_output=True, timeout=TIMEOUT,
                cwd=os.getcwd(), env=env)
        except subprocess.TimeoutExpired:
            print("HARNESS: fortls timed out")
            sys.exit(2)
        out = proc.stdout.decode()
        answers = {}
        pos = 0
        while True:
            k = out.find("Content-Length:", pos)
            if k < 0:
                break
            e = out.find("\r\n\r\n", k)
            n = int(out[k + 15:e].split("\r\n")[0].strip())
            msg = json.loads(out[e + 4:e + 4 + n])
            pos = e + 4 + n
            if "id" in msg:
                answers[msg["id"]] = msg.get("result", msg.get("error"))
        results = []
        for i in range(len(queries)):
            if 100 + i not in answers:
                print("HARNESS: no response for query", queries[i], "\n", proc.stderr.decode()[-1500:])
                sys.exit(2)
            results.append(_simplify(answers[100 + i], root))
        return results
    finally:
        shutil.rmtree(root, ignore_errors=True)


def _simplify(res, root):
    if res is None:
        return None
    out = []
    if isinstance(res, dict) and "changes" in res:
        for uri, edits in res["changes"].items():
            for ed in edits:
                r = ed["range"]
                assert r["start"]["line"] == r["end"]["line"]
                out.append((os.path.relpath(uri[7:], root), r["start"]["line"],
                            r["start"]["character"], r["end"]["character"]))
        return sorted(out)
    if isinstance(res, list):
        for loc in res:
            r = loc["range"]
            out.append((os.path.relpath(loc["uri"][7:], root), r["start"]["line"],
                        r["start"]["character"], r["end"]["character"]))
        return sorted(out)
    return res


def fmt(files, locs):
    if not isinstance(locs, list):
        return f"      {locs!r}"
    lines = []
    for fn, ln, a, b in locs:
        text = files[fn].split("\n")[ln]
        lines.append(f"      {fn}:{ln}:{a}-{b}  [{text[a:b]}]  in |{text}|")
    return "\n".join(lines) if lines else "      (empty)"


def apply_edits(files, locs, new_name):
    new = {}
    for fn, text in files.items():
        lines = text.split("\n")
        for f, ln, a, b in sorted((x for x in locs if x[0] == fn), key=lambda x: (x[1], -x[2])):
            lines[ln] = lines[ln][:a] + new_name + lines[ln][b:]
        new[fn] = "\n".join(lines)
    return new


def check(files, title, query, expected, observed):
    """Print expected versus observed; return True when they differ (defect shows)."""
    exp = sorted(expected)
    print(f"--- {title}\n    request {query}")
    print("    expected:\n" + fmt(files, exp))
    print("    observed:\n" + fmt(files, observed))
    if observed == exp:
        print("    => OK")
        return False
    if isinstance(observed, list):
        missing = [x for x in exp if x not in observed]
        extra = [x for x in observed if x not in exp]
        if missing:
            print("    MISSING:\n" + fmt(files, missing))
        if extra:
            print("    WRONGLY INCLUDED:\n" + fmt(files, extra))
    print("    => VIOLATION")
    return True


def occ(files, fn, line, name, nth=0):
    """Location tuple of the nth (0-based) word-bounded occurrence of name on a line."""
    import re
    text = files[fn].split("\n")[line]
    ms = list(re.finditer(rf"(?<![\w$]){re.escape(name)}(?![\w$])", text, re.I))
    m = ms[nth]
    return (fn, line, m.start(), m.end())

# DEFECT 1: an apostrophe inside a double-quoted character literal ("it's", "don't") makes the
# rest of the line up to the next apostrophe count as a single-quoted literal: real occurrences
# there are lost, and a trailing comment is no longer recognised as a comment.
SRC = """program p
  implicit none
  integer :: x
  x = 1
  print *, "it's", x, "it's"
  print *, "don't", x   ! isn't x nice
end program p
"""
files = {"a.f90": SRC}
expected = [occ(files, "a.f90", 2, "x"), occ(files, "a.f90", 3, "x"),
            occ(files, "a.f90", 4, "x"), occ(files, "a.f90", 5, "x", 0)]
queries = [("a.f90", 2, 13, "ref"), ("a.f90", 2, 13, "hl"), ("a.f90", 2, 13, "ren"),
           ("a.f90", 4, 19, "ref"), ("a.f90", 5, 20, "ref")]
res = run_server(files, queries)
bad = False
bad |= check(files, "references of x from its declaration", queries[0], expected, res[0])
bad |= check(files, "documentHighlight of x from its declaration", queries[1], expected, res[1])
bad |= check(files, "rename of x from its declaration", queries[2], expected, res[2])
bad |= check(files, "references of x invoked from the occurrence on line 4 (between the two \"it's\")",
             queries[3], expected, res[3])
bad |= check(files, "references of x invoked from the occurrence on line 5 (after \"don't\")",
             queries[4], expected, res[4])
sys.exit(1 if bad else 0)
