#!/usr/bin/env python
# Self-contained reproduction script. Run as:  cd <fortls checkout> && /venv/bin/python <this file>
# Exit status: 1 = defect shows, 0 = defect does not show, 2 = harness problem.
import json
import os
import shutil
import subprocess
import sys
import tempfile

sys.path.insert(0, os.getcwd())
TIMEOUT = 60
METHODS = {
    "ref": "textDocument/references",
    "hl": "textDocument/documentHighlight",
    "ren": "textDocument/rename",
}


def _rpc(obj):
    body = json.dumps(obj)
    return f"Content-Length: {len(body)}\r\n\r\n{body}"


def run_server(files, queries, new_name="zz_new"):
    """files: {relative name: text}; queries: [(file, line, character, kind)], kind in ref/hl/ren.
    Starts fortls (from the checkout in the current directory) in a child process, returns one
    result per query: sorted list of (file, line, start_char, end_char), or None."""
    root = tempfile.mkdtemp(dir="/var/tmp", prefix="hC06_")
    try:
        for name, text in files.items():
            path = os.path.join(root, name)
            os.makedirs(os.path.dirname(path), exist_ok=True)
            with open(path, "w") as fh:
                fh.write(text)
        msgs = [
            _rpc({"jsonrpc": "2.0", "id": 1, "method": "initialize",
                  "params": {"rootPath": root, "rootUri": "file://" + root, "capabilities": {}}}),
            _rpc({"jsonrpc": "2.0", "method": "initialized", "params": {}}),
        ]
        for i, (fn, line, ch, kind) in enumerate(queries):
            params = {"textDocument": {"uri": "file://" + os.path.join(root, fn)},
                      "position": {"line": line, "character": ch}}
            if kind == "ref":
                params["context"] = {"includeDeclaration": True}
            if kind == "ren":
                params["newName"] = new_name
            msgs.append(_rpc({"jsonrpc": "2.0", "id": 100 + i, "method": METHODS[kind], "params": params}))
        msgs.append(_rpc({"jsonrpc": "2.0", "id": 9999, "method": "shutdown", "params": {}}))
        msgs.append(_rpc({"jsonrpc": "2.0", "method": "exit", "params": {}}))
        env = dict(os.environ)
        env["PYTHONPATH"] = os.getcwd() + os.pathsep + env.get("PYTHONPATH", "")
        try:
            proc = subprocess.run(
                [sys.executable, "-m", "fortls", "--disable_autoupdate", "--incremental_sync"],
                input="".join(msgs).encode(), capture_output=True, timeout=TIMEOUT,
                cwd=os.getcwd(), env=env)
        except subprocess.TimeoutExpired:
            print("HARNESS: fortls timed out")
            sys.exit(2)
        out = proc.stdout.decode()
        answers = {}
        pos = 0
        while True:
            k = out.find("Content-Length:", pos)
            if k < 0:
                break
            e = out.find("\r\n\r\n", k)
            n = int(out[k + 15:e].split("\r\n")[0].strip())
            msg = json.loads(out[e + 4:e + 4 + n])
            pos = e + 4 + n
            if "id" in msg:
                answers[msg["id"]] = msg.get("result", msg.get("error"))
        results = []
        for i in range(len(queries)):
            if 100 + i not in answers:
                print("HARNESS: no response for query", queries[i], "\n", proc.stderr.decode()[-1500:])
                sys.exit(2)
            results.append(_simplify(answers[100 + i], root))
        return results
    finally:
        shutil.rmtree(root, ignore_errors=True)


def _simplify(res, root):
    if res is None:
        return None
    out = []
    if isinstance(res, dict) and "changes" in res:
        for uri, edits in res["changes"].items():
            for ed in edits:
                r = ed["range"]
                assert r["start"]["line"] == r["end"]["line"]
                out.append((os.path.relpath(uri[7:], root), r["start"]["line"],
                            r["start"]["character"], r["end"]["character"]))
        return sorted(out)
    if isinstance(res, list):
        for loc in res:
            r = loc["range"]
            out.append((os.path.relpath(loc["uri"][7:], root), r["start"]["line"],
                        r["start"]["character"], r["end"]["character"]))
        return sorted(out)
    return res


def fmt(files, locs):
    if not isinstance(locs, list):
        return f"      {locs!r}"
    lines = []
    for fn, ln, a, b in locs:
        text = files[fn].split("\n")[ln]
        lines.append(f"      {fn}:{ln}:{a}-{b}  [{text[a:b]}]  in |{text}|")
    return "\n".join(lines) if lines else "      (empty)"


def apply_edits(files, locs, new_name):
    new = {}
    for fn, text in files.items():
        lines = text.split("\n")
        for f, ln, a, b in sorted((x for x in locs if x[0] == fn), key=lambda x: (x[1], -x[2])):
            lines[ln] = lines[ln][:a] + new_name + lines[ln][b:]
        new[fn] = "\n".join(lines)
    return new


def check(files, title, query, expected, observed):
    """Print expected versus observed; return True when they differ (defect shows)."""
    exp = sorted(expected)
    print(f"--- {title}\n    request {query}")
    print("    expected:\n" + fmt(files, exp))
    print("    observed:\n" + fmt(files, observed))
    if observed == exp:
        print("    => OK")
        return False
    if isinstance(observed, list):
        missing = [x for x in exp if x not in observed]
        extra = [x for x in observed if x not in exp]
        if missing:
            print("    MISSING:\n" + fmt(files, missing))
        if extra:
            print("    WRONGLY INCLUDED:\n" + fmt(files, extra))
    print("    => VIOLATION")
    return True


def occ(files, fn, line, name, nth=0):
    """Location tuple of the nth (0-based) word-bounded occurrence of name on a line."""
    import re
    text = files[fn].split("\n")[line]
    ms = list(re.finditer(rf"(?<![\w$]){re.escape(name)}(?![\w$])", text, re.I))
    m = ms[nth]
    return (fn, line, m.start(), m.end())

# DEFECT 6: a function without a RESULT clause: the function name used inside the body (the
# result variable, same entity/name as the function) and the function name in the FUNCTION/END
# statements and in calls are two disjoint reference sets; rename from either side leaves the
# other side with the old name, i.e. produces code that no longer compiles.
MOD = """module m
  implicit none
contains
  function twice(k)
    integer, intent(in) :: k
    integer :: twice
    twice = 2*k
  end function twice
  integer function thrice(k)
    integer, intent(in) :: k
    thrice = 3*k
  end function thrice
end module m
"""
SRC = """program p
  use m, only: twice, thrice
  implicit none
  print *, twice(1) + thrice(2)
end program p
"""
files = {"m.f90": MOD, "p.f90": SRC}
NEW = "dbl"
exp_twice = [occ(files, "m.f90", 3, "twice"), occ(files, "m.f90", 5, "twice"), occ(files, "m.f90", 6, "twice"),
             occ(files, "m.f90", 7, "twice"), occ(files, "p.f90", 1, "twice"), occ(files, "p.f90", 3, "twice")]
exp_thrice = [occ(files, "m.f90", 8, "thrice"), occ(files, "m.f90", 10, "thrice"), occ(files, "m.f90", 11, "thrice"),
              occ(files, "p.f90", 1, "thrice"), occ(files, "p.f90", 3, "thrice")]
queries = [("m.f90", 3, 12, "ref"), ("m.f90", 6, 5, "ref"), ("m.f90", 3, 12, "ren"), ("m.f90", 6, 5, "ren"),
           ("m.f90", 8, 20, "ref"), ("m.f90", 10, 5, "ref"), ("m.f90", 10, 5, "ren")]
res = run_server(files, queries, new_name=NEW)
bad = False
bad |= check(files, "references of twice, invoked on the FUNCTION statement", queries[0], exp_twice, res[0])
bad |= check(files, "references of twice, invoked on `twice = 2*k`", queries[1], exp_twice, res[1])
print("    same set from both occurrences:", res[0] == res[1])
bad |= res[0] != res[1]
bad |= check(files, "rename twice -> dbl, invoked on the FUNCTION statement", queries[2], exp_twice, res[2])
if isinstance(res[2], list):
    print("    m.f90 after applying these edits (result of dbl is never declared/assigned, 'twice' is orphaned):")
    for ln in apply_edits(files, res[2], NEW)["m.f90"].split("\n")[3:8]:
        print("      |" + ln + "|")
bad |= check(files, "rename twice -> dbl, invoked on `twice = 2*k`", queries[3], exp_twice, res[3])
bad |= check(files, "references of thrice, invoked on the FUNCTION statement", queries[4], exp_thrice, res[4])
bad |= check(files, "references of thrice, invoked on `thrice = 3*k`", queries[5], exp_thrice, res[5])
bad |= check(files, "rename thrice -> dbl, invoked on `thrice = 3*k`", queries[6], exp_thrice, res[6])
if isinstance(res[6], list):
    print("    m.f90 after applying these edits:")
    for ln in apply_edits(files, res[6], NEW)["m.f90"].split("\n")[8:12]:
        print("      |" + ln + "|")
sys.exit(1 if bad else 0)
