import json
import os
import shutil
import subprocess
import sys
import tempfile

sys.path.insert(0, os.getcwd())
TIMEOUT = 60


def lsp_session(root, steps):
    """Run the fortls server of the current checkout as a child process.

    steps: list of (method, params) -- requests get increasing ids; notifications
    are those whose method is in NOTIFS. Returns (responses by id, diagnostics by
    file basename, list of showMessage texts).
    """
    from fortls.jsonrpc import read_rpc_messages, write_rpc_notification, write_rpc_request
    from io import StringIO

    NOTIFS = ("initialized", "textDocument/didOpen", "textDocument/didChange",
              "textDocument/didSave", "textDocument/didClose", "exit")
    msgs = ""
    rid = 0
    ids = []
    for method, params in steps:
        if method in NOTIFS:
            msgs += write_rpc_notification(method, params)
            ids.append(None)
        else:
            rid += 1
            msgs += write_rpc_request(rid, method, params)
            ids.append(rid)
    rid += 1
    msgs += write_rpc_request(rid, "shutdown", {})
    msgs += write_rpc_notification("exit", {})
    env = dict(os.environ)
    env["PYTHONPATH"] = os.getcwd() + os.pathsep + env.get("PYTHONPATH", "")
    proc = subprocess.run(
        [sys.executable, "-m", "fortls", "--disable_autoupdate", "--incremental_sync"],
        input=msgs.encode(), stdout=subprocess.PIPE, stderr=subprocess.PIPE,
        timeout=TIMEOUT, cwd=os.getcwd(), env=env,
    )
    out = read_rpc_messages(StringIO(proc.stdout.decode()))
    responses, diags, shown = {}, {}, []
    for m in out:
        if "id" in m and ("result" in m or "error" in m):
            responses[m["id"]] = m.get("result", m.get("error"))
        elif m.get("method") == "textDocument/publishDiagnostics":
            diags[os.path.basename(m["params"]["uri"])] = m["params"]["diagnostics"]
        elif m.get("method") == "window/showMessage":
            shown.append(m["params"]["message"])
    return [responses.get(i) if i is not None else None for i in ids], diags, shown


def uri(path):
    from fortls.jsonrpc import path_to_uri
    return path_to_uri(path)


def open_file(path):
    with open(path, newline="") as f:
        text = f.read()
    return ("textDocument/didOpen",
            {"textDocument": {"uri": uri(path), "languageId": "fortran", "version": 1, "text": text}})


def pos(path, line, char):
    return {"textDocument": {"uri": uri(path)}, "position": {"line": line, "character": char}}


def run_variant(files, requests, open_names):
    """Write `files` (name -> text) in a fresh directory, initialise the server
    there, open `open_names`, send `requests` (callables taking the root dir and
    returning (method, params)). Returns (responses of requests, diagnostics)."""
    root = tempfile.mkdtemp(dir="/var/tmp", prefix="h-C13-")
    try:
        for name, text in files.items():
            with open(os.path.join(root, name), "w", newline="") as f:
                f.write(text)
        steps = [("initialize", {"rootPath": root, "rootUri": uri(root), "capabilities": {}}),
                 ("initialized", {})]
        for n in open_names:
            steps.append(open_file(os.path.join(root, n)))
        n_pre = len(steps)
        for r in requests:
            steps.append(r(root))
        res, diags, shown = lsp_session(root, steps)
        return res[n_pre:], diags, shown
    finally:
        shutil.rmtree(root, ignore_errors=True)


def hover_text(h):
    if not h:
        return None
    c = h.get("contents")
    if isinstance(c, dict):
        return c.get("value")
    if isinstance(c, list):
        return "\n".join(x.get("value", "") if isinstance(x, dict) else str(x) for x in c)
    return c


def loc(d):
    """Reduce a definition result to (basename, line) or None."""
    if not d:
        return None
    if isinstance(d, list):
        d = d[0]
    return (os.path.basename(d["uri"]), d["range"]["start"]["line"])


def diag_msgs(dl):
    return sorted((d["range"]["start"]["line"], d["message"]) for d in (dl or []))

# ---------------------------------------------------------------------------
# Defect 3: PUBLIC / PRIVATE name lists are matched case-sensitively against
# the declared names
# ---------------------------------------------------------------------------
def module(vis_name):
    return (
        "module m\n"
        "  implicit none\n"
        "  private\n"
        "  public :: %s\n"
        "  integer :: foo\n"
        "  integer :: hidden\n"
        "end module m\n" % vis_name
    )


PROG = "program p\n  use m\n  implicit none\n  foo = 1\nend program p\n"


def observe(vis_name):
    res, diags, _ = run_variant(
        {"m.f90": module(vis_name), "p.f90": PROG},
        [lambda root: ("textDocument/definition", pos(os.path.join(root, "p.f90"), 3, 3)),
         lambda root: ("textDocument/hover", pos(os.path.join(root, "p.f90"), 3, 3)),
         lambda root: ("textDocument/completion", pos(os.path.join(root, "p.f90"), 3, 3))],
        ["p.f90"],
    )
    labels = sorted(i["label"] for i in (res[2] or []) if i["label"].lower() in ("foo", "hidden"))
    return loc(res[0]), hover_text(res[1]), labels


def main():
    low = observe("foo")
    up = observe("FOO")
    print("`public :: foo` (declaration `integer :: foo`):")
    print("   definition/hover/completion of foo in a program that USEs m:", low)
    print("`public :: FOO` (same declaration):")
    print("   definition/hover/completion of foo in a program that USEs m:", up)
    print("expected: identical, Fortran names are case-insensitive")
    if low[0] is None:
        print("baseline did not behave as assumed; inconclusive")
        return 0
    bad = low != up
    print("DEFECT SHOWN" if bad else "no defect")
    return 1 if bad else 0


if __name__ == "__main__":
    sys.exit(main())
