import json
import os
import shutil
import subprocess
import sys
import tempfile

sys.path.insert(0, os.getcwd())
TIMEOUT = 60


def lsp_session(root, steps):
    """Run the fortls server of the current checkout as a child process.

    steps: list of (method, params) -- requests get increasing ids; notifications
    are those whose method is in NOTIFS. Returns (responses by id, diagnostics by
    file basename, list of showMessage texts).
    """
    from fortls.jsonrpc import read_rpc_messages, write_rpc_notification, write_rpc_request
    from io import StringIO

    NOTIFS = ("initialized", "textDocument/didOpen", "textDocument/didChange",
              "textDocument/didSave", "textDocument/didClose", "exit")
    msgs = ""
    rid = 0
    ids = []
    for method, params in steps:
        if method in NOTIFS:
            msgs += write_rpc_notification(method, params)
            ids.append(None)
        else:
            rid += 1
            msgs += write_rpc_request(rid, method, params)
            ids.append(rid)
    rid += 1
    msgs += write_rpc_request(rid, "shutdown", {})
    msgs += write_rpc_notification("exit", {})
    env = dict(os.environ)
    env["PYTHONPATH"] = os.getcwd() + os.pathsep + env.get("PYTHONPATH", "")
    proc = subprocess.run(
        [sys.executable, "-m", "fortls", "--disable_autoupdate", "--incremental_sync"],
        input=msgs.encode(), stdout=subprocess.PIPE, stderr=subprocess.PIPE,
        timeout=TIMEOUT, cwd=os.getcwd(), env=env,
    )
    out = read_rpc_messages(StringIO(proc.stdout.decode()))
    responses, diags, shown = {}, {}, []
    for m in out:
        if "id" in m and ("result" in m or "error" in m):
            responses[m["id"]] = m.get("result", m.get("error"))
        elif m.get("method") == "textDocument/publishDiagnostics":
            diags[os.path.basename(m["params"]["uri"])] = m["params"]["diagnostics"]
        elif m.get("method") == "window/showMessage":
            shown.append(m["params"]["message"])
    return [responses.get(i) if i is not None else None for i in ids], diags, shown


def uri(path):
    from fortls.jsonrpc import path_to_uri
    return path_to_uri(path)


def open_file(path):
    with open(path, newline="") as f:
        text = f.read()
    return ("textDocument/didOpen",
            {"textDocument": {"uri": uri(path), "languageId": "fortran", "version": 1, "text": text}})


def pos(path, line, char):
    return {"textDocument": {"uri": uri(path)}, "position": {"line": line, "character": char}}


def run_variant(files, requests, open_names):
    """Write `files` (name -> text) in a fresh directory, initialise the server
    there, open `open_names`, send `requests` (callables taking the root dir and
    returning (method, params)). Returns (responses of requests, diagnostics)."""
    root = tempfile.mkdtemp(dir="/var/tmp", prefix="h-C13-")
    try:
        for name, text in files.items():
            with open(os.path.join(root, name), "w", newline="") as f:
                f.write(text)
        steps = [("initialize", {"rootPath": root, "rootUri": uri(root), "capabilities": {}}),
                 ("initialized", {})]
        for n in open_names:
            steps.append(open_file(os.path.join(root, n)))
        n_pre = len(steps)
        for r in requests:
            steps.append(r(root))
        res, diags, shown = lsp_session(root, steps)
        return res[n_pre:], diags, shown
    finally:
        shutil.rmtree(root, ignore_errors=True)


def hover_text(h):
    if not h:
        return None
    c = h.get("contents")
    if isinstance(c, dict):
        return c.get("value")
    if isinstance(c, list):
        return "\n".join(x.get("value", "") if isinstance(x, dict) else str(x) for x in c)
    return c


def loc(d):
    """Reduce a definition result to (basename, line) or None."""
    if not d:
        return None
    if isinstance(d, list):
        d = d[0]
    return (os.path.basename(d["uri"]), d["range"]["start"]["line"])


def diag_msgs(dl):
    return sorted((d["range"]["start"]["line"], d["message"]) for d in (dl or []))

# ---------------------------------------------------------------------------
# Defect 6: a continuation inside the parentheses of RESULT(...), EXTENDS(...)
# or PROCEDURE(...) (no leading '&' on the next line) loses the result
# variable / the parent type / the procedure interface
# ---------------------------------------------------------------------------
TEMPLATE = (
    "module m\n"
    "  implicit none\n"
    "  type :: base\n"
    "    integer :: in_base\n"
    "  end type base\n"
    "  type, %(ext)s :: child\n"
    "    integer :: in_child\n"
    "  end type child\n"
    "  abstract interface\n"
    "    subroutine iface(a)\n"
    "      integer :: a\n"
    "    end subroutine iface\n"
    "  end interface\n"
    "contains\n"
    "  function twice(a) %(res)s\n"
    "    integer, intent(in) :: a\n"
    "    integer :: r\n"
    "    r = 2*a\n"
    "  end function twice\n"
    "  subroutine s(c)\n"
    "    type(child) :: c\n"
    "    %(pro)s, pointer :: pp\n"
    "    c%%in_base = twice(1)\n"
    "    call pp(1)\n"
    "  end subroutine s\n"
    "end module m\n"
)
ONE_LINE = dict(ext="extends(base)", res="result(r)", pro="procedure(iface)")
SPLIT = dict(ext="extends(&\n      base)", res="result(&\n      r)", pro="procedure(iface &\n      )")


def observe(parts):
    src = TEMPLATE % parts
    lines = src.split("\n")
    l1 = lines.index("    c%in_base = twice(1)")
    l2 = lines.index("    call pp(1)")
    path = lambda root: os.path.join(root, "a.f90")
    res, diags, _ = run_variant(
        {"a.f90": src},
        [lambda root: ("textDocument/hover", pos(path(root), l1, 8)),
         lambda root: ("textDocument/hover", pos(path(root), l1, 18)),
         lambda root: ("textDocument/hover", pos(path(root), l2, 10))],
        ["a.f90"],
    )
    return [hover_text(r) for r in res]


def main():
    one = observe(ONE_LINE)
    split = observe(SPLIT)
    names = ("inherited component c%in_base   (EXTENDS)",
             "function twice                  (RESULT)",
             "procedure pointer pp            (PROCEDURE(iface))")
    bad = False
    for n, a, b in zip(names, one, split):
        print(n)
        print("   statement on one line             :", repr(a))
        print("   '&' continuation after/before '(' :", repr(b))
        bad = bad or (a != b)
    print("expected: identical hovers")
    if any(h is None for h in one):
        print("baseline did not behave as assumed; inconclusive")
        return 0
    print("DEFECT SHOWN" if bad else "no defect")
    return 1 if bad else 0


if __name__ == "__main__":
    sys.exit(main())
