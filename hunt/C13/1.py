import json
import os
import shutil
import subprocess
import sys
import tempfile

sys.path.insert(0, os.getcwd())
TIMEOUT = 60


def lsp_session(root, steps):
    """Run the fortls server of the current checkout as a child process.

    steps: list of (method, params) -- requests get increasing ids; notifications
    are those whose method is in NOTIFS. Returns (responses by id, diagnostics by
    file basename, list of showMessage texts).
    """
    from fortls.jsonrpc import read_rpc_messages, write_rpc_notification, write_rpc_request
    from io import StringIO

    NOTIFS = ("initialized", "textDocument/didOpen", "textDocument/didChange",
              "textDocument/didSave", "textDocument/didClose", "exit")
    msgs = ""
    rid = 0
    ids = []
    for method, params in steps:
        if method in NOTIFS:
            msgs += write_rpc_notification(method, params)
            ids.append(None)
        else:
            rid += 1
            msgs += write_rpc_request(rid, method, params)
            ids.append(rid)
    rid += 1
    msgs += write_rpc_request(rid, "shutdown", {})
    msgs += write_rpc_notification("exit", {})
    env = dict(os.environ)
    env["PYTHONPATH"] = os.getcwd() + os.pathsep + env.get("PYTHONPATH", "")
    proc = subprocess.run(
        [sys.executable, "-m", "fortls", "--disable_autoupdate", "--incremental_sync"],
        input=msgs.encode(), stdout=subprocess.PIPE, stderr=subprocess.PIPE,
        timeout=TIMEOUT, cwd=os.getcwd(), env=env,
    )
    out = read_rpc_messages(StringIO(proc.stdout.decode()))
    responses, diags, shown = {}, {}, []
    for m in out:
        if "id" in m and ("result" in m or "error" in m):
            responses[m["id"]] = m.get("result", m.get("error"))
        elif m.get("method") == "textDocument/publishDiagnostics":
            diags[os.path.basename(m["params"]["uri"])] = m["params"]["diagnostics"]
        elif m.get("method") == "window/showMessage":
            shown.append(m["params"]["message"])
    return [responses.get(i) if i is not None else None for i in ids], diags, shown


def uri(path):
    from fortls.jsonrpc import path_to_uri
    return path_to_uri(path)


def open_file(path):
    with open(path, newline="") as f:
        text = f.read()
    return ("textDocument/didOpen",
            {"textDocument": {"uri": uri(path), "languageId": "fortran", "version": 1, "text": text}})


def pos(path, line, char):
    return {"textDocument": {"uri": uri(path)}, "position": {"line": line, "character": char}}


def run_variant(files, requests, open_names):
    """Write `files` (name -> text) in a fresh directory, initialise the server
    there, open `open_names`, send `requests` (callables taking the root dir and
    returning (method, params)). Returns (responses of requests, diagnostics)."""
    root = tempfile.mkdtemp(dir="/var/tmp", prefix="h-C13-")
    try:
        for name, text in files.items():
            with open(os.path.join(root, name), "w", newline="") as f:
                f.write(text)
        steps = [("initialize", {"rootPath": root, "rootUri": uri(root), "capabilities": {}}),
                 ("initialized", {})]
        for n in open_names:
            steps.append(open_file(os.path.join(root, n)))
        n_pre = len(steps)
        for r in requests:
            steps.append(r(root))
        res, diags, shown = lsp_session(root, steps)
        return res[n_pre:], diags, shown
    finally:
        shutil.rmtree(root, ignore_errors=True)


def hover_text(h):
    if not h:
        return None
    c = h.get("contents")
    if isinstance(c, dict):
        return c.get("value")
    if isinstance(c, list):
        return "\n".join(x.get("value", "") if isinstance(x, dict) else str(x) for x in c)
    return c


def loc(d):
    """Reduce a definition result to (basename, line) or None."""
    if not d:
        return None
    if isinstance(d, list):
        d = d[0]
    return (os.path.basename(d["uri"]), d["range"]["start"]["line"])


def diag_msgs(dl):
    return sorted((d["range"]["start"]["line"], d["message"]) for d in (dl or []))

# ---------------------------------------------------------------------------
# Defect 1: joining statements with ';' blanks every character literal on the
# line (INCLUDE file name, PARAMETER value)
# ---------------------------------------------------------------------------
INC = "integer :: n_from_inc\n"
SEP = (
    "subroutine s()\n"
    "  implicit none\n"
    "  include 'decl_inc.f90'\n"
    "  character(len=*), parameter :: greeting = \"hello\"\n"
    "  integer :: k\n"
    "  n_from_inc = 1\n"
    "  print *, greeting\n"
    "end subroutine s\n"
)
JOINED = (
    "subroutine s()\n"
    "  implicit none; include 'decl_inc.f90'\n"
    "  character(len=*), parameter :: greeting = \"hello\"; integer :: k\n"
    "  n_from_inc = 1\n"
    "  print *, greeting\n"
    "end subroutine s\n"
)


def main():
    # separate lines: use of n_from_inc on line 5, greeting on line 6
    r_sep, d_sep, _ = run_variant(
        {"main.f90": SEP, "decl_inc.f90": INC},
        [lambda root: ("textDocument/definition", pos(os.path.join(root, "main.f90"), 5, 4)),
         lambda root: ("textDocument/hover", pos(os.path.join(root, "main.f90"), 6, 14))],
        ["main.f90"],
    )
    # joined: use of n_from_inc on line 3, greeting on line 4
    r_join, d_join, _ = run_variant(
        {"main.f90": JOINED, "decl_inc.f90": INC},
        [lambda root: ("textDocument/definition", pos(os.path.join(root, "main.f90"), 3, 4)),
         lambda root: ("textDocument/hover", pos(os.path.join(root, "main.f90"), 4, 14))],
        ["main.f90"],
    )
    def_sep, def_join = loc(r_sep[0]), loc(r_join[0])
    hov_sep, hov_join = hover_text(r_sep[1]), hover_text(r_join[1])
    print("statements on separate lines:")
    print("   definition of n_from_inc ->", def_sep)
    print("   hover on greeting        ->", repr(hov_sep))
    print("same statements joined with ';':")
    print("   definition of n_from_inc ->", def_join)
    print("   hover on greeting        ->", repr(hov_join))
    print("expected: identical results (modulo the line of the hover request)")
    bad = (def_sep != def_join) or (hov_sep != hov_join)
    if def_sep is None or hov_sep is None or "hello" not in (hov_sep or ""):
        print("baseline did not behave as assumed; inconclusive")
        return 0
    print("DEFECT SHOWN" if bad else "no defect")
    return 1 if bad else 0


if __name__ == "__main__":
    sys.exit(main())
