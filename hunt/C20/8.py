#!/venv/bin/python
"""HEAD defect 8: files that #include each other (a.F90 <-> b.h), b.h naming a.F90 twice.
Same mechanism as defect 7 with a cycle of length 2.

Run as: /venv/bin/python <this file>      (drives the fortls code in /repo, read-only)
Prints what happened; exit 1 if the defect shows (hang / error response), 0 otherwise.
"""
import os
import shutil
import signal
import subprocess
import sys
import tempfile

FILES = {'a.F90': '#include "b.h"\nprogram pa\n  integer :: xa\n  xa = BVAL\nend program pa\n',
 'b.h': '#define BVAL 3\n#include "a.F90"\n#include "a.F90"\n'}

# (method, file, 0-based line, 0-based character); didOpen takes only the file
REQUESTS = [('textDocument/didOpen', 'a.F90', 0, 0)]

TIMEOUT = 30

CHILD = r'''
import json, logging, os, sys
logging.disable(logging.CRITICAL)
root, requests = sys.argv[1], json.loads(sys.argv[2])
from fortls.interface import cli
from fortls.jsonrpc import path_to_uri
from fortls.langserver import LangServer


def say(*a):
    print(*a, flush=True)


class Conn:
    def __init__(self):
        self.out = []
    def send_notification(self, method, params):
        self.out.append(("notification", method, params))
    def write_response(self, rid, result):
        self.out.append(("response", rid, result))
    def write_error(self, rid, code, message, data=None):
        self.out.append(("error", rid, message, (data or {}).get("traceback", "")))
    def send_request(self, *a):
        pass


def report(conn):
    bad = 0
    for o in conn.out:
        if o[0] == "error":
            bad = 1
            tb = [l for l in o[3].splitlines() if l.strip()]
            say("   -> ERROR RESPONSE:", o[2])
            for l in tb[-7:]:
                say("        " + l)
        elif o[0] == "notification" and o[1] == "window/showMessage":
            bad = 1
            say("   -> window/showMessage:", o[2]["message"])
        elif o[0] == "response":
            say("   -> ok:", json.dumps(o[2])[:150])
        elif o[0] == "notification" and o[1] == "textDocument/publishDiagnostics":
            say("   -> diagnostics published:", len(o[2]["diagnostics"]))
    conn.out.clear()
    return bad


args = cli("fortls").parse_args(["--nthreads", "1", "--disable_autoupdate"])
conn = Conn()
server = LangServer(conn=conn, settings=vars(args))
say("STAGE initialize (rootPath = scratch dir) ...")
server.handle({"jsonrpc": "2.0", "id": 1, "method": "initialize", "params": {"rootPath": root}})
bad = report(conn)
rid = 1
for method, fname, line, char in requests:
    uri = path_to_uri(os.path.join(root, fname))
    rid += 1
    if method == "textDocument/didOpen":
        say(f"STAGE {method} {fname} ...")
        server.handle({"jsonrpc": "2.0", "method": method, "params": {"textDocument": {"uri": uri}}})
    else:
        say(f"STAGE {method} {fname} line={line} character={char} (0-based) ...")
        server.handle({"jsonrpc": "2.0", "id": rid, "method": method, "params": {
            "textDocument": {"uri": uri}, "position": {"line": line, "character": char}}})
    bad |= report(conn)
say("STAGE done")
sys.exit(bad)
'''


def main():
    import json

    root = tempfile.mkdtemp(dir="/var/tmp", prefix="c20head_")
    try:
        for name, text in FILES.items():
            with open(os.path.join(root, name), "w") as fh:
                fh.write(text)
        env = dict(os.environ, PYTHONPATH="/repo")
        proc = subprocess.Popen(
            ["/venv/bin/python", "-c", CHILD, root, json.dumps(REQUESTS)],
            cwd=root,
            env=env,
            stdout=subprocess.PIPE,
            stderr=subprocess.STDOUT,
            text=True,
            start_new_session=True,  # own process group: the pool workers die with it
        )
        try:
            out, _ = proc.communicate(timeout=TIMEOUT)
            hung = False
        except subprocess.TimeoutExpired:
            os.killpg(proc.pid, signal.SIGKILL)
            out, _ = proc.communicate()
            hung = True
        print(out, end="")
        if hung:
            stages = [l for l in out.splitlines() if l.startswith("STAGE")]
            print(f"HANG: no answer within {TIMEOUT} s, child killed; stuck in: "
                  f"{stages[-1] if stages else 'start-up'}")
            return 1
        print("child exit code", proc.returncode)
        return 1 if proc.returncode else 0
    finally:
        # the process group may still hold a worker for a moment
        try:
            os.killpg(proc.pid, signal.SIGKILL)
        except Exception:
            pass
        shutil.rmtree(root, ignore_errors=True)


if __name__ == "__main__":
    sys.exit(main())
