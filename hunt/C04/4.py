"""Defect 4 (request sequence, --incremental_sync): a single-line edit that REMOVES
a definition (commenting the line out, or deleting its text) is not followed
by a re-parse, because only the NEW text of the line is inspected.  Outline
and workspace symbols keep showing the removed component / procedure.

Run: cd <checkout> && /venv/bin/python 4.py    (exit 1 = defect shows)
"""
import os, shutil, subprocess, sys, tempfile
from io import StringIO

CHECKOUT = os.getcwd()
sys.path.insert(0, CHECKOUT)
from fortls.jsonrpc import (  # noqa: E402
    path_to_uri,
    read_rpc_messages,
    write_rpc_notification,
    write_rpc_request,
)

CHILD = (
    "import sys; sys.path.insert(0, %r); sys.argv[0] = 'fortls'; "
    "import fortls; assert fortls.__file__.startswith(%r), fortls.__file__; "
    "fortls.main()" % (CHECKOUT, CHECKOUT)
)


class Session:
    """Builds one LSP conversation, runs it in a child fortls, returns results."""

    def __init__(self, files):
        self.root = tempfile.mkdtemp(dir="/var/tmp", prefix="hC04_")
        for name, text in files.items():
            with open(os.path.join(self.root, name), "w") as fh:
                fh.write(text)
        self.req = write_rpc_request(1, "initialize", {"rootPath": self.root})
        self.next_id = 2
        self.labels = {}

    def uri(self, name):
        return path_to_uri(os.path.join(self.root, name))

    def notify(self, method, params):
        self.req += write_rpc_notification(method, params)

    def call(self, label, method, params):
        self.req += write_rpc_request(self.next_id, method, params)
        self.labels[self.next_id] = label
        self.next_id += 1

    def did_open(self, name, text):
        self.notify(
            "textDocument/didOpen",
            {"textDocument": {"uri": self.uri(name), "languageId": "fortran",
                              "version": 1, "text": text}},
        )

    def did_change(self, name, changes):
        self.notify(
            "textDocument/didChange",
            {"textDocument": {"uri": self.uri(name), "version": 2},
             "contentChanges": changes},
        )

    def outline(self, label, name):
        self.call(label, "textDocument/documentSymbol",
                  {"textDocument": {"uri": self.uri(name)}})

    def wsym(self, label, query):
        self.call(label, "workspace/symbol", {"query": query})

    def run(self, args=(), timeout=60):
        try:
            req = self.req + write_rpc_request(self.next_id, "shutdown", None)
            req += write_rpc_notification("exit", None)
            proc = subprocess.run(
                [sys.executable, "-c", CHILD, "--disable_autoupdate", *args],
                input=req.encode(), capture_output=True, timeout=timeout,
                cwd=CHECKOUT,
            )
            msgs = read_rpc_messages(StringIO(proc.stdout.decode()))
            out = {}
            for m in msgs:
                if m.get("id") in self.labels:
                    out[self.labels[m["id"]]] = m.get("result", m.get("error"))
            for lab in self.labels.values():
                if lab not in out:
                    print("NO ANSWER for", lab, "stderr:", proc.stderr.decode()[-400:])
                    out[lab] = None
            return out
        finally:
            shutil.rmtree(self.root, ignore_errors=True)


def rows(result):
    """(name, kind, container, first line, last line) 1-based, in server order."""
    if not isinstance(result, list):
        return [("<<%r>>" % (result,),)]
    out = []
    for s in result:
        r = s["location"]["range"]
        out.append((s["name"], s["kind"], s.get("containerName"),
                    r["start"]["line"] + 1, r["end"]["line"] + 1))
    return out


def report(title, expected, observed):
    print("---", title)
    print("  expected:")
    for e in expected:
        print("     ", e)
    print("  observed:")
    for o in observed:
        print("     ", o)
    ok = list(expected) == list(observed)
    print("  ->", "as expected" if ok else "DIFFERENT")
    return ok

SRC = """module m
  type :: t
    integer :: a
    integer :: b
  end type t
contains
  subroutine s1()
  end subroutine s1
  subroutine s2()
  end subroutine s2
end module m
"""


def rng(line, c0, c1):
    return {"start": {"line": line, "character": c0},
            "end": {"line": line, "character": c1}}


s = Session({"a.f90": SRC})
s.did_open("a.f90", SRC)
s.outline("0", "a.f90")
# the editor's "toggle comment": '!' inserted in column 0 of '    integer :: b'
s.did_change("a.f90", [{"range": rng(3, 0, 0), "text": "!"}])
s.outline("1", "a.f90")
# select the text of 'subroutine s2()' and of 'end subroutine s2' and delete it
# (the lines stay, now empty)
s.did_change("a.f90", [{"range": rng(8, 0, len("  subroutine s2()")), "text": ""}])
s.did_change("a.f90", [{"range": rng(9, 0, len("  end subroutine s2")), "text": ""}])
s.outline("2", "a.f90")
s.wsym("ws", "s2")
res = s.run(["--incremental_sync"])

E0 = [("m", 2, None, 1, 11), ("t", 5, "m", 2, 5), ("a", 13, "t", 3, 3),
      ("b", 13, "t", 4, 4), ("s1", 12, "m", 7, 8), ("s2", 12, "m", 9, 10)]
E1 = [r for r in E0 if r[0] != "b"]
E2 = [r for r in E1 if r[0] != "s2"]
ok = report("initial outline", E0, rows(res["0"]))
ok &= report("after commenting out 'integer :: b'", E1, rows(res["1"]))
ok &= report("after emptying both lines of s2", E2, rows(res["2"]))
ok &= report("workspace/symbol 's2' afterwards", [], [r[0] for r in rows(res["ws"])])
sys.exit(0 if ok else 1)
