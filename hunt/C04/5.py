"""Defect 5: workspace/symbol returns the parser's internal placeholder scopes
('#GEN_INT1' for an unnamed / operator / abstract INTERFACE block, '#ENUM1'
for an ENUM) as if they were module members.  No entity of the program has
such a name; a query like 'int' or 'enum' lists them.

Run: cd <checkout> && /venv/bin/python 5.py    (exit 1 = defect shows)
"""
import os, shutil, subprocess, sys, tempfile
from io import StringIO

CHECKOUT = os.getcwd()
sys.path.insert(0, CHECKOUT)
from fortls.jsonrpc import (  # noqa: E402
    path_to_uri,
    read_rpc_messages,
    write_rpc_notification,
    write_rpc_request,
)

CHILD = (
    "import sys; sys.path.insert(0, %r); sys.argv[0] = 'fortls'; "
    "import fortls; assert fortls.__file__.startswith(%r), fortls.__file__; "
    "fortls.main()" % (CHECKOUT, CHECKOUT)
)


class Session:
    """Builds one LSP conversation, runs it in a child fortls, returns results."""

    def __init__(self, files):
        self.root = tempfile.mkdtemp(dir="/var/tmp", prefix="hC04_")
        for name, text in files.items():
            with open(os.path.join(self.root, name), "w") as fh:
                fh.write(text)
        self.req = write_rpc_request(1, "initialize", {"rootPath": self.root})
        self.next_id = 2
        self.labels = {}

    def uri(self, name):
        return path_to_uri(os.path.join(self.root, name))

    def notify(self, method, params):
        self.req += write_rpc_notification(method, params)

    def call(self, label, method, params):
        self.req += write_rpc_request(self.next_id, method, params)
        self.labels[self.next_id] = label
        self.next_id += 1

    def did_open(self, name, text):
        self.notify(
            "textDocument/didOpen",
            {"textDocument": {"uri": self.uri(name), "languageId": "fortran",
                              "version": 1, "text": text}},
        )

    def did_change(self, name, changes):
        self.notify(
            "textDocument/didChange",
            {"textDocument": {"uri": self.uri(name), "version": 2},
             "contentChanges": changes},
        )

    def outline(self, label, name):
        self.call(label, "textDocument/documentSymbol",
                  {"textDocument": {"uri": self.uri(name)}})

    def wsym(self, label, query):
        self.call(label, "workspace/symbol", {"query": query})

    def run(self, args=(), timeout=60):
        try:
            req = self.req + write_rpc_request(self.next_id, "shutdown", None)
            req += write_rpc_notification("exit", None)
            proc = subprocess.run(
                [sys.executable, "-c", CHILD, "--disable_autoupdate", *args],
                input=req.encode(), capture_output=True, timeout=timeout,
                cwd=CHECKOUT,
            )
            msgs = read_rpc_messages(StringIO(proc.stdout.decode()))
            out = {}
            for m in msgs:
                if m.get("id") in self.labels:
                    out[self.labels[m["id"]]] = m.get("result", m.get("error"))
            for lab in self.labels.values():
                if lab not in out:
                    print("NO ANSWER for", lab, "stderr:", proc.stderr.decode()[-400:])
                    out[lab] = None
            return out
        finally:
            shutil.rmtree(self.root, ignore_errors=True)


def rows(result):
    """(name, kind, container, first line, last line) 1-based, in server order."""
    if not isinstance(result, list):
        return [("<<%r>>" % (result,),)]
    out = []
    for s in result:
        r = s["location"]["range"]
        out.append((s["name"], s["kind"], s.get("containerName"),
                    r["start"]["line"] + 1, r["end"]["line"] + 1))
    return out


def report(title, expected, observed):
    print("---", title)
    print("  expected:")
    for e in expected:
        print("     ", e)
    print("  observed:")
    for o in observed:
        print("     ", o)
    ok = list(expected) == list(observed)
    print("  ->", "as expected" if ok else "DIFFERENT")
    return ok

SRC = """module ops
  implicit none
  type :: vec
    real :: x
  end type vec
  interface operator(+)
    module procedure add_vec
  end interface
  abstract interface
    subroutine callback(x)
      real :: x
    end subroutine callback
  end interface
  enum, bind(c)
    enumerator :: red = 1, green
  end enum
  integer :: print_level
contains
  function add_vec(a, b) result(c)
    type(vec), intent(in) :: a, b
    type(vec) :: c
    c%x = a%x + b%x
  end function add_vec
end module ops
"""
s = Session({"ops.f90": SRC})
s.wsym("int", "int")
s.wsym("enum", "enum")
s.wsym("all", "")
res = s.run()
ok = report("workspace/symbol 'int'", ["print_level"], [r[0] for r in rows(res["int"])])
ok &= report("workspace/symbol 'enum'", [], [r[0] for r in rows(res["enum"])])
allnames = [r[0] for r in rows(res["all"])]
placeholders = [n for n in allnames if n.startswith("#")]
ok &= report("placeholder names in workspace/symbol ''", [], placeholders)
sys.exit(0 if ok else 1)
