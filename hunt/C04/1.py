"""Defect 1: text sent by the client (didOpen / full-text didChange) keeps its TAB
characters, while the parser's regexes only accept blanks.  A tab-indented
file loses every indented procedure from the outline as soon as it is opened.

Run: cd <checkout> && /venv/bin/python 1.py    (exit 1 = defect shows)
"""
import os, shutil, subprocess, sys, tempfile
from io import StringIO

CHECKOUT = os.getcwd()
sys.path.insert(0, CHECKOUT)
from fortls.jsonrpc import (  # noqa: E402
    path_to_uri,
    read_rpc_messages,
    write_rpc_notification,
    write_rpc_request,
)

CHILD = (
    "import sys; sys.path.insert(0, %r); sys.argv[0] = 'fortls'; "
    "import fortls; assert fortls.__file__.startswith(%r), fortls.__file__; "
    "fortls.main()" % (CHECKOUT, CHECKOUT)
)


class Session:
    """Builds one LSP conversation, runs it in a child fortls, returns results."""

    def __init__(self, files):
        self.root = tempfile.mkdtemp(dir="/var/tmp", prefix="hC04_")
        for name, text in files.items():
            with open(os.path.join(self.root, name), "w") as fh:
                fh.write(text)
        self.req = write_rpc_request(1, "initialize", {"rootPath": self.root})
        self.next_id = 2
        self.labels = {}

    def uri(self, name):
        return path_to_uri(os.path.join(self.root, name))

    def notify(self, method, params):
        self.req += write_rpc_notification(method, params)

    def call(self, label, method, params):
        self.req += write_rpc_request(self.next_id, method, params)
        self.labels[self.next_id] = label
        self.next_id += 1

    def did_open(self, name, text):
        self.notify(
            "textDocument/didOpen",
            {"textDocument": {"uri": self.uri(name), "languageId": "fortran",
                              "version": 1, "text": text}},
        )

    def did_change(self, name, changes):
        self.notify(
            "textDocument/didChange",
            {"textDocument": {"uri": self.uri(name), "version": 2},
             "contentChanges": changes},
        )

    def outline(self, label, name):
        self.call(label, "textDocument/documentSymbol",
                  {"textDocument": {"uri": self.uri(name)}})

    def wsym(self, label, query):
        self.call(label, "workspace/symbol", {"query": query})

    def run(self, args=(), timeout=60):
        try:
            req = self.req + write_rpc_request(self.next_id, "shutdown", None)
            req += write_rpc_notification("exit", None)
            proc = subprocess.run(
                [sys.executable, "-c", CHILD, "--disable_autoupdate", *args],
                input=req.encode(), capture_output=True, timeout=timeout,
                cwd=CHECKOUT,
            )
            msgs = read_rpc_messages(StringIO(proc.stdout.decode()))
            out = {}
            for m in msgs:
                if m.get("id") in self.labels:
                    out[self.labels[m["id"]]] = m.get("result", m.get("error"))
            for lab in self.labels.values():
                if lab not in out:
                    print("NO ANSWER for", lab, "stderr:", proc.stderr.decode()[-400:])
                    out[lab] = None
            return out
        finally:
            shutil.rmtree(self.root, ignore_errors=True)


def rows(result):
    """(name, kind, container, first line, last line) 1-based, in server order."""
    if not isinstance(result, list):
        return [("<<%r>>" % (result,),)]
    out = []
    for s in result:
        r = s["location"]["range"]
        out.append((s["name"], s["kind"], s.get("containerName"),
                    r["start"]["line"] + 1, r["end"]["line"] + 1))
    return out


def report(title, expected, observed):
    print("---", title)
    print("  expected:")
    for e in expected:
        print("     ", e)
    print("  observed:")
    for o in observed:
        print("     ", o)
    ok = list(expected) == list(observed)
    print("  ->", "as expected" if ok else "DIFFERENT")
    return ok

SRC = (
    "module m\n"
    "contains\n"
    "\tsubroutine s1()\n"
    "\tend subroutine s1\n"
    "\tsubroutine s2()\n"
    "\tend subroutine s2\n"
    "end module m\n"
)
EXPECTED = [
    ("m", 2, None, 1, 7),
    ("s1", 12, "m", 3, 4),
    ("s2", 12, "m", 5, 6),
]

s = Session({"tabs.f90": SRC})
s.outline("disk", "tabs.f90")
s.did_open("tabs.f90", SRC)  # exactly the bytes that are on disk
s.outline("opened", "tabs.f90")
s.wsym("ws", "s")
res = s.run()

ok1 = report("outline from disk, before didOpen", EXPECTED, rows(res["disk"]))
ok2 = report("outline after didOpen with identical text", EXPECTED, rows(res["opened"]))
ok3 = report(
    "workspace/symbol 's' after didOpen",
    ["s1", "s2"],
    [r[0] for r in rows(res["ws"])],
)
sys.exit(0 if (ok1 and ok2 and ok3) else 1)
