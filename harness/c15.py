"""C15: the start-up index does not depend on workers, enumeration order or hash seed."""
from __future__ import annotations

import itertools
import json
import os
import random
import subprocess
import sys

from . import adapter, c10, tlc
from .common import Check, VERIF

W1 = {"a.f90": c10.A[1], "b.f90": c10.B[1], "c.f90": c10.C[1]}
W2 = {
    "inc_types.f90": "type :: shape_t\n  integer :: sides\n  real :: area\nend type shape_t\n",
    "base.f90": "module base_m\n  implicit none\n  include 'inc_types.f90'\nend module base_m\n",
    "derived.f90": "module derived_m\n  use base_m\n  implicit none\n  type, extends(shape_t) :: square_t\n    real :: w\n  end type square_t\nend module derived_m\n",
    "main.f90": "program main\n  use derived_m\n  implicit none\n  type(square_t) :: sq\n  sq%sides = 4\n  sq%w = 1.0\n  sq%area = 1.0\nend program main\n",
}
W3 = {
    "par.f90": "module par_m\n  implicit none\n  interface\n    module subroutine work(alpha, beta)\n      integer, intent(in) :: alpha\n      real, intent(out) :: beta\n    end subroutine work\n    module function twice(x) result(y)\n      integer, intent(in) :: x\n      integer :: y\n    end function twice\n  end interface\nend module par_m\n",
    "sub.f90": "submodule (par_m) sub_m\n  implicit none\ncontains\n  module procedure work\n    beta = real(alpha)\n  end procedure work\n  module procedure twice\n    y = 2 * x\n  end procedure twice\nend submodule sub_m\n",
    "use.f90": "program user\n  use par_m\n  implicit none\n  real :: r\n  call work(1, r)\n  print *, twice(2)\nend program user\n",
    "deep.f90": "module deep_m\n  use par_m\n  implicit none\n  type :: t0\n    integer :: k0\n  end type t0\n  type, extends(t0) :: t1\n    integer :: k1\n  end type t1\nend module deep_m\n",
    "deeper.f90": "module deeper_m\n  use deep_m\n  implicit none\n  type, extends(t1) :: t2\n    integer :: k2\n  end type t2\ncontains\n  subroutine s(v)\n    type(t2) :: v\n    v%k0 = 1\n    v%k1 = 2\n    v%k2 = 3\n  end subroutine s\nend module deeper_m\n",
}
# a user module that has the name of a bundled intrinsic module (a serial stub of omp_lib): the names of the
# workspace's own units are unique, the intrinsic one is in the object tree before indexing starts
W4 = {
    "omp_lib.f90": "module omp_lib\n  implicit none\n  integer, parameter :: my_threads = 4\ncontains\n  integer function omp_get_thread_num()\n    omp_get_thread_num = 0\n  end function omp_get_thread_num\n  integer function stub_only(k)\n    integer, intent(in) :: k\n    stub_only = k\n  end function stub_only\nend module omp_lib\n",
    "solver.f90": "module solver_m\n  use omp_lib\n  implicit none\ncontains\n  subroutine run(n)\n    integer, intent(out) :: n\n    n = my_threads + omp_get_thread_num() + stub_only(2)\n  end subroutine run\nend module solver_m\n",
    "main.f90": "program main\n  use solver_m\n  use omp_lib, only: my_threads\n  implicit none\n  integer :: n\n  call run(n)\n  print *, n, my_threads\nend program main\n",
}
WORKSPACES = {"types": W1, "include+extends": W2, "submodule+chain": W3, "shadows-intrinsic": W4}


def run_cfg(cfg, hashseed):
    env = dict(os.environ, PYTHONHASHSEED=str(hashseed))
    p = subprocess.run([sys.executable, os.path.join(VERIF, "harness", "c15_child.py"), json.dumps(cfg)], capture_output=True, text=True, env=env, timeout=300, cwd=VERIF)
    for line in p.stdout.splitlines():
        if line.startswith("BATTERY"):
            return json.loads(line[7:])
    return {"__failed__": (p.stderr or p.stdout)[-400:]}


def main(tier, seed):
    ck = Check("C15", tier, seed)
    rnd = random.Random(seed)
    ck.assumptions = [
        "real worker schedules cannot be forced: TLC covers every interleaving of the InitIndex.tla model (and refutes the named deviation linkWhileMerging); the implementation is sampled over the knobs that influence the schedule - worker count, enumeration order (os.listdir/os.walk permuted inside the child), PYTHONHASHSEED - and over every opening order of the one-at-a-time path",
        "workspaces with unique top-level names and cross-file USE, EXTENDS (3 levels), INCLUDE of a workspace file, SUBMODULE with module procedures, a user module named like a bundled intrinsic module",
    ]
    for cfg in ("InitIndex_MC.cfg", "InitIndex_MC2.cfg"):
        r = tlc.mc("InitIndex", cfg, required_actions=["Dispatch", "Finish", "Merge", "ResolveLinks", "OpenOne"], timeout=600)
        ck.add_tlc(cfg, r)
        if not r.ok:
            ck.machinery("%s violated %s" % (cfg, r.violated))
            return ck.finish()
    rr = tlc.run("InitIndex", "InitIndex_Dev.cfg", timeout=300)
    ck.add_tlc("InitIndex_Dev (expected counterexample)", rr)
    if rr.ok:
        ck.machinery("model self-test: linkWhileMerging not refuted")
    from concurrent.futures import ThreadPoolExecutor
    total = 0
    for wname, files in WORKSPACES.items():
        d = adapter.mkws(files)
        empty = adapter.mkws({})
        try:
            names = sorted(files)
            perms = list(itertools.permutations(names))
            rnd.shuffle(perms)
            nperm = 6 if tier == "quick" else min(len(perms), 60)
            cfgs = []
            for i, order in enumerate(perms[:nperm]):
                cfgs.append(({"root": d, "empty_root": empty, "path": "pool", "nthreads": [1, 2, 3, 4, 8, 16][i % 6], "order": list(order)}, i % 3))
                cfgs.append(({"root": d, "empty_root": empty, "path": "oneByOne", "nthreads": 1, "order": list(order)}, (i + 1) % 3))
            with ThreadPoolExecutor(max_workers=8) as ex:
                bats = list(ex.map(lambda c: run_cfg(c[0], c[1]), cfgs))
            ref = None
            for (cfg, hs), b in zip(cfgs, bats):
                total += 1
                ck.count(key=(wname, json.dumps(cfg, sort_keys=True), hs))
                tags0 = {"workspace:" + wname, "path:" + cfg["path"]}
                if "__failed__" in b:
                    ck.violation(tags0 | {"child:failed"}, {"kind": "config", "workspace": wname, "cfg": cfg, "hashseed": hs, "detail": b["__failed__"]})
                    continue
                if ref is None:
                    ref = (cfg, hs, b)
                    ck.traces += 1
                    continue
                if b != ref[2]:
                    keys = sorted(k for k in set(b) | set(ref[2]) if b.get(k) != ref[2].get(k))
                    ck.violation(tags0 | {"diff:" + k.split(":")[0] for k in keys},
                                 {"kind": "config", "workspace": wname, "cfg": cfg, "hashseed": hs, "reference_cfg": ref[0], "differing": keys[:30],
                                  "sample": {k: {"this": b.get(k), "reference": ref[2].get(k)} for k in keys[:3]}})
                else:
                    ck.traces += 1
            ck.sample({"workspace": wname, "files": names, "configurations": len(cfgs), "answers_compared": len(ref[2]) if ref else 0})
        finally:
            adapter.rmws(d)
            adapter.rmws(empty)
    ck.note("configurations", total)
    return ck.finish()


def replay(path):
    rec = json.load(open(path))
    print(json.dumps(rec, indent=1)[:3000])
    return 1
