"""C02: server-side document text equals the client's after any edit sequence.

Decided by DocText.tla:
  1. TLC checks the specification's own laws (DocText_MC.cfg).
  2. spec -> code: every (document, edit) transition instance TLC enumerates
     (DocText_Gen_*.cfg) is replayed into FortranFile.apply_change and the
     resulting line list is compared with the spec state.
  3. spec -> code through the live server: TLC -simulate behaviours (edit
     sequences) replayed through didOpen/didChange, multi-change notifications.
  4. code -> spec: a random editor runs against the live server on sample
     sources; the recorded (edit, server post-state) traces are validated by
     TLC against DocTextTrace.tla.
"""
from __future__ import annotations

import json
import os
import random

from . import adapter, par, tlc
from .common import Check, REPO

EOL = {"LF": "\n", "CRLF": "\r\n", "CR": "\r"}


def render(tl, te):
    out = []
    for i, ln in enumerate(tl):
        out.append("".join(ln))
        if i < len(te):
            out.append(EOL[te[i]])
    return "".join(out)


def strs(tl):
    return ["".join(x) for x in tl]


def edit_tags(e):
    tags = {"action:" + e["k"]}
    if e["k"] not in ("open", "save", "reopen"):
        if e["k"] == "opendirty":
            return tags
        te = e["te"]
        if te and e["tl"][-1] == []:
            tags.add("text:endsInBreak")
        if te:
            tags.add("text:multiline")
    return tags


def lsp_change(e):
    text = render(e["tl"], e["te"])
    if e["k"] == "full":
        return {"text": text}
    return {"range": {"start": {"line": e["sl"], "character": e["sc"]},
                      "end": {"line": e["el"], "character": e["ec"]}}, "text": text}


def describe_diff(exp, got):
    tags = set()
    if len(got) == len(exp) + 1 and got[:-1] == exp and got[-1] == "":
        tags.add("diff:extraEmptyLineAtEnd")
    elif len(got) == len(exp) + 1:
        tags.add("diff:oneExtraLine")
    elif len(got) != len(exp):
        tags.add("diff:lineCount")
    else:
        tags.add("diff:lineContent")
    return tags


def replay_transition(FortranFile, st):
    f = FortranFile("/nonexistent/x.f90")
    f.set_contents(strs(st["pl"]))
    f.apply_change(lsp_change(st["edit"]))
    return list(f.contents_split)


def main(tier, seed):
    from fortls.parsers.internal.parser import FortranFile

    ck = Check("C02", tier, seed)
    ck.assumptions = [
        "alphabet {a,b} x breaks {LF,CRLF,CR}: apply_change treats all non-break characters alike",
        "ranges lie inside the current document (property's quantifier); positions past the last line are not generated",
        "tabs are outside the alphabet (fortls replaces them by blanks on load by design)",
        "didOpen carries no text in most sessions (the server reads the file); the OpenDirty action re-opens the document with a buffer that differs from the file",
    ]
    rnd = random.Random(seed)

    # 1. the specification's own laws
    r = tlc.mc("DocText", "DocText_MC.cfg" if tier == "quick" else "DocText_MC_thorough.cfg", required_actions=["DoFull", "DoRange", "DoSplitPair", "Reopen"], timeout=600 if tier == "quick" else 3000)
    ck.add_tlc("DocText_MC", r)
    if not r.ok:
        ck.machinery("DocText_MC violated %s (specification bug)" % r.violated)
        return ck.finish()

    # 2. every transition instance -> FortranFile.apply_change
    gen_cfg = "DocText_Gen_%s.cfg" % tier
    n = 0
    opened = 0
    kinds = {}
    info = {}
    for st in tlc.dump_states("DocText", gen_cfg, timeout=3000, info=info):
        e = st["edit"]
        kinds[e["k"]] = kinds.get(e["k"], 0) + 1
        if e["k"] == "open":
            # Open action: file on disk -> load_from_disk
            d = adapter.mkws({"o.f90": render(st["lines"], st["eols"]).encode()})
            try:
                f = FortranFile(os.path.join(d, "o.f90"))
                f.load_from_disk()
                got = list(f.contents_split)
            finally:
                adapter.rmws(d)
            opened += 1
        else:
            got = replay_transition(FortranFile, st)
        exp = strs(st["lines"])
        n += 1
        ck.count(nontrivial=False)
        if got != exp:
            tags = edit_tags(e) | describe_diff(exp, got) | {"binding:apply_change"}
            ck.violation(tags, {"kind": "transition", "state": st, "expected": exp, "observed": got})
        if n % 40000 == 1:
            ck.sample({"before": strs(st["pl"]), "breaks_before": st["pe"], "edit": e, "expected_after": exp})
    ck.add_tlc(gen_cfg, info["result"])
    ck.traces += n
    ck.distinct_extra += n - opened  # TLC's dump lists distinct states = distinct (doc, edit) pairs
    ck.note("transition_instances_by_action", kinds)
    ck.note("exhaustive", True)

    # 2b. one edit, then close without saving and re-open: the server must show the file on disk again
    info = {}
    n2 = 0
    reopen_states = [st for st in tlc.dump_states("DocText", "DocText_Gen2.cfg", timeout=3000, info=info,
                                                  prefilter=lambda t: '"reopen"' in t)]
    ck.add_tlc("DocText_Gen2", info["result"])
    step = 1 if tier == "thorough" else 6
    for i, status, val in par.pmap(reopen_session, reopen_states[::step], item_timeout=120):
        st = reopen_states[::step][i]
        n2 += 1
        ck.count(key=("reopen", repr(st["edit"]["prev"]), repr(st["disk"])))
        if status != "done":
            ck.violation({"session:" + status, "action:reopen"}, {"kind": "reopen", "state": st, "detail": val})
        elif val is not None:
            ck.violation({"action:reopen", "binding:didClose+didOpen", "prev:" + st["edit"]["prev"]["k"],
                          "prevtext:" + ("multiline" if st["edit"]["prev"]["te"] else "singleline")} | describe_diff(val[0], val[1]),
                         {"kind": "reopen", "state": st, "expected": val[0], "observed": val[1]})
        else:
            ck.traces += 1
    ck.note("reopen_sessions", n2)

    # 3. edit sequences through the live server
    nsim = 150 if tier == "quick" else 1500
    behs = tlc.simulate("DocText", "DocText_Sim.cfg", num=nsim, depth=9, seed=seed + 1, timeout=900)
    for bi, beh in enumerate(behs):
        run_session(ck, beh, rnd, full_sync=(bi % 5 == 4))
    ck.note("server_sessions", len(behs))

    # 4. random editor on sample sources, validated by TLC
    trace_validation(ck, rnd, tier)
    return ck.finish()


def reopen_session(st):
    """didOpen, one didChange, didClose (no save), didOpen: returns None if the server shows the disk text."""
    disk = st["disk"]
    d = adapter.mkws({"s.f90": render(disk["tl"], disk["te"]).encode()})
    try:
        s, c = adapter.mkserver(d)
        path = os.path.join(d, "s.f90")
        adapter.did_open(s, c, d, "s.f90")
        prev = st["edit"]["prev"]
        if prev["k"] == "opendirty":
            # the document was (re)opened with a buffer that differs from the file: close, open with that text
            adapter.notify(s, c, "textDocument/didClose", {"textDocument": {"uri": adapter.uri(d, "s.f90")}})
            adapter.did_open(s, c, d, "s.f90", text=render(prev["tl"], prev["te"]))
            mid = list(s.workspace[path].contents_split)
            if mid != strs(st["pl"]):
                return (strs(st["pl"]), mid)
        else:
            adapter.notify(s, c, "textDocument/didChange", {"textDocument": {"uri": adapter.uri(d, "s.f90")},
                                                             "contentChanges": [lsp_change(prev)]})
        adapter.notify(s, c, "textDocument/didClose", {"textDocument": {"uri": adapter.uri(d, "s.f90")}})
        adapter.did_open(s, c, d, "s.f90")
        got = list(s.workspace[path].contents_split)
        exp = strs(st["lines"])
        return None if got == exp else (exp, got)
    finally:
        adapter.rmws(d)


def run_session(ck, beh, rnd, full_sync=False):
    st0 = beh[0][1]
    d = adapter.mkws({"s.f90": render(st0["lines"], st0["eols"]).encode()})
    try:
        s, c = adapter.mkserver(d, args="" if not full_sync else "--sync_type 1" if False else "")
        if full_sync:
            s.sync_type = 1
        path = os.path.join(d, "s.f90")
        adapter.did_open(s, c, d, "s.f90")
        fo = s.workspace.get(path)
        steps = beh[1:]
        i = 0
        while i < len(steps):
            kind = steps[i][1]["edit"]["k"]
            if kind in ("save", "reopen", "opendirty"):
                group = steps[i:i + 1]
                i += 1
                st1 = group[0][1]
                changes = [kind]
                if kind == "save":
                    with open(path, "w", newline="") as fh:
                        fh.write(render(st1["lines"], st1["eols"]))
                    adapter.notify(s, c, "textDocument/didSave", {"textDocument": {"uri": adapter.uri(d, "s.f90")}})
                elif kind == "opendirty":
                    adapter.notify(s, c, "textDocument/didClose", {"textDocument": {"uri": adapter.uri(d, "s.f90")}})
                    adapter.did_open(s, c, d, "s.f90", text=render(st1["lines"], st1["eols"]))
                else:
                    adapter.notify(s, c, "textDocument/didClose", {"textDocument": {"uri": adapter.uri(d, "s.f90")}})
                    adapter.did_open(s, c, d, "s.f90")
                fo = s.workspace.get(path)
            else:
                k = rnd.choice([1, 1, 2, 3])
                group = []
                while i < len(steps) and len(group) < k and steps[i][1]["edit"]["k"] not in ("save", "reopen", "opendirty"):
                    group.append(steps[i])
                    i += 1
                if full_sync:
                    # full synchronisation: every element is the whole new text, applied in order (the last one stays)
                    changes = [{"text": render(g[1]["lines"], g[1]["eols"])} for g in group]
                else:
                    changes = [lsp_change(g[1]["edit"]) for g in group]
                adapter.notify(s, c, "textDocument/didChange",
                               {"textDocument": {"uri": adapter.uri(d, "s.f90")}, "contentChanges": changes})
            exp = strs(group[-1][1]["lines"])
            got = list(fo.contents_split)
            ck.count(key=("sess", repr(changes), tuple(exp)))
            if got != exp:
                tags = set()
                for g in group:
                    tags |= edit_tags(g[1]["edit"])
                if full_sync and kind not in ("save", "reopen", "opendirty"):
                    last = group[-1][1]
                    tags = {"action:full"} | ({"text:endsInBreak", "text:multiline"} if last["lines"][-1] == [] and last["eols"] else set()) \
                        | ({"changes:several"} if len(group) > 1 else set())
                tags |= describe_diff(exp, got) | {"binding:didChange"}
                ck.violation(tags, {"kind": "session", "initial": render(st0["lines"], st0["eols"]),
                                    "changes": changes, "expected": exp, "observed": got,
                                    "behaviour": [b[1]["edit"] for b in beh]})
                break
        ck.traces += 1
    finally:
        adapter.rmws(d)


# ---------------------------------------------------------------------------
def ref_apply(text, ch):
    """Client-side string splice, used by the random editor only to keep track of
    valid positions (the verdict is TLC's, from DocTextTrace)."""
    if "range" not in ch:
        return ch["text"]
    lines = text.split("\n")  # editor documents use LF only

    def off(p):
        return sum(len(x) + 1 for x in lines[:p["line"]]) + p["character"]

    a, b = off(ch["range"]["start"]), off(ch["range"]["end"])
    return text[:a] + ch["text"].replace("\r\n", "\n") + text[b:]


SNIPPETS = ["x", "  call foo(a, b)", "integer :: i", "\n", "\r\n", "end do\n", "\n  real :: q", "a = b + c\n\n", "! c", "&\n   & z"]


def structured(text):
    """text -> (tl as code lists, te) with breaks LF / CRLF."""
    tl, te = [[]], []
    i = 0
    while i < len(text):
        if text.startswith("\r\n", i):
            te.append("CRLF")
            tl.append([])
            i += 2
        elif text[i] == "\n":
            te.append("LF")
            tl.append([])
            i += 1
        else:
            tl[-1].append(min(ord(text[i]), 65535))
            i += 1
    return tl, te


def codes(line):
    return [min(ord(ch), 65535) for ch in line]


def record_trace(src_text, nsteps, rnd):
    d = adapter.mkws({"t.f90": src_text})
    try:
        s, c = adapter.mkserver(d)
        adapter.did_open(s, c, d, "t.f90")
        fo = s.workspace.get(os.path.join(d, "t.f90"))
        client = src_text
        init = [codes(x) for x in fo.contents_split]
        events = []
        for _ in range(nsteps):
            lines = client.split("\n")
            kind = rnd.random()
            if kind < 0.04:
                newtext = rnd.choice(["program p\nend program p\n", "", client[: len(client) // 2]])
                ch = {"text": newtext}
            else:
                sl = rnd.randrange(len(lines))
                el = min(len(lines) - 1, sl + rnd.choice([0, 0, 0, 1, 2]))
                sc = rnd.randint(0, len(lines[sl]))
                ec = rnd.randint(sc if el == sl else 0, len(lines[el]))
                mode = rnd.random()
                if mode < 0.35:
                    el, ec = sl, sc  # pure insertion
                text = "" if 0.35 <= mode < 0.55 else rnd.choice(SNIPPETS)
                ch = {"range": {"start": {"line": sl, "character": sc}, "end": {"line": el, "character": ec}}, "text": text}
            adapter.notify(s, c, "textDocument/didChange",
                           {"textDocument": {"uri": adapter.uri(d, "t.f90")}, "contentChanges": [ch]})
            client = ref_apply(client, ch)
            tl, te = structured(ch["text"])
            post = list(fo.contents_split)
            ev = {"k": "range" if "range" in ch else "full", "tl": tl, "te": te,
                  "post_n": len(post), "post_lens": [len(x) for x in post]}
            if "range" in ch:
                r = ch["range"]
                ev.update(sl=r["start"]["line"], sc=r["start"]["character"], el=r["end"]["line"], ec=r["end"]["character"])
                ev["post_touch"] = [codes(x) for x in post[ev["sl"]: ev["sl"] + len(tl)]]
            else:
                ev.update(sl=0, sc=0, el=0, ec=0, post_touch=[])
            events.append(ev)
        return {"init": init, "events": events}
    finally:
        adapter.rmws(d)


def sample_sources(maxlines, limit, rnd):
    src = os.path.join(REPO, "test", "test_source")
    out = []
    for root, _d, files in sorted(os.walk(src)):
        for fn in sorted(files):
            if not fn.lower().endswith((".f90", ".f", ".f08", ".f03")):
                continue
            p = os.path.join(root, fn)
            try:
                t = open(p, encoding="utf-8").read()
            except (OSError, UnicodeDecodeError):
                continue
            t = t.replace("\r\n", "\n").replace("\r", "\n").replace("\t", " ")
            if 3 <= t.count("\n") <= maxlines and all(ord(ch) < 128 for ch in t):
                out.append((os.path.relpath(p, src), t))
    rnd.shuffle(out)
    return out[:limit]


def trace_validation(ck, rnd, tier):
    nfiles, nsteps = (10, 60) if tier == "quick" else (40, 300)
    srcs = sample_sources(60, nfiles, rnd)
    traces = [record_trace(t, nsteps, rnd) for _n, t in srcs]
    check_traces(ck, traces, [n for n, _t in srcs])
    # binding self-test: corrupt one recorded field of an accepted trace -> must be rejected
    import copy
    bad = copy.deepcopy(traces[0])
    bad["events"][len(bad["events"]) // 2]["post_n"] += 1
    reached, _r = tlc.validate_traces("DocTextTrace", "DocTextTrace.cfg", {"traces": [bad]})
    if reached.get(1, 0) == len(bad["events"]) + 1:
        ck.machinery("binding self-test: corrupted trace was accepted by DocTextTrace")
    ck.note("binding_selftest", "corrupted post_n rejected at event %s" % reached.get(1))


def check_traces(ck, traces, names):
    reached, r = tlc.validate_traces("DocTextTrace", "DocTextTrace.cfg", {"traces": traces}, timeout=1800)
    ck.add_tlc("DocTextTrace", r)
    for i, tr in enumerate(traces, 1):
        got = reached.get(i, 0)
        ck.count(key=("trace", names[i - 1], len(tr["events"])), n=len(tr["events"]))
        if got == len(tr["events"]) + 1:
            ck.traces += 1
            continue
        ev = tr["events"][got - 1] if 1 <= got <= len(tr["events"]) else None
        tags = {"binding:trace"}
        if ev:
            tags.add("action:" + ev["k"])
            if ev["te"] and ev["tl"][-1] == []:
                tags.add("text:endsInBreak")
        ck.violation(tags, {"kind": "trace", "file": names[i - 1], "first_unexplained_event_index": got, "event": ev})
    ck.note("editor_traces", {"files": names, "events_per_trace": len(traces[0]["events"]) if traces else 0})


def replay(path):
    from fortls.parsers.internal.parser import FortranFile

    rec = json.load(open(path))
    if rec["kind"] == "transition":
        got = replay_transition(FortranFile, rec["state"])
        print("expected", rec["expected"])
        print("observed", got)
        return 0 if got == rec["expected"] else 1
    if rec["kind"] == "session":
        d = adapter.mkws({"s.f90": rec["initial"].encode()})
        try:
            s, c = adapter.mkserver(d)
            adapter.did_open(s, c, d, "s.f90")
            # the replay record holds only the failing notification; earlier ones are in 'behaviour'
            print("behaviour", rec["behaviour"])
            print("expected", rec["expected"], "observed(at record time)", rec["observed"])
        finally:
            adapter.rmws(d)
        return 1
    print(json.dumps(rec, indent=1))
    return 1
