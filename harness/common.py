"""Check skeleton shared by all properties: evidence, known findings, replays."""
from __future__ import annotations

import hashlib
import json
import os
import sys
import time

VERIF = os.path.dirname(os.path.dirname(os.path.abspath(__file__)))
REPO = os.environ.get("VERIF_REPO", "/repo")


def OUT(sub):
    """evidence/ and replays/ live in /verif; the seeded-change runner redirects them (VERIF_OUT) so that runs
    against a patched scratch copy of the repository never overwrite the evidence of the real tree"""
    return os.path.join(os.environ.get("VERIF_OUT") or VERIF, sub)


def load_known():
    p = os.path.join(VERIF, "known_findings.json")
    if not os.path.exists(p):
        return []
    return json.load(open(p)).get("findings", [])


class Check:
    def __init__(self, pid: str, tier: str, seed: int, level="model_checking"):
        self.pid = pid
        self.tier = tier
        self.seed = seed
        self.level = level
        self.t0 = time.time()
        self.states = 0
        self.transitions = 0
        self.traces = 0  # spec behaviours replayed into the code + impl traces accepted by a trace spec
        self.evaluations = 0
        self.distinct = set()
        self.distinct_extra = 0
        self.samples = []
        self.assumptions = []
        self.extra = {}
        self.violations = 0
        self.known_hits = {}
        self.known = [k for k in load_known() if k["property"] == pid]
        self.machinery_errors = []
        self.tlc_runs = []
        self.max_report = 8
        self.viol_classes = {}

    # ---- bookkeeping -------------------------------------------------
    def add_tlc(self, name, r):
        self.states += r.distinct
        self.transitions += r.generated
        self.tlc_runs.append({"run": name, "distinct_states": r.distinct, "states_generated": r.generated,
                              "wall_s": round(r.wall, 1),
                              "action_coverage": {k: v[1] for k, v in sorted(r.coverage.items())}})

    def count(self, key=None, n=1, nontrivial=True):
        self.evaluations += n
        if nontrivial:
            if key is None:
                self.distinct_extra += n
            else:
                self.distinct.add(hashlib.md5(repr(key).encode()).digest()[:8])

    def sample(self, x, limit=4):
        if len(self.samples) < limit:
            self.samples.append(x)

    def note(self, k, v):
        self.extra[k] = v

    # ---- verdicts ----------------------------------------------------
    def violation(self, tags, record):
        """tags: set of strings describing the failing behaviour at spec level
        plus the observed failure kind.  A known finding matches iff all its
        tags are present."""
        tags = set(tags)
        for k in self.known:
            if set(k["tags"]) <= tags:
                if k["id"] not in self.known_hits:
                    self.known_hits[k["id"]] = 0
                self.known_hits[k["id"]] += 1
                return "known"
        self.violations += 1
        key = ' '.join(sorted(tags))
        self.viol_classes[key] = self.viol_classes.get(key, 0) + 1
        if self.viol_classes[key] == 1 and len(self.viol_classes) <= self.max_report:
            record = dict(record)
            record["property"] = self.pid
            record["tags"] = sorted(tags)
            blob = json.dumps(record, sort_keys=True, default=str)
            h = hashlib.sha1(blob.encode()).hexdigest()[:10]
            os.makedirs(OUT("replays"), exist_ok=True)
            path = os.path.join(OUT("replays"), "%s-%s.json" % (self.pid, h))
            with open(path, "w") as fh:
                fh.write(json.dumps(record, indent=1, sort_keys=True, default=str))
            print("VIOLATION property=%s replay=%s" % (self.pid, path), flush=True)
            print("  tags: %s" % " ".join(sorted(tags)), flush=True)
        return "violation"

    def machinery(self, msg):
        self.machinery_errors.append(msg)
        print("MACHINERY-FAILURE %s: %s" % (self.pid, msg), file=sys.stderr, flush=True)

    def finish(self):
        for k in self.known:
            if k["id"] in self.known_hits:
                print("KNOWN-FINDING: property=%s %s [%s; %d instance(s) this run]"
                      % (self.pid, k["what"], k["id"], self.known_hits[k["id"]]), flush=True)
        cov = {
            "states": self.states,
            "transitions": self.transitions,
            "traces_validated_against_impl": self.traces,
            "evaluations": self.evaluations,
            "distinct_nontrivial": len(self.distinct) + self.distinct_extra,
            "rule": self.extra.pop("rule", "cases are behaviours / states enumerated or simulated by TLC from the property's specification and replayed into the implementation (or implementation traces validated by TLC); a case is distinct by its full spec state / history, non-trivial if it took at least one action beyond the initial state"),
            "samples": self.samples or ["(no sample recorded)"],
            "exhaustive": self.extra.pop("exhaustive", False),
            "tlc_runs": self.tlc_runs,
            "known_findings_hit": self.known_hits,
            "violation_classes": self.viol_classes,
        }
        cov.update(self.extra)
        ev = {
            "property_id": self.pid,
            "tier": self.tier,
            "seed": self.seed,
            "level": self.level,
            "coverage": cov,
            "assumptions": self.assumptions,
            "wall_s": round(time.time() - self.t0, 2),
            "violations": self.violations,
        }
        os.makedirs(OUT("evidence"), exist_ok=True)
        with open(os.path.join(OUT("evidence"), "%s.json" % self.pid), "w") as fh:
            json.dump(ev, fh, indent=1, default=str)
        if self.machinery_errors:
            return 2
        if self.violations:
            print("%d violation(s) of %s in %d tag class(es); one replay file per class (first %d classes):"
                  % (self.violations, self.pid, len(self.viol_classes), self.max_report))
            for k, v in sorted(self.viol_classes.items(), key=lambda kv: -kv[1])[:20]:
                print("   %7d  %s" % (v, k))
            return 1
        print("OK property=%s tier=%s states=%d transitions=%d conformance_traces=%d wall=%.1fs"
              % (self.pid, self.tier, self.states, self.transitions, self.traces, time.time() - self.t0), flush=True)
        return 0
