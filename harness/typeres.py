"""Replay of TypeRes.tla universes: `%` member resolution through EXTENDS chains in every link order (C05, C12)."""
from __future__ import annotations

import json
import os

from . import adapter, par, tlc


def render(st):
    D = st["D"]
    place = st["place"] if isinstance(st["place"], list) else [st["place"][k] for k in sorted(st["place"])]
    rank = st["rank"]
    # file index f (1..3) is enumerated at position rank[f-1]; names sort by that position
    fname = {f: "%s_f%d.f90" % ("abc"[rank[f - 1] - 1], f) for f in (1, 2, 3)}
    files = {}
    where = {}
    bodies = {1: [], 2: [], 3: []}
    for i in range(1, D + 1):
        f = place[i - 1]
        use = "  use tm%d\n" % (i - 1) if i > 1 else ""
        ext = ", extends(t%d)" % (i - 1) if i > 1 else ""
        mod = ("module tm%d\n%s  implicit none\n  type%s :: t%d\n    integer :: c%d\n  contains\n    procedure :: b%d => impl%d\n  end type t%d\ncontains\n"
               "  subroutine impl%d(self)\n    class(t%d) :: self\n  end subroutine impl%d\nend module tm%d\n") % (i, use, ext, i, i, i, i, i, i, i, i, i)
        bodies[f].append((i, mod))
    for f, mods in bodies.items():
        if not mods:
            continue
        text = ""
        for i, mod in mods:
            start = text.count("\n")
            lines = mod.split("\n")
            cl = next(k for k, l in enumerate(lines) if "integer :: c%d" % i in l)
            bl = next(k for k, l in enumerate(lines) if "procedure :: b%d" % i in l)
            where[("c", i)] = (fname[f], start + cl, lines[cl].index("c%d" % i))
            where[("b", i)] = (fname[f], start + bl, lines[bl].index("b%d" % i))
            text += mod
        files[fname[f]] = text
    pl = ["program main", "  use tm%d" % D, "  implicit none", "  type(t%d) :: v" % D]
    refs = []
    for i in range(1, D + 1):
        pl.append("  v%%c%d = %d" % (i, i))
        refs.append((("c", i), len(pl) - 1, 4))
        pl.append("  call v%%b%d()" % i)
        refs.append((("b", i), len(pl) - 1, 9))
    pl.append("end program main")
    pname = ("0_main.f90" if st["progFirst"] else "z_main.f90")
    files[pname] = "\n".join(pl) + "\n"
    return files, where, refs, pname


def check(job):
    st, mode, part = job
    files, where, refs, pname = render(st)
    d = adapter.mkws(files)
    bad = []
    try:
        s, c = adapter.mkserver(d)
        if mode == "opened":
            for f in sorted(files):
                adapter.did_open(s, c, d, f)
        tags0 = {"depth:%d" % st["D"], "mode:" + mode, "spread:%d" % len(set((st["place"] if isinstance(st["place"], list) else list(st["place"].values()))[: st["D"]]))}
        members = {(m[0], m[1]) for m in st["members"][st["D"] - 1]} if isinstance(st["members"], list) else {(m[0], m[1]) for m in st["members"][st["D"]]}
        for m, ln, col in (refs if part == "definition" else []):
            r = adapter.result_of(adapter.request(s, c, "textDocument/definition", adapter.posparams(d, pname, ln, col + 1)))
            exp = where[m]
            got = None
            if isinstance(r, dict) and "uri" in r:
                got = (os.path.basename(adapter.path_from_uri(r["uri"])), r["range"]["start"]["line"], r["range"]["start"]["character"])
            if got != exp:
                bad.append((tags0 | {"typeres:definition", "member:%s" % m[0], "inheritedLevels:%d" % (st["D"] - m[1])}, {"member": list(m), "expected": exp, "observed": got}))
        # completion after "v%" offers exactly the members of the leaf type
        ln = refs[0][1]
        r = adapter.result_of(adapter.request(s, c, "textDocument/completion", adapter.posparams(d, pname, ln, 4))) if part == "completion" else None
        items = r.get("items", r) if isinstance(r, dict) else (r or [])
        labels = {str(i.get("label", "")).lower() for i in items if isinstance(i, dict)}
        want = {"%s%d" % m for m in members}
        if part == "completion" and labels != want:
            bad.append((tags0 | {"typeres:completion"} | ({"missing"} if want - labels else set()) | ({"extra"} if labels - want else set()),
                        {"expected": sorted(want), "observed": sorted(labels)}))
    finally:
        adapter.rmws(d)
    return [(t, dict(x, files=files)) for t, x in bad]


def run(ck, tier, part):
    r = tlc.mc("TypeRes", "TypeRes_MC.cfg", timeout=300)
    ck.add_tlc("TypeRes_MC", r)
    if not r.ok:
        ck.machinery("TypeRes_MC violated %s" % r.violated)
        return
    info = {}
    states = list(tlc.dump_states("TypeRes", "TypeRes_MC.cfg", info=info))
    ck.add_tlc("TypeRes_Gen", info["result"])
    # levels above D do not exist: drop duplicates that differ only there
    seen, uniq = set(), []
    for st in states:
        pl = st["place"] if isinstance(st["place"], list) else [st["place"][k] for k in sorted(st["place"])]
        key = (st["D"], tuple(pl[: st["D"]]), tuple(st["rank"]), st["progFirst"])
        if key not in seen:
            seen.add(key)
            uniq.append(st)
    if tier == "quick":
        uniq = uniq[::3]
    jobs = [(st, mode, part) for st in uniq for mode in ("startup", "opened")]
    for i, status, val in par.pmap(check, jobs, item_timeout=120):
        ck.count(key=("typeres", repr(sorted((k, repr(v)) for k, v in jobs[i][0].items() if k not in ("members", "owner"))), jobs[i][1]))
        if status != "done":
            ck.violation({"replay:" + status, "typeres"}, {"kind": "typeres", "state": {k: v for k, v in jobs[i][0].items() if k not in ("members", "owner")}, "detail": val})
            continue
        ck.traces += 1
        for tags, detail in val:
            detail.update(kind="typeres", state={k: v for k, v in jobs[i][0].items() if k not in ("members", "owner")}, mode=jobs[i][1])
            ck.violation(tags, detail)
    ck.note("typeres_universes", len(jobs))
