"""Replay of TypeRes.tla universes: `%` member resolution through EXTENDS chains in every link order (C05, C12)."""
from __future__ import annotations

import json
import os

from . import adapter, par, tlc


def render(st, twin=False):
    D = st["D"]
    place = st["place"] if isinstance(st["place"], list) else [st["place"][k] for k in sorted(st["place"])]
    rank = st["rank"]
    # file index f (1..3) is enumerated at position rank[f-1]; names sort by that position
    fname = {f: "%s_f%d.f90" % ("abc"[rank[f - 1] - 1], f) for f in (1, 2, 3)}
    files = {}
    where = {}
    bodies = {1: [], 2: [], 3: []}
    if st.get("oneModule"):
        # one module holds the whole chain; every type also has a PRIVATE component, used inside the module
        lines = ["module tmall", "  implicit none"]
        for i in range(1, D + 1):
            ext = ", extends(t%d)" % (i - 1) if i > 1 else ""
            lines += ["  type%s :: t%d" % (ext, i), "    integer :: c%d" % i, "    integer, private :: p%d" % i, "  contains", "    procedure :: b%d => impl%d" % (i, i), "  end type t%d" % i]
        lines.append("contains")
        for i in range(1, D + 1):
            lines += ["  subroutine impl%d(self)" % i, "    class(t%d) :: self" % i, "  end subroutine impl%d" % i]
        lines += ["  subroutine usepriv(o)", "    type(t%d) :: o" % D]
        privrefs = []
        for i in range(1, D + 1):
            lines.append("    o%%p%d = %d" % (i, i))
            privrefs.append((("p", i), len(lines) - 1, 6))
        lines += ["  end subroutine usepriv", "end module tmall"]
        for i in range(1, D + 1):
            where[("c", i)] = ("a_f1.f90", lines.index("    integer :: c%d" % i), 15)
            where[("p", i)] = ("a_f1.f90", lines.index("    integer, private :: p%d" % i), 24)
            where[("b", i)] = ("a_f1.f90", lines.index("    procedure :: b%d => impl%d" % (i, i)), 17)
        files["a_f1.f90"] = "\n".join(lines) + "\n"
        pl = ["program main", "  use tmall", "  implicit none", "  type(t%d) :: v" % D]
        refs = []
        for i in range(1, D + 1):
            pl.append("  v%%c%d = %d" % (i, i))
            refs.append((("c", i), len(pl) - 1, 4))
            pl.append("  call v%%b%d()" % i)
            refs.append((("b", i), len(pl) - 1, 9))
        pl.append("end program main")
        pname = ("0_main.f90" if st["progFirst"] else "z_main.f90")
        files[pname] = "\n".join(pl) + "\n"
        return files, where, refs, pname, [("a_f1.f90",) + r for r in privrefs]
    for i in range(1, D + 1):
        f = place[i - 1]
        use = "  use tm%d\n" % (i - 1) if i > 1 else ""
        ext = ", extends(t%d)" % (i - 1) if i > 1 else ""
        mod = ("module tm%d\n%s  implicit none\n  type%s :: t%d\n    integer :: c%d\n  contains\n    procedure :: b%d => impl%d\n  end type t%d\ncontains\n"
               "  subroutine impl%d(self)\n    class(t%d) :: self\n  end subroutine impl%d\nend module tm%d\n") % (i, use, ext, i, i, i, i, i, i, i, i, i)
        bodies[f].append((i, mod))
    for f, mods in bodies.items():
        if not mods:
            continue
        text = ""
        for i, mod in mods:
            start = text.count("\n")
            lines = mod.split("\n")
            cl = next(k for k, l in enumerate(lines) if "integer :: c%d" % i in l)
            bl = next(k for k, l in enumerate(lines) if "procedure :: b%d" % i in l)
            where[("c", i)] = (fname[f], start + cl, lines[cl].index("c%d" % i))
            where[("b", i)] = (fname[f], start + bl, lines[bl].index("b%d" % i))
            text += mod
        files[fname[f]] = text
    pl = ["program main", "  use tm%d" % D, "  implicit none"]
    if twin:
        # an unrelated type whose components are spelled like the chain's: `w%c1 = v%c1` names two entities on one line
        pl += ["  type :: other"] + ["    integer :: c%d" % i for i in range(1, D + 1)] + ["  end type other", "  type(other) :: w"]
        for i in range(1, D + 1):
            where[("o", i)] = ("main", pl.index("    integer :: c%d" % i), 15)
    pl.append("  type(t%d) :: v" % D)
    refs = []
    for i in range(1, D + 1):
        pl.append("  v%%c%d = %d" % (i, i))
        refs.append((("c", i), len(pl) - 1, 4))
        pl.append("  call v%%b%d()" % i)
        refs.append((("b", i), len(pl) - 1, 9))
        if twin:
            pl.append("  w%%c%d = v%%c%d" % (i, i))
            refs += [(("o", i), len(pl) - 1, 4), (("c", i), len(pl) - 1, 11)]
            pl.append("  v%%c%d = w%%c%d + v%%c%d" % (i, i, i))
            refs += [(("c", i), len(pl) - 1, 4), (("o", i), len(pl) - 1, 11), (("c", i), len(pl) - 1, 18)]
    pl.append("end program main")
    pname = ("0_main.f90" if st["progFirst"] else "z_main.f90")
    files[pname] = "\n".join(pl) + "\n"
    if twin:
        where = {k: ((pname,) + v[1:] if v[0] == "main" else v) for k, v in where.items()}
    return files, where, refs, pname, []


def check(job):
    st, mode, part = job
    files, where, refs, pname, privrefs = render(st, twin=(part == "references" and not st.get("oneModule")))
    d = adapter.mkws(files)
    bad = []
    try:
        s, c = adapter.mkserver(d)
        if mode == "opened":
            for f in sorted(files):
                adapter.did_open(s, c, d, f)
        tags0 = {"depth:%d" % st["D"], "mode:" + mode, "spread:%d" % len(set((st["place"] if isinstance(st["place"], list) else list(st["place"].values()))[: st["D"]]))}
        members = {(m[0], m[1]) for m in st["members"][st["D"] - 1]} if isinstance(st["members"], list) else {(m[0], m[1]) for m in st["members"][st["D"]]}
        for m, ln, col in (refs if part == "definition" else []):
            r = adapter.result_of(adapter.request(s, c, "textDocument/definition", adapter.posparams(d, pname, ln, col + 1)))
            exp = where[m]
            got = None
            if isinstance(r, dict) and "uri" in r:
                got = (os.path.basename(adapter.path_from_uri(r["uri"])), r["range"]["start"]["line"], r["range"]["start"]["character"])
            if got != exp:
                bad.append((tags0 | {"typeres:definition", "member:%s" % m[0], "inheritedLevels:%d" % (st["D"] - m[1])}, {"member": list(m), "expected": exp, "observed": got}))
        # references / highlight / rename of a component queried at each of its uses in main: the declaration plus exactly
        # the uses of THAT type's component - a same-named component of the unrelated type on the same line is another entity
        if part == "references" and not st.get("oneModule"):
            for m, ln, col in refs:
                if m[0] == "b":
                    continue
                exp = {(pname, l2, c2, c2 + len("c%d" % m[1])) for m2, l2, c2 in refs if m2 == m} | {where[m] + (where[m][2] + len("c%d" % m[1]),)}
                pp = adapter.posparams(d, pname, ln, col + 1, context={"includeDeclaration": True})
                r = adapter.result_of(adapter.request(s, c, "textDocument/references", pp))
                got = set()
                for x in (r if isinstance(r, list) else []):
                    got.add((os.path.basename(adapter.path_from_uri(x["uri"])), x["range"]["start"]["line"], x["range"]["start"]["character"], x["range"]["end"]["character"]))
                if got != exp:
                    bad.append((tags0 | {"typeres:references", "member:" + ("twinType" if m[0] == "o" else "chain"), "inheritedLevels:%d" % (st["D"] - m[1])}
                                | ({"missing"} if exp - got else set()) | ({"foreignOccurrence"} if got - exp else set()),
                                {"member": list(m), "from": [ln, col], "expected": sorted(exp), "observed": sorted(got)}))
                    break
        # PRIVATE components of every ancestor are accessible (and must resolve) inside the defining module
        for fn, m, ln, col in (privrefs if part == "definition" else []):
            r = adapter.result_of(adapter.request(s, c, "textDocument/definition", adapter.posparams(d, fn, ln, col + 1)))
            got = None
            if isinstance(r, dict) and "uri" in r:
                got = (os.path.basename(adapter.path_from_uri(r["uri"])), r["range"]["start"]["line"], r["range"]["start"]["character"])
            if got != where[m]:
                bad.append((tags0 | {"typeres:definition", "member:private", "inheritedLevels:%d" % (st["D"] - m[1])}, {"member": list(m), "expected": where[m], "observed": got}))
        # an unsaved edit renames the root type's component: answers must follow the buffer
        renamed = False
        if st.get("editRoot") and mode == "opened":
            fn1 = where[("c", 1)][0]
            newtext = files[fn1].replace("integer :: c1", "integer :: c9")
            adapter.notify(s, c, "textDocument/didChange", {"textDocument": {"uri": adapter.uri(d, fn1)}, "contentChanges": [{"text": newtext}]})
            renamed = True
            tags0 = tags0 | {"after:unsavedEditOfRoot", "rootAndLeafSameFile:%s" % (len({where[("c", 1)][0], where[("c", st["D"])][0]}) == 1)}
        # completion after "v%" offers exactly the members of the leaf type
        ln = refs[0][1]
        r = adapter.result_of(adapter.request(s, c, "textDocument/completion", adapter.posparams(d, pname, ln, 4))) if part == "completion" else None
        items = r.get("items", r) if isinstance(r, dict) else (r or [])
        labels = {str(i.get("label", "")).lower() for i in items if isinstance(i, dict)}
        want = {"%s%d" % m for m in members}
        if renamed:
            want = (want - {"c1"}) | {"c9"}
        if part == "completion" and labels != want:
            extra_priv = (labels - want) and all(x.startswith("p") for x in labels - want)
            bad.append((tags0 | {"typeres:completion"} | ({"missing"} if want - labels else set()) | ({"extra"} if labels - want else set())
                        | ({"extra:onlyPrivateComponents"} if extra_priv and not (want - labels) else set()),
                        {"expected": sorted(want), "observed": sorted(labels)}))
    finally:
        adapter.rmws(d)
    return [(t, dict(x, files=files)) for t, x in bad]


def run(ck, tier, part):
    r = tlc.mc("TypeRes", "TypeRes_MC.cfg", timeout=300)
    ck.add_tlc("TypeRes_MC", r)
    if not r.ok:
        ck.machinery("TypeRes_MC violated %s" % r.violated)
        return
    info = {}
    states = list(tlc.dump_states("TypeRes", "TypeRes_MC.cfg", info=info))
    ck.add_tlc("TypeRes_Gen", info["result"])
    # levels above D do not exist: drop duplicates that differ only there
    seen, uniq = set(), []
    for st in states:
        pl = st["place"] if isinstance(st["place"], list) else [st["place"][k] for k in sorted(st["place"])]
        key = (st["D"], tuple(pl[: st["D"]]), tuple(st["rank"]), st["progFirst"], st.get("oneModule"), st.get("editRoot"))
        if key not in seen:
            seen.add(key)
            uniq.append(st)
    if tier == "quick":
        uniq = uniq[::3]
    jobs = [(st, mode, part) for st in uniq for mode in ("startup", "opened")]
    for i, status, val in par.pmap(check, jobs, item_timeout=120):
        ck.count(key=("typeres", repr(sorted((k, repr(v)) for k, v in jobs[i][0].items() if k not in ("members", "owner"))), jobs[i][1]))
        if status != "done":
            ck.violation({"replay:" + status, "typeres"}, {"kind": "typeres", "state": {k: v for k, v in jobs[i][0].items() if k not in ("members", "owner")}, "detail": val})
            continue
        ck.traces += 1
        for tags, detail in val:
            detail.update(kind="typeres", state={k: v for k, v in jobs[i][0].items() if k not in ("members", "owner")}, mode=jobs[i][1])
            ck.violation(tags, detail)
    ck.note("typeres_universes", len(jobs))
