"""Hang-proof parallel map over forked workers.

fortls swallows in-process alarms (bare except) and some inputs loop forever, so
every batch of implementation runs goes through workers the parent can kill.
Results are streamed back as pickles over a pipe; an item that makes its worker
exceed `item_timeout` seconds of wall time is reported as ("hang", item_index)
and the worker is restarted on the rest of its shard.
"""
from __future__ import annotations

import os
import pickle
import select
import struct
import time
import traceback


def _worker(fn, items, idxs, wfd, init):
    w = os.fdopen(wfd, "wb", buffering=0)

    def send(obj):
        b = pickle.dumps(obj, protocol=4)
        w.write(struct.pack("<I", len(b)) + b)

    try:
        if init:
            init()
        for i in idxs:
            send(("start", i, None))
            try:
                r = fn(items[i])
                send(("done", i, r))
            except BaseException as ex:  # noqa
                send(("exc", i, "%s: %s\n%s" % (type(ex).__name__, ex, traceback.format_exc()[-1500:])))
    finally:
        try:
            w.close()
        finally:
            os._exit(0)


class _Proc:
    def __init__(self, fn, items, idxs, init):
        self.idxs = list(idxs)
        r, w = os.pipe()
        pid = os.fork()
        if pid == 0:
            os.close(r)
            try:
                _worker(fn, items, self.idxs, w, init)
            finally:
                os._exit(0)
        os.close(w)
        self.pid = pid
        self.rfd = r
        self.buf = b""
        self.current = None
        self.started = time.time()
        self.done = set()
        self.eof = False

    def feed(self):
        try:
            data = os.read(self.rfd, 1 << 20)
        except OSError:
            data = b""
        if not data:
            self.eof = True
            return []
        self.buf += data
        out = []
        while len(self.buf) >= 4:
            (n,) = struct.unpack("<I", self.buf[:4])
            if len(self.buf) < 4 + n:
                break
            out.append(pickle.loads(self.buf[4:4 + n]))
            self.buf = self.buf[4 + n:]
        return out

    def kill(self):
        try:
            os.kill(self.pid, 9)
        except OSError:
            pass
        self.reap()

    def reap(self):
        try:
            os.waitpid(self.pid, 0)
        except OSError:
            pass
        try:
            os.close(self.rfd)
        except OSError:
            pass


def pmap(fn, items, *, nproc=16, item_timeout=60.0, init=None):
    """Yield (index, status, value) with status in {"done", "exc", "hang", "died"},
    in completion order."""
    items = list(items)
    n = len(items)
    if n == 0:
        return
    nproc = max(1, min(nproc, n))
    shards = [list(range(k, n, nproc)) for k in range(nproc)]
    procs = [_Proc(fn, items, sh, init) for sh in shards if sh]
    while procs:
        rl, _, _ = select.select([p.rfd for p in procs], [], [], 1.0)
        now = time.time()
        for p in list(procs):
            if p.rfd in rl:
                for kind, i, val in p.feed():
                    if kind == "start":
                        p.current = i
                        p.started = time.time()
                    else:
                        p.done.add(i)
                        p.current = None
                        yield i, kind, val
            if p.eof:
                p.reap()
                procs.remove(p)
                rest = [i for i in p.idxs if i not in p.done]
                if rest:
                    # worker died without finishing (segfault / os._exit in code under test)
                    bad = p.current if p.current is not None else rest[0]
                    yield bad, "died", None
                    rest = [i for i in rest if i != bad]
                    if rest:
                        procs.append(_Proc(fn, items, rest, init))
                continue
            if p.current is not None and now - p.started > item_timeout:
                bad = p.current
                p.kill()
                procs.remove(p)
                yield bad, "hang", None
                rest = [i for i in p.idxs if i not in p.done and i != bad]
                if rest:
                    procs.append(_Proc(fn, items, rest, init))
