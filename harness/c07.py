"""C07: diagnostics silent on valid programs, present on each seeded defect."""
from __future__ import annotations

import json
import random

from . import adapter, deferred, fscopes, par, tlc
from .common import Check

# message class -> keywords that must all occur in the message (tolerant matching, DESIGN Appendix A)
CLASSES = {
    "DeclTwice": ["declared twice"], "MaskHost": ["masks"], "BareEndInConstruct": ["Unexpected end of scope"],
    "UseUnknownModule": ["not found in project"], "TypeNotAccessible": ["not found in scope"],
    "ArgUndeclared": ["No matching declaration"], "IntentNotArg": ["INTENT", "not found in argument list"],
    "SecondContains": ["Multiple CONTAINS"], "Orphan_contains": ["CONTAINS statement without"],
    "Orphan_implicit": ["IMPLICIT statement without"], "Orphan_private": ["Visibility statement without"],
    "ImportOutsideInterface": ["IMPORT statement outside"], "UseAfterImplicit": ["USE statements after IMPLICIT"],
    "ProcBeforeContains": ["definition before CONTAINS"], "ProcInTypeOrBlock": ["Invalid parent"],
    "OverlongLine": ["Line length exceeds"],
}


def classify(msg):
    for c, kws in CLASSES.items():
        if all(k.lower() in msg.lower() for k in kws):
            return c
    return "other:" + msg[:40]


def diagnostics_for(lines, args=""):
    d = adapter.mkws({"p.f90": "\n".join(lines) + "\n"})
    try:
        s, c = adapter.mkserver(d, args)
        ev = adapter.did_open(s, c, d, "p.f90")
        diags = None
        for e in ev:
            if e["t"] == "note" and e["method"] == "textDocument/publishDiagnostics":
                diags = e["params"]["diagnostics"]
            if e["t"] == "err" or (e["t"] == "note" and e["method"] == "window/showMessage"):
                return None, e
        return diags, None
    finally:
        adapter.rmws(d)


def check(job):
    st = job
    lines = fscopes.render(st["prog"])
    diags, err = diagnostics_for(lines, "--max_line_length 120")
    out = []
    if diags is None:
        return [({"diag:notPublished"}, {"lines": lines, "event": err})]
    got = [(classify(x["message"]), x.get("severity"), x["range"]["start"]["line"], x["message"]) for x in diags]
    exp = list(st["expDiag"])
    if not exp:
        errs = [g for g in got if g[1] == 1]
        if errs:
            out.append(({"valid:errorPublished", "class:" + errs[0][0]}, {"lines": lines, "diagnostics": got}))
        return out
    e = exp[0]
    want_lines = {l - 1 for l in e["lines"]}
    # a rendering without any free-form cue is classified as fixed form (recorded finding, see C13/C14):
    # its lines beginning with c / d / * are comments then
    from .c13 import free_undetectable
    und = {"form:freeUndetectable"} if free_undetectable(lines) else set()
    hit = [g for g in got if g[0] == e["class"] and g[1] == e["sev"] and g[2] in want_lines]
    if not hit:
        near = [g for g in got if g[0] == e["class"]]
        out.append(({"defect:missing" if not near else "defect:wrongLineOrSeverity", "class:" + e["class"]} | und,
                    {"lines": lines, "expected": {"class": e["class"], "sev": e["sev"], "lines": sorted(want_lines)}, "diagnostics": got}))
    other = [g for g in got if g[1] == 1 and g[0] != e["class"]]
    if other:
        out.append(({"defect:unrelatedError", "class:" + e["class"], "unrelated:" + other[0][0]},
                    {"lines": lines, "expected": {"class": e["class"], "lines": sorted(want_lines)}, "diagnostics": got}))
    return out


def crossfile(st):
    """A multi-unit program split into one file per program unit; a module that other units USE is renamed
    (edit + save), the dependants are saved unchanged: their diagnostics must now report the unknown module,
    and must be silent again once the module has its name back."""
    import os
    prog = st["prog"]
    lines = fscopes.render(prog)
    units = []   # (first, last) statement indices of depth-0 units
    start = None
    for i, s_ in enumerate(prog):
        if s_["op"] == "open" and s_["depth"] == 0:
            start = i
        if s_["op"] == "end" and s_["depth"] == 1 and start is not None:
            units.append((start, i))
            start = None
    if len(units) < 2:
        return "skip"
    files = {"u%d.f90" % k: "\n".join(lines[a:b + 1]) + "\n" for k, (a, b) in enumerate(units)}
    uses = {}   # module name tuple -> [(file, line in file)]
    for k, (a, b) in enumerate(units):
        for i in range(a, b + 1):
            if prog[i]["op"] == "use" and prog[i]["name"] and prog[i]["name"][0] == "module":
                uses.setdefault(tuple(prog[i]["name"]), []).append(("u%d.f90" % k, i - a))
    if not uses:
        return "skip"
    mod = sorted(uses)[0]
    mname = fscopes.nm(list(mod))
    mfile = next("u%d.f90" % k for k, (a, b) in enumerate(units) if prog[a]["kind"] == "module" and tuple(prog[a]["name"]) == mod)
    d = adapter.mkws(files)
    bad = []
    try:
        s, c = adapter.mkserver(d, "--max_line_length 120")

        def diags_after(method, fn):
            ev = adapter.notify(s, c, method, {"textDocument": {"uri": adapter.uri(d, fn)}})
            for e in ev:
                if e["t"] == "note" and e["method"] == "textDocument/publishDiagnostics":
                    return [(classify(x["message"]), x.get("severity"), x["range"]["start"]["line"]) for x in e["params"]["diagnostics"]]
            return None
        for fn in files:
            diags_after("textDocument/didOpen", fn)
        deps = sorted({f for f, _l in uses[mod] if f != mfile})
        for phase, text in (("renamed", files[mfile].replace(mname, mname + "_renamed")), ("restored", files[mfile])):
            with open(os.path.join(d, mfile), "w") as fh:
                fh.write(text)
            adapter.notify(s, c, "textDocument/didChange", {"textDocument": {"uri": adapter.uri(d, mfile)}, "contentChanges": [{"text": text}]})
            diags_after("textDocument/didSave", mfile)
            for fn in deps:
                got = diags_after("textDocument/didSave", fn)
                want = sorted(l for f, l in uses[mod] if f == fn)
                have = sorted(g[2] for g in (got or []) if g[0] == "UseUnknownModule")
                if phase == "renamed" and have != want:
                    bad.append(({"crossfile:dependantNotRediagnosed", "phase:renamed"}, {"files": files, "module": mname, "dependant": fn, "expected_lines": want, "observed": got}))
                if phase == "restored" and have:
                    bad.append(({"crossfile:staleDiagnostic", "phase:restored"}, {"files": files, "module": mname, "dependant": fn, "observed": got}))
    finally:
        adapter.rmws(d)
    return bad


def complete_of(beh):
    for _a, st in reversed(beh):
        if st["stack"] == [] and st["prog"]:
            return st
    return None


def main(tier, seed):
    ck = Check("C07", tier, seed)
    rnd = random.Random(seed)
    ck.assumptions = [
        "valid programs = complete behaviours of FortranScopes.tla SpecValid (validated against gfortran -fsyntax-only -std=f2018 on a sample: spec self-validation)",
        "one seeded defect per program (defects <= 1), followed by any valid continuation",
        "message classes matched by keyword set; severity and line must match; for a bare END closing a construct both the construct's line and the END line are admissible",
        "not modelled: unimplemented deferred binding (needs abstract types), intrinsic-module USE variants",
    ]
    for cfg, req in (("FortranScopes_MC.cfg", ["OpenUnit", "End"]), ("FortranScopes_MCdefect.cfg", ["Orphan", "ProcBeforeContains", "BareEndInConstruct", "UseUnknownModule", "ArgUndeclared"])):
        r = tlc.mc("FortranScopes", cfg, required_actions=req, timeout=1200)
        ck.add_tlc(cfg, r)
        if not r.ok:
            ck.machinery("%s violated %s" % (cfg, r.violated))
            return ck.finish()
    progs = []
    info = {}
    for st in tlc.dump_states("FortranScopes", "FortranScopes_Gen_%s.cfg" % tier, info=info, timeout=3000, prefilter=lambda t: "stack = <<>>" in t):
        if st["prog"]:
            progs.append(st)
    ck.add_tlc("FortranScopes_Gen", info["result"])
    nvalid_ex = len(progs)
    info = {}
    for st in tlc.dump_states("FortranScopes", "FortranScopes_GenDefect_%s.cfg" % tier, info=info, timeout=3000,
                              prefilter=lambda t: "stack = <<>>" in t and "defects = 1" in t):
        progs.append(st)
    ck.add_tlc("FortranScopes_GenDefect", info["result"])
    for cfg, flt in (("FortranScopes_GenTypes.cfg", '"typedvar"'), ("FortranScopes_GenProcs.cfg", '"procptr"'), ("FortranScopes_GenSubmod.cfg", '"submodule"')):
        info = {}
        k = 0
        def keep(t, flt=flt):
            if "stack = <<>>" not in t:
                return False
            if flt == '"procptr"':   # PROCEDURE(iface) declarations, or a type named like an earlier generic interface
                return flt in t or 'kind |-> "type", name |-> <<"g"' in t or 'name |-> <<"g", ' in t and '"type"' in t
            return flt in t
        for st in tlc.dump_states("FortranScopes", cfg, info=info, timeout=3000, prefilter=keep):
            st["_focus"] = True
            progs.append(st)
            k += 1
        ck.add_tlc(cfg, info["result"])
        ck.note("focus_programs_" + cfg, k)
    nsim = 400 if tier == "quick" else 4000
    for cfg, sd in (("FortranScopes_Sim.cfg", 21), ("FortranScopes_SimDefect.cfg", 22), ("FortranScopes_SimDefect.cfg", 23)):
        for beh in tlc.simulate("FortranScopes", cfg, num=nsim, depth=27, seed=seed + sd, workers=8, timeout=1500):
            st = complete_of(beh)
            if st:
                progs.append(st)
    if tier == "quick" and len(progs) > 9000:
        # keep every defect class represented: sample valid ones only
        focus = [p for p in progs if p.get("_focus")]
        valid = [p for p in progs if not p["expDiag"] and not p.get("_focus")]
        defect = [p for p in progs if p["expDiag"] and not p.get("_focus")]
        rnd.shuffle(valid)
        rnd.shuffle(defect)
        progs = valid[:3000] + defect[:4500] + focus
    per_class = {}
    for p in progs:
        for e in p["expDiag"]:
            per_class[e["class"]] = per_class.get(e["class"], 0) + 1
    ck.note("program_counts", {"valid": sum(1 for p in progs if not p["expDiag"]), "with_defect": sum(1 for p in progs if p["expDiag"])})
    ck.note("defect_programs_per_class", per_class)
    missing = [c for c in CLASSES if c not in per_class]
    ck.note("classes_not_exercised_this_run", missing)
    for i, status, val in par.pmap(check, progs, item_timeout=120):
        ck.count(key=json.dumps(progs[i]["prog"], sort_keys=True))
        if status != "done":
            ck.violation({"replay:" + status}, {"kind": "program", "state": progs[i], "detail": val})
            continue
        ck.traces += 1
        for tags, detail in val:
            detail.update(kind="program", state=progs[i])
            ck.violation(tags, detail)
    # cross-file histories on valid multi-unit programs
    multi = [p for p in progs if not p["expDiag"] and any(x["op"] == "use" and x["name"] and x["name"][0] == "module" for x in p["prog"])]
    rnd.shuffle(multi)
    multi = multi[: (150 if tier == "quick" else 1500)]
    nx = 0
    for i, status, val in par.pmap(crossfile, multi, item_timeout=180):
        if status != "done":
            ck.violation({"crossfile:" + status}, {"kind": "crossfile", "state": multi[i], "detail": val})
            continue
        if val == "skip":
            continue
        nx += 1
        ck.count(key=("crossfile", json.dumps(multi[i]["prog"], sort_keys=True)))
        ck.traces += 1
        for tags, detail in val:
            detail.update(kind="crossfile", state=multi[i])
            ck.violation(tags, detail)
    ck.note("crossfile_histories", nx)
    # the defect class "unimplemented deferred binding": abstract types, EXTENDS chains (Deferred.tla)
    deferred.run(ck, tier)
    for p in [q for q in progs if q["expDiag"]][:2] + progs[:1]:
        ck.sample({"source": fscopes.render(p["prog"]), "expected_diagnostics": list(p["expDiag"])})
    return ck.finish()


def replay(path):
    rec = json.load(open(path))
    if rec.get("kind") == "deferred":
        st = rec["state"]
        st["impl"] = [set(x) for x in st["impl"]]
        st["expDiag"] = [tuple(x) for x in st["expDiag"]]
        res = deferred.check(st)
    elif rec.get("kind") == "crossfile":
        res = crossfile(rec["state"])
    else:
        res = check(rec["state"])
    for t, dct in res:
        print(sorted(t), json.dumps(dct, default=str)[:800])
    return 1 if res else 0
