"""C11: hover and signature help restate the declaration and its documentation (Decl.tla)."""
from __future__ import annotations

import json
import random
import re
import subprocess
import os

from . import adapter, par, tlc
from .common import Check

VALTXT = {"val:3": "3", "val:3 * (2 + 1)": "3 * (2 + 1)", "val:'a(b'": "'a(b'", "val:max(1, 2)": "max(1, 2)", "val:'(a, i0)!'": "'(a, i0)!'"}


def decl_line(st, k):
    t, s = st["ty"], st["sel"]
    head = t + ("" if s == "none" else s)
    parts = [head] + list(st["attrs"])
    name = "e%d" % k
    ent = name
    if st["deco"] == "dims(3)":
        ent += "(3)"
    elif st["deco"] in VALTXT:
        ent += " = " + VALTXT[st["deco"]]
    return ", ".join(parts) + " :: " + ent


def render_file(states, base):
    lines = ["module mdecl", "  implicit none", "  type :: t", "    integer :: c", "  end type t", "contains"]
    where = []
    ptr_inits = set()
    for i, st in enumerate(states):
        k = base + i
        name = "e%d" % k
        lines.append("  subroutine s%d(%s)" % (k, name if st["dummy"] else ""))
        hdr = len(lines) - 1
        if st["doc"] in ("before", "beforeBlank", "beforeComment"):
            lines.append("    !> doc own %s" % name)
            if st["doc"] == "beforeBlank":
                lines.append("")
        dl = "    " + decl_line(st, k)
        second = st["deco"] == "none" and st["doc"] == "none" and not st["dummy"]
        if second:
            A = set(st["attrs"])
            ptr_init = "POINTER" in A and st["sel"] in ("none", "(4)", "(kind=8)", "*8") and not (A & {"DIMENSION(:)", "CONTIGUOUS"}) \
                and st["ty"] not in ("CLASS(t)",)
            if ptr_init:
                ptr_inits.add(k)
                head = st["ty"] + ("" if st["sel"] == "none" else st["sel"])
                lines.append("    %s, TARGET, SAVE :: tg%d" % (head, k))
                dl += " => tg%d" % k
            dl += ", x%d" % k
        if st["doc"] in ("trailing", "trailingComment"):
            dl += " !< doc own %s" % name
        lines.append(dl)
        dln = len(lines) - 1
        if st["doc"] in ("trailingComment", "beforeComment"):
            lines.append("    ! an ordinary comment, not documentation")
        if st["doc"] == "after":
            lines.append("    !! doc own %s" % name)
        lines.append("    integer :: nb%d !< doc nb%d" % (k, k))
        nbl = len(lines) - 1
        lines.append("  end subroutine s%d" % k)
        where.append({"k": k, "hdr": hdr, "decl": dln, "nb": nbl, "second": second, "ptrinit": k in ptr_inits})
    lines.append("end module mdecl")
    return lines, where


def norm(s):
    return re.sub(r"\s+", "", s).upper()


def split_top(s):
    out, depth, cur, q = [], 0, "", None
    for ch in s:
        if q:
            cur += ch
            if ch == q:
                q = None
            continue
        if ch in "'\"":
            q = ch
        elif ch == "(":
            depth += 1
        elif ch == ")":
            depth -= 1
        if ch == "," and depth == 0:
            out.append(cur)
            cur = ""
        else:
            cur += ch
    out.append(cur)
    return out


def parse_hover(value):
    """hover markdown -> (list of code lines, doc text)"""
    m = re.search(r"```\w*\n(.*?)\n```", value, re.S)
    code = m.group(1).split("\n") if m else []
    doc = ""
    if "-----" in value:
        doc = value.split("-----", 1)[1].strip()
    return code, doc


def parse_decl(line):
    if "::" not in line:
        return None
    left, right = line.split("::", 1)
    items = split_top(left)
    name, value = right.strip(), None
    right = right.split("=>")[0]
    if "=" in right and not right.strip().startswith("="):
        name, value = right.split("=", 1)
    return {"type": norm(items[0]), "attrs": {norm(x) for x in items[1:] if x.strip()}, "name": norm(name), "value": None if value is None else norm(value)}


def expected_of(st, k):
    t, s = st["exp"]["type"]
    return {"type": norm(t + ("" if s == "none" else s)), "attrs": {norm(a) for a in st["exp"]["attrs"]}, "name": norm("e%d" % k),
            "value": None if st["exp"]["value"] == "none" else norm(VALTXT[st["exp"]["value"]]), "doc": st["exp"]["doc"]}


def decl_tags(st):
    t = {"type:" + st["ty"].split("(")[0], "sel:" + st["sel"], "deco:" + st["deco"].split(":")[0], "doc:" + st["doc"], "dummy:%s" % st["dummy"]}
    return t


def check_file(job):
    states, base = job
    lines, where = render_file(states, base)
    d = adapter.mkws({"m.f90": "\n".join(lines) + "\n"})
    bad = []
    try:
        s, c = adapter.mkserver(d, "--hover_signature")
        adapter.did_open(s, c, d, "m.f90")
        for st, w in zip(states, where):
            k = w["k"]
            exp = expected_of(st, k)
            col = lines[w["decl"]].index("::") + 3 + 1
            r = adapter.result_of(adapter.request(s, c, "textDocument/hover", adapter.posparams(d, "m.f90", w["decl"], col)))
            tags = decl_tags(st)
            if w.get("ptrinit"):
                tags = tags | {"deco:ptrinit"}
            if not r or "contents" not in r:
                bad.append((tags | {"hover:none"}, {"decl": lines[w["decl"]]}))
                continue
            code, doc = parse_hover(r["contents"]["value"])
            got = parse_decl(code[0]) if code else None
            if got is None:
                bad.append((tags | {"hover:unparsable"}, {"decl": lines[w["decl"]], "hover": r["contents"]["value"]}))
                continue
            for fld in ("type", "attrs", "name", "value"):
                if got[fld] != exp[fld]:
                    extra = set()
                    if fld == "value" and exp["value"] and "(" in exp["value"]:
                        extra.add("value:hasParentheses")
                    bad.append((tags | {"hover:" + fld} | extra, {"decl": lines[w["decl"]], "expected": {k2: (sorted(v) if isinstance(v, set) else v) for k2, v in exp.items()},
                                                            "observed": {k2: (sorted(v) if isinstance(v, set) else v) for k2, v in got.items()}, "hover": r["contents"]["value"]}))
                    break
            own = "doc own e%d" % k
            if st["doc"] != "beforeBlank":   # a doc block separated by a blank line: attachment is don't-care
                if exp["doc"] == "own" and doc != own:
                    bad.append((tags | {"doc:missingOrWrong"}, {"decl": lines[w["decl"]], "expected_doc": own, "observed_doc": doc}))
                if exp["doc"] == "none" and doc:
                    bad.append((tags | {"doc:unexpected"}, {"decl": lines[w["decl"]], "observed_doc": doc}))
            # a second entity of the same statement restates the statement's type and attributes, nothing of the first's
            if w.get("second"):
                col2 = lines[w["decl"]].index(", x%d" % k) + 3
                rx = adapter.result_of(adapter.request(s, c, "textDocument/hover", adapter.posparams(d, "m.f90", w["decl"], col2)))
                codex, _dx = parse_hover(rx["contents"]["value"]) if rx and "contents" in rx else ([], "")
                gx = parse_decl(codex[0]) if codex else None
                if gx is None or gx["type"] != exp["type"] or gx["attrs"] != exp["attrs"] or gx["name"] != norm("x%d" % k) or gx["value"]:
                    bad.append((tags | {"hover:secondEntity"}, {"decl": lines[w["decl"]], "expected_type": exp["type"], "expected_attrs": sorted(exp["attrs"]),
                                                               "observed": None if gx is None else {k2: (sorted(v) if isinstance(v, set) else v) for k2, v in gx.items()}}))
            # the neighbour keeps its own documentation and gets no other
            r2 = adapter.result_of(adapter.request(s, c, "textDocument/hover", adapter.posparams(d, "m.f90", w["nb"], lines[w["nb"]].index("nb") + 1)))
            _c2, doc2 = parse_hover(r2["contents"]["value"]) if r2 and "contents" in r2 else ([], "")
            if doc2 != "doc nb%d" % k:
                bad.append((tags | {"doc:leaksToNeighbour"}, {"decl": lines[w["decl"]], "neighbour_doc": doc2}))
            # the procedure lists its dummy with the same declaration
            if st["dummy"]:
                r3 = adapter.result_of(adapter.request(s, c, "textDocument/hover", adapter.posparams(d, "m.f90", w["hdr"], 14)))
                code3, _ = parse_hover(r3["contents"]["value"]) if r3 and "contents" in r3 else ([], "")
                argdecl = [parse_decl(x) for x in code3[1:]]
                argdecl = [a for a in argdecl if a]
                if not argdecl or any(argdecl[0][f] != exp[f] for f in ("type", "attrs", "name")):
                    bad.append((tags | {"proc:argumentDeclaration"}, {"decl": lines[w["decl"]], "procedure_hover": code3}))
    finally:
        adapter.rmws(d)
    return [(t, dict(x, file=lines if len(lines) < 60 else None)) for t, x in bad]


ARGTXT = {"plain": "x1", "nested": "f(1, 2)", "string": "'stop! a,b'", "kw2": "p2=y", "kw3": "p3=z", "cmp": "p2 == 0"}
# dummy-argument namings: the second one puts the names in a proper-prefix relation (the keyword of the 2nd dummy is a
# prefix of the 1st and the 3rd dummy's names), the third one differs only in letter case between keyword and declaration
NAMINGS = [("p1", "p2", "p3"), ("pp", "p", "ppp"), ("Nx", "N", "nxy")]


def check_calls(states):
    bad = []
    for names in NAMINGS:
        bad += _check_calls(states, names)
    return bad


def _check_calls(states, names):
    n1, n2, n3 = names
    ARGTXT = {"plain": "x1", "nested": "f(1, 2)", "string": "'stop! a,b'", "kw2": n2.lower() + "=y", "kw3": n3 + "=z", "cmp": n2 + " == 0"}
    ntag = "dummyNames:" + "/".join(names)
    hdr = ["module mc", "  implicit none", "contains", "  integer function f(a, b)", "    integer :: a, b", "    f = a + b", "  end function f",
           "  subroutine tgt(%s, %s, %s)" % names, "    integer :: " + n1, "    integer :: " + n2, "    character(len=*), optional :: " + n3, "  end subroutine tgt",
           "  subroutine caller()", "    integer :: x1, y, " + n2 if n2.lower() != "y" else "    integer :: x1, y", "    character(len=3) :: z"]
    lines = list(hdr)
    sites = []
    for st in states:
        args = [ARGTXT[a] if i or a not in ("string",) else ARGTXT[a] for i, a in enumerate(st["call"])]
        # the first parameter is an integer: a string literal there is replaced by a plain argument of the same shape class
        text = "    call tgt(" + ", ".join(args) + ")"
        i = st["cursor"] - 1
        off = len("    call tgt(") + sum(len(a) + 2 for a in args[:i])
        a = args[i]
        cols = {off, off + len(a)}
        if st["call"][i] == "plain":
            cols.add(off + 1)
        if st["call"][i] == "cmp":
            cols.add(off + len(n2) + 4)     # behind the "=="
        if st["call"][i] in ("kw2", "kw3"):
            # the server sees the text up to the cursor: the keyword counts once "name=" has been typed
            cols = {off + a.index("=") + 1, off + len(a)}
        lines.append(text)
        sites.append((len(lines) - 1, sorted(cols), st))
        # the same call with every argument on its own continuation line; the cursor is on the line of argument i
        if len(args) > 1:
            lines.append("    call tgt(" + args[0] + ", &")
            first = len(lines) - 1
            for j, a2 in enumerate(args[1:], start=1):
                lines.append("             " + a2 + (", &" if j < len(args) - 1 else ")"))
            ln_i = first + i
            start = len("    call tgt(") if i == 0 else len("             ")
            a_i = args[i]
            cols2 = {start + len(a_i)} if st["call"][i] in ("kw2", "kw3") else {start + 1 if len(a_i) > 1 and st["call"][i] == "plain" else start + len(a_i), start + len(a_i)}
            st2 = dict(st)
            st2["_multiline"] = True
            sites.append((ln_i, sorted(cols2), st2))
    lines += ["  end subroutine caller", "end module mc"]
    d = adapter.mkws({"c.f90": "\n".join(lines) + "\n"})
    bad = []
    try:
        s, c = adapter.mkserver(d, "--use_signature_help")
        adapter.did_open(s, c, d, "c.f90")
        for ln, cols, st in sites:
            for col in cols:
                r = adapter.result_of(adapter.request(s, c, "textDocument/signatureHelp", adapter.posparams(d, "c.f90", ln, col)))
                tags = {"call:" + "+".join(st["call"]), "cursorArg:%d" % st["cursor"], "argKind:" + st["call"][st["cursor"] - 1]}
                if names != NAMINGS[0]:
                    tags.add(ntag)
                if st.get("_multiline"):
                    tags.add("layout:continuationLines")
                if not r or not r.get("signatures"):
                    bad.append((tags | {"sig:none"}, {"line": lines[ln], "col": col}))
                    continue
                params = [re.sub(r"=.*", "", p["label"]).strip().lower() for p in r["signatures"][0]["parameters"]]
                if params != [n.lower() for n in names]:
                    bad.append((tags | {"sig:parameterOrder"}, {"line": lines[ln], "col": col, "params": params}))
                if r.get("activeParameter") != st["active"]:
                    bad.append((tags | {"sig:activeParameter"}, {"line": lines[ln], "col": col, "expected": st["active"], "observed": r.get("activeParameter")}))
    finally:
        adapter.rmws(d)
    return bad


def gfortran_validate(ck, states):
    import shutil
    if not shutil.which("gfortran"):
        return
    lines, _w = render_file(states, 1)
    d = adapter.mkws({"v.f90": "\n".join(lines) + "\n"})
    try:
        p = subprocess.run(["gfortran", "-fsyntax-only", "-std=gnu", "v.f90"], cwd=d, capture_output=True, text=True)
        nerr = p.stderr.count("Error:")
        ck.note("gfortran_validation", {"declarations": len(states), "errors": nerr, "first": p.stderr[:600] if nerr else ""})
        if nerr > len(states) // 10:
            ck.machinery("spec self-validation: gfortran rejects %d of %d generated declarations, Legal() in Decl.tla is too permissive: %s" % (nerr, len(states), p.stderr[:400]))
    finally:
        adapter.rmws(d)


def main(tier, seed):
    ck = Check("C11", tier, seed)
    rnd = random.Random(seed)
    ck.assumptions = [
        "declarations: 8 types x 8 kind/len selectors x ordered attribute lists of length <= 2 from 12 attributes x entity decorations (dimensions, PARAMETER values incl. parentheses and quotes) x doc placements (!> before, !! after, !< trailing, block + blank line) x dummy/local, filtered by Legal (validated against gfortran on a sample)",
        "equivalence is up to letter case, blanks and attribute order; an entity-level dimension equals the DIMENSION attribute; a doc block separated from the declaration by a blank line is don't-care",
        "signature help is checked at top-level positions of the argument list (start, inside, end of each argument); positions inside nested parentheses are don't-care",
    ]
    r = tlc.mc("Decl", "Decl_MC.cfg", timeout=900)
    ck.add_tlc("Decl_MC", r)
    if not r.ok:
        ck.machinery("Decl_MC violated %s" % r.violated)
        return ck.finish()
    info = {}
    states = list(tlc.dump_states("Decl", "Decl_MC.cfg", info=info, timeout=1800))
    ck.add_tlc("Decl_Gen", info["result"])
    decls = [s for s in states if s["mode"] == "decl"]
    calls = [s for s in states if s["mode"] == "call"]
    rnd.shuffle(decls)
    if tier == "quick":
        decls = decls[:3000]
    gfortran_validate(ck, decls[:400])
    B = 40
    jobs = [(decls[i:i + B], i + 1) for i in range(0, len(decls), B)]
    for i, status, val in par.pmap(check_file, jobs, item_timeout=300):
        for st in jobs[i][0]:
            ck.count(key=json.dumps({k: st[k] for k in ("ty", "sel", "attrs", "deco", "doc", "dummy")}, sort_keys=True))
        if status != "done":
            ck.violation({"replay:" + status}, {"kind": "decls", "detail": val, "first_decl": decl_line(jobs[i][0][0], jobs[i][1])})
            continue
        ck.traces += len(jobs[i][0])
        for tags, detail in val:
            detail["kind"] = "decl"
            ck.violation(tags, detail)
    for tags, detail in check_calls(calls):
        detail["kind"] = "call"
        ck.violation(tags, detail)
    ck.traces += len(calls)
    for st in calls:
        ck.count(key=("call", tuple(st["call"]), st["cursor"]))
    ck.note("declarations", len(decls))
    ck.note("call_sites", len(calls))
    for st in decls[:3]:
        ck.sample({"declaration": decl_line(st, 1), "doc_placement": st["doc"], "expected": {"type": list(st["exp"]["type"]), "attrs": sorted(st["exp"]["attrs"]), "value": st["exp"]["value"], "doc": st["exp"]["doc"]}})
    return ck.finish()


def replay(path):
    rec = json.load(open(path))
    print(json.dumps(rec, indent=1)[:2500])
    return 1
