"""C18: exactly the configured source files are indexed at start-up (Discovery.tla)."""
from __future__ import annotations

import json
import os
import random
import zlib

from . import adapter, par, tlc
from .common import Check

DIRPATH = {"root": "", "sub": "sub", "deep": "sub/deep", "ex": "ex", "hid": "sub/.hid"}
SUF = {"f90": ".f90", "F90": ".F90", "f": ".f", "FoR": ".FoR", "fpp": ".fpp", "f9": ".f9", "bak": ".f90.bak", "inc": ".inc", "INC": ".INC", "txt": ".txt"}
SRC = {"unset": None, "sub": ["sub"], "subRec": ["sub/**"], "glob": ["s*"], "dot": ["."]}
EXC = {"none": None, "ex": ["ex"], "exRec": ["ex/**"], "sub": ["sub"], "subRec": ["sub/**"], "file": ["sub/f_sub_f90.f90"]}


def build(st):
    files = {}
    for d, classes in st["tree"].items():
        for cls in classes:
            name = "f_%s_%s%s" % (d, cls, SUF[cls])
            body = "module m_%s_%s\nend module m_%s_%s\n" % (d, cls.lower() + ("u" if cls != cls.lower() else ""), d, cls.lower() + ("u" if cls != cls.lower() else ""))
            if cls in ("f", "FoR"):
                body = "      module m_%s_%s\n      end module\n" % (d, cls.lower() + ("u" if cls != cls.lower() else ""))
            files[os.path.join(DIRPATH[d], name)] = body
    # keep empty directories present
    return files


def modname(d, cls):
    return "m_%s_%s" % (d, cls.lower() + ("u" if cls != cls.lower() else ""))


def check(st):
    files = build(st)
    root = adapter.mkws(files or {"README": "x"})
    try:
        for d in DIRPATH.values():
            os.makedirs(os.path.join(root, d), exist_ok=True)
        args = ""
        cfg = {}
        if st["srcCfg"] != "unset":
            cfg["source_dirs"] = SRC[st["srcCfg"]]
        if st["exclCfg"] != "none":
            cfg["excl_paths"] = EXC[st["exclCfg"]]
        if st["inclSuf"]:
            cfg["incl_suffixes"] = [".inc"]
        if st["exclSuf"]:
            cfg["excl_suffixes"] = [".F90"]
        if st["channel"] == "file":
            with open(os.path.join(root, ".fortls"), "w") as fh:
                json.dump(cfg, fh)
        else:
            for k, v in cfg.items():
                args += " --%s %s" % (k, " ".join(v))
        s, c = adapter.mkserver(root, args)
        ws = adapter.result_of(adapter.request(s, c, "workspace/symbol", {"query": "m_"}))
        got = {w["name"].lower() for w in (ws or []) if isinstance(w, dict)}
        exp = {modname(d, cls).lower() for d, cls in st["indexed"]}
        allmods = {modname(d, cls).lower(): (d, cls) for d, classes in st["tree"].items() for cls in classes}
        got &= set(allmods)
        if got == exp:
            return []
        missing = sorted(exp - got)
        extra = sorted(got - exp)
        tags = {"channel:" + st["channel"], "src:" + st["srcCfg"]}
        if missing:
            tags.add("missing")
            tags |= {"missing.class:" + allmods[m][1] for m in missing[:3]}
        if extra:
            tags.add("extra")
            tags |= {"extra.dir:" + allmods[m][0] for m in extra[:3]} | {"extra.class:" + allmods[m][1] for m in extra[:3]}
        return [(tags, {"settings": cfg, "channel": st["channel"], "tree": sorted(files), "expected": sorted(exp), "observed": sorted(got)})]
    finally:
        adapter.rmws(root)


def main(tier, seed):
    ck = Check("C18", tier, seed)
    ck.assumptions = [
        "trees: root, sub, sub/deep, ex and the hidden directory sub/.hid, each with one of five file-suffix profiles (default suffixes in mixed case, look-alikes .f9 .f90.bak .INC, .inc, .txt)",
        "settings: source_dirs unset/literal/recursive glob/name glob; excl_paths none/dir/dir/**/file; incl_suffixes {.inc}; excl_suffixes {.F90}; given by command line or by .fortls file",
        "a file is 'indexed' iff the module it declares is returned by workspace/symbol",
    ]
    r = tlc.mc("Discovery", "Discovery_MC.cfg", required_actions=["ResolveGlobs", "WalkDirs", "ListFiles"], timeout=1200)
    ck.add_tlc("Discovery_MC", r)
    if not r.ok:
        ck.machinery("Discovery_MC violated %s" % r.violated)
        return ck.finish()
    want = 1500 if tier == "quick" else 24000
    k = max(1, 300000 // want)
    info = {}
    states = list(tlc.dump_states("Discovery", "Discovery_MC.cfg", info=info, timeout=1800,
                                  prefilter=lambda t: 'stage = "done"' in t and (zlib.crc32(t.encode()) + seed) % k == 0))
    ck.add_tlc("Discovery_Gen", info["result"])
    ck.note("tree_settings_pairs", len(states))
    for i, status, val in par.pmap(check, states, item_timeout=120):
        ck.count(key=json.dumps({a: states[i][a] for a in ("tree", "srcCfg", "exclCfg", "inclSuf", "exclSuf", "channel")}, sort_keys=True, default=list))
        if status != "done":
            ck.violation({"replay:" + status}, {"kind": "tree", "state": states[i], "detail": val})
            continue
        ck.traces += 1
        for tags, detail in val:
            detail.update(kind="tree", state=states[i])
            ck.violation(tags, detail)
    for s in states[:2]:
        ck.sample({"tree": {d: sorted(v) for d, v in s["tree"].items()}, "source_dirs": s["srcCfg"], "excl_paths": s["exclCfg"],
                   "incl_suffixes": sorted(s["inclSuf"]), "excl_suffixes": sorted(s["exclSuf"]), "channel": s["channel"],
                   "expected_indexed": sorted(map(tuple, s["indexed"]))})
    return ck.finish()


def replay(path):
    rec = json.load(open(path))
    st = rec["state"]
    st["tree"] = {k: list(v) for k, v in st["tree"].items()}
    res = check(st)
    print(json.dumps(res, default=list)[:1500])
    return 1 if res else 0
