"""Recording sessions around the real connection object (C01, C09, C20 ...).

TraceConn subclasses fortls's JSONRPC2Connection: the real framing code reads
and writes real bytes; read_message/_send are wrapped so that every consumed
and every written message is logged, in order, at the public call's return.
"""
from __future__ import annotations

import io
import json
import os

from . import adapter
from .adapter import JSONRPC2Connection, ReadWriter, LangServer, path_from_uri

KNOWN_REQ = ["textDocument/documentSymbol", "textDocument/completion", "textDocument/signatureHelp",
             "textDocument/definition", "textDocument/references", "textDocument/documentHighlight",
             "textDocument/hover", "textDocument/implementation", "textDocument/rename",
             "textDocument/codeAction", "workspace/symbol"]
SYNC = ["textDocument/didOpen", "textDocument/didSave", "textDocument/didClose", "textDocument/didChange"]
OTHER_NOTE = ["initialized", "workspace/didChangeWatchedFiles", "workspace/didChangeConfiguration", "$/cancelRequest", "$/setTrace"]


def idstr(i):
    return ("i:%d" % i) if isinstance(i, int) and not isinstance(i, bool) else "s:%s" % (i,)


class TraceConn(JSONRPC2Connection):
    def __init__(self, inp: bytes, classify):
        self.rin = io.BytesIO(inp)
        self.rout = io.BytesIO()
        super().__init__(ReadWriter(self.rin, self.rout))
        self.events = []
        self.raw = []  # (kind, message) parallel to events, for range extraction
        self.classify = classify

    def read_message(self, want=None):
        msg = super().read_message(want)
        if "id" in msg and "method" in msg:
            self.events.append({"k": "req", "id": idstr(msg["id"]), "cls": self.classify(msg), "method": msg.get("method")})
        elif "method" in msg:
            self.events.append({"k": "note", "id": "none", "cls": self.classify(msg), "method": msg.get("method")})
        self.raw.append(("in", msg))
        return msg

    def _send(self, body):
        ok = True
        try:
            json.loads(json.dumps(body))
        except (TypeError, ValueError):
            ok = False
        if "method" in body:
            ev = {"k": "nout", "method": body["method"], "json": ok, "ranges": []}
        else:
            tag = "result"
            if "error" in body:
                code = body["error"].get("code")
                tag = {-32601: "MethodNotFound", -32603: "InternalError"}.get(code, "code%s" % code)
            ev = {"k": "resp", "id": idstr(body.get("id")), "tag": tag, "json": ok, "ranges": []}
            if tag == "InternalError":
                ev["message"] = str(body["error"].get("message"))[:200]
        self.events.append(ev)
        self.raw.append(("out", body))
        super()._send(body)


def default_classify(msg):
    m = msg.get("method")
    if "id" in msg:
        if m == "initialize":
            return "init"
        if m == "shutdown":
            return "shutdown"
        if m in KNOWN_REQ:
            return msg.get("_cls", "known")
        return "unknown"
    if m == "exit":
        return "exit"
    if m in SYNC:
        return msg.get("_cls", "sync")
    if m in OTHER_NOTE:
        return "other"
    return "unknownN"


def run_session(msgs, args="", classify=default_classify, geometry=True):
    """Run the real server loop over the framed messages.  Returns (events, server, conn).
    Messages may carry a private "_cls" key (class chosen by the spec); it is
    stripped before framing."""
    clsmap = {}
    frames = []
    for i, m in enumerate(msgs):
        m = dict(m)
        c = m.pop("_cls", None)
        clsmap[i] = c
        frames.append(adapter.frame(m))
    inp = b"".join(frames)
    counter = {"n": 0}

    def cls(msg):
        i = counter["n"]
        counter["n"] += 1
        c = clsmap.get(i)
        if c:
            return c
        return classify(msg)

    conn = TraceConn(inp, cls)
    s = LangServer(conn, adapter.settings(args))
    try:
        s.run()
    except BaseException as ex:  # run() itself must never raise
        conn.events.append({"k": "crash", "error": type(ex).__name__})
    unread = len(msgs) - counter["n"]
    if geometry:
        attach_ranges(conn, s)
    conn.events.append({"k": "end", "unread": unread})
    return conn.events, s, conn


# ---------------------------------------------------------------------------
def _lines_of(s, path, cache):
    if path in cache:
        return cache[path]
    fo = s.workspace.get(path) if hasattr(s, "workspace") and isinstance(s.workspace, dict) else None
    if fo is not None and getattr(fo, "contents_split", None) is not None:
        lines = list(fo.contents_split)
    else:
        try:
            with open(path, encoding="utf-8", errors="replace") as fh:
                import re
                lines = re.split(r"\n|\r\n?", fh.read().replace("\t", " "))
        except OSError:
            lines = None
    cache[path] = lines
    return lines


def geom(lines, r):
    """[sl, sc, el, ec, nlines, len_sl, len_el] (lengths -1 when the line does not exist)."""
    try:
        sl, sc = r["start"]["line"], r["start"]["character"]
        el, ec = r["end"]["line"], r["end"]["character"]
    except (KeyError, TypeError):
        return [-1, -1, -1, -1, 0, -1, -1]
    if lines is None:
        return [sl, sc, el, ec, 0, -1, -1]
    n = len(lines)
    return [sl, sc, el, ec, n,
            len(lines[sl]) if isinstance(sl, int) and 0 <= sl < n else -1,
            len(lines[el]) if isinstance(el, int) and 0 <= el < n else -1]


def collect_ranges(obj, uri, out):
    """Walk an LSP result; yield (uri, range) for every range-carrying object."""
    if isinstance(obj, list):
        for x in obj:
            collect_ranges(x, uri, out)
        return
    if not isinstance(obj, dict):
        return
    u = obj.get("uri", uri) if isinstance(obj.get("uri", uri), str) else uri
    if "changes" in obj and isinstance(obj["changes"], dict):
        for k, v in obj["changes"].items():
            collect_ranges(v, k, out)
    for key in ("range", "selectionRange"):
        if isinstance(obj.get(key), dict) and "start" in obj[key]:
            out.append((u, obj[key]))
    for k, v in obj.items():
        if k in ("range", "selectionRange", "changes"):
            continue
        if isinstance(v, (dict, list)):
            collect_ranges(v, u, out)


def attach_ranges(conn, s):
    cache = {}
    cur_uri = None
    for ev, (kind, msg) in zip([e for e in conn.events if e["k"] in ("req", "note", "resp", "nout")], conn.raw):
        if kind == "in":
            try:
                cur_uri = msg["params"]["textDocument"]["uri"]
            except (KeyError, TypeError):
                cur_uri = None
            continue
        payload = msg.get("result") if "result" in msg else msg.get("params") if "method" in msg else None
        if msg.get("method") == "window/showMessage":
            continue
        found = []
        base = cur_uri
        if msg.get("method") == "textDocument/publishDiagnostics":
            base = msg["params"].get("uri")
        collect_ranges(payload, base, found)
        rs = []
        for u, r in found:
            lines = _lines_of(s, path_from_uri(u), cache) if isinstance(u, str) else None
            rs.append(geom(lines, r))
        ev["ranges"] = rs
