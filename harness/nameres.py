"""Renderer and replay for NameRes.tla universes (C05, C06, C12)."""
from __future__ import annotations

import json
import os
import random
import re

from . import adapter, par, tlc
from .common import Check

USE_TXT = {"none": None, "all": "use %s", "onlyx": "use %s, only: x", "onlyy": "use %s, only: y",
           "onlylx": "use %s, only: lx => x", "renlx": "use %s, lx => x"}
TEMPLATES = ["{n} = {n} + 1", "{n}={n}+1", "call sink({n}, {n})", "if ({n} > {n}) {n} = {n}", "print *, '{n}', \"{n}\", {n} ! {n}",
             "{n}={n}*{n}-{n}", "print *, 'stop! {n}', {n}, \"it's {n}!\", {n}",
             # an apostrophe inside each of two double-quoted literals (the text between them is code); a quote inside a comment
             "print *, \"it's\", {n}, \"it's\"", "print *, \"don't\", {n} ! isn't {n}", "print *, 'say \"{n}', {n}, 'q\"'"]


class Doc:
    def __init__(self, name):
        self.name = name
        self.lines = []
        self.tokens = []  # dict(file, line, sc, ec, name, ent (tuple|None), role)

    def add(self, text, toks=()):
        ln = len(self.lines)
        self.lines.append(text)
        for name, ent, role, nth in toks:
            # nth occurrence of the identifier outside strings/comments
            pos = ident_positions(text, name)
            sc = pos[nth]
            self.tokens.append({"file": self.name, "line": ln, "sc": sc, "ec": sc + len(name), "name": name, "ent": ent, "role": role})
        return ln


def ident_positions(text, name):
    """Start columns of identifier `name` outside character literals and comments."""
    out = []
    q = None
    i = 0
    n = len(text)
    while i < n:
        ch = text[i]
        if q:
            if ch == q:
                q = None
            i += 1
            continue
        if ch in "'\"":
            q = ch
            i += 1
            continue
        if ch == "!":
            break
        if (ch.isalpha() or ch == "_") and (i == 0 or not (text[i - 1].isalnum() or text[i - 1] in "_$")):
            j = i
            while j < n and (text[j].isalnum() or text[j] in "_$"):
                j += 1
            if text[i:j].lower() == name.lower():
                out.append(i)
            i = j
            continue
        i += 1
    return out


def ent(e):
    return (e[0], e[1]) if e else None


def render(st, seed=0, uniform=False):
    """-> (files {name: text}, docs {name: Doc}).  Token entities come from the spec state (st['res']).
    uniform=True: every name is referenced by the same statement whatever it resolves to, so that a file's
    text depends only on that file's own record (used for edit histories)."""
    rnd = random.Random(seed)
    res = {}
    for k, v in st["res"].items():
        res[(k[0], k[1])] = [tuple(x) for x in v]
    m1, m2, p, q = st["m1"], st["m2"], st["p"], st["q"]
    docs = {}

    def acc_lines(d, mod, M, names):
        if M["defpriv"]:
            d.add("  private")
        for n in names:
            a = M["accx"] if n == "x" else M.get("accy", "def")
            if a != "def" and n in M["decl"]:
                # Fortran names are case-insensitive: every other access list spells the name in upper case
                spelled = n.upper() if (rnd.random() < 0.5 and not uniform) else n
                d.add("  %s :: %s" % ("public" if a == "pub" else "private", spelled), [(n, (mod, n), "acclist", 0)])

    def ref_lines(d, site, indent):
        for n in ("x", "y", "lx"):
            r = res[(site, n)]
            if uniform:
                d.add(indent + "print *, %s" % n, [(n, r[0] if len(r) == 1 else None, "ref" if len(r) == 1 else ("probe" if len(r) == 0 else "ambiguous"), 0)])
            elif len(r) == 1:
                t = TEMPLATES[rnd.randrange(len(TEMPLATES))].format(n=n)
                k = len(ident_positions(t, n))
                toks = [(n, r[0], "ref", i) for i in range(k)]
                if "sink(" in t and site in ("p", "q"):
                    toks.append(("sink", ("p", "sink"), "ref", 0))   # the external procedure declared by p's interface body
                d.add(indent + t, toks)
            elif len(r) == 0:
                d.add(indent + "print *, %s" % n, [(n, None, "probe", 0)])

    def use_line(d, cl, mod, exported_lookup):
        t = USE_TXT[cl]
        if t is None:
            return
        toks = []
        if cl in ("onlyx", "onlyy"):
            n = cl[-1]
            e = exported_lookup(n)
            toks.append((n, e, "only", 0))
        d.add("  " + t % mod, toks)

    # what m1 / m2 export, recomputed only to bind ONLY-list tokens (the binding of references comes from st['res'])
    def exp1(n):
        return ("m1", n)

    def exp2(n):
        if n in m2["decl"]:
            return ("m2", n)
        r = res[("m2", n)]
        return r[0] if len(r) == 1 else None

    d = Doc("m1.f90")
    d.add("module m1")
    d.add("  implicit none")
    acc_lines(d, "m1", m1, ["x"])
    for n in sorted(m1["decl"]):
        d.add("  integer :: %s = 1" % n, [(n, ("m1", n), "decl", 0)])
    d.add("end module m1")
    docs[d.name] = d

    d = Doc("m2.f90")
    d.add("module m2")
    use_line(d, m2["use1"], "m1", exp1)
    d.add("  implicit none")
    acc_lines(d, "m2", m2, ["x", "y"])
    for n in sorted(m2["decl"]):
        d.add("  integer :: %s = 2" % n, [(n, ("m2", n), "decl", 0)])
    d.add("contains")
    d.add("  subroutine s2()")
    ref_lines(d, "m2", "    ")
    d.add("  end subroutine s2")
    d.add("end module m2")
    docs[d.name] = d

    d = Doc("p.f90")
    d.add("program p")
    use_line(d, p["use1"], "m1", exp1)
    use_line(d, p["use2"], "m2", exp2)
    d.add("  implicit none")
    for n in sorted(p["decl"]):
        d.add("  integer :: %s" % n, [(n, ("p", n), "decl", 0)])
    if not uniform:
        d.add("  interface")
        d.add("    subroutine sink(a, b)", [("sink", ("p", "sink"), "decl", 0)])
        d.add("      integer :: a, b")
        d.add("    end subroutine sink", [("sink", ("p", "sink"), "endname", 0)])
        d.add("  end interface")
    ref_lines(d, "p", "  ")
    d.add("contains")
    d.add("  subroutine q()")
    use_line_q = USE_TXT[q.get("use1", "none")]
    if use_line_q:
        cl = q["use1"]
        d.add("    " + use_line_q % "m1", [(cl[-1], ("m1", cl[-1]), "only", 0)])
    for n in sorted(q["decl"]):
        d.add("    integer :: %s" % n, [(n, ("q", n), "decl", 0)])
    ref_lines(d, "q", "    ")
    d.add("  end subroutine q")
    d.add("end program p")
    docs[d.name] = d
    files = {k: "\n".join(v.lines) + "\n" for k, v in docs.items()}
    return files, docs


def all_tokens(docs):
    return [t for d in docs.values() for t in d.tokens]


def decl_token(docs, e):
    for t in all_tokens(docs):
        if t["role"] == "decl" and t["ent"] == e:
            return t
    return None


def universe_tags(st):
    """Features of the universe that the known findings are keyed on (computed from the spec state)."""
    f = set()
    clauses = (st["m2"]["use1"], st["p"]["use1"])
    if "renlx" in clauses:
        f.add("feature:renameWithoutOnly")
    if st["m2"]["defpriv"] and st["m2"]["use1"] != "none":
        f.add("feature:defaultPrivateModuleUses")
    # paths along which module m1 is reached from the program: directly, through m2, from the internal procedure
    paths = [st["p"]["use1"] != "none", st["p"]["use2"] != "none" and st["m2"]["use1"] != "none", st["q"].get("use1", "none") != "none"]
    if ("onlylx" in clauses or "renlx" in clauses) and sum(paths) >= 2:
        f.add("feature:renameAndSecondPathToSameModule")
    if st["m2"]["use1"] in ("onlylx", "renlx") and not st["m2"]["defpriv"]:
        f.add("feature:moduleReexportsRenamedName")
    return f


def via(st, site, name, e):
    """How the spec binds `name` at `site` to entity e: the association path, as a tag."""
    if e is None:
        return "via:none"
    if e[0] == site:
        return "via:local"
    if site == "q":
        qu = st["q"].get("use1", "none")
        if e[0] == "m1" and ((qu == "onlyx" and name == "x") or (qu == "onlyy" and name == "y")):
            return "via:ownUse(" + qu + ")"
        return "via:host+" + via(st, "p", name, e)[4:] + ("+ownUse" if qu != "none" else "")
    if site == "m2":
        return "via:use(" + st["m2"]["use1"] + ")"
    # site p
    m1x = st["p"]["use1"]
    direct = (e[0] == "m1" and ((m1x in ("all",) and name == e[1]) or (m1x == "onlyx" and name == "x") or
                                (m1x in ("onlylx",) and name == "lx") or (m1x == "renlx" and (name == "lx" or (name == e[1] and name != "x")))))
    if direct:
        return "via:use(" + m1x + ")"
    if e[0] == "m2":
        return "via:use(" + st["p"]["use2"] + ")"
    return "via:reexport(m2 use " + st["m2"]["use1"] + ", p use " + st["p"]["use2"] + ")"


def loc_of(res, d):
    """Normalise a definition result to (file, line, sc, ec) or None."""
    if isinstance(res, list):
        res = res[0] if res else None
    if not isinstance(res, dict) or "uri" not in res:
        return None
    f = os.path.basename(adapter.path_from_uri(res["uri"]))
    r = res["range"]
    return (f, r["start"]["line"], r["start"]["character"], r["end"]["character"])


# ---------------------------------------------------------------------------
def check_c05(job):
    st, seed = job[0], job[1]
    files, docs = render(st, seed)
    d = adapter.mkws(files)
    bad = []
    stats = {}
    try:
        s, c = adapter.mkserver(d)
        for f in files:
            adapter.did_open(s, c, d, f)
        for t in all_tokens(docs):
            if t["role"] not in ("ref", "probe"):
                continue
            for col in {t["sc"], (t["sc"] + t["ec"]) // 2, t["ec"]}:
                got = loc_of(adapter.result_of(adapter.request(s, c, "textDocument/definition", adapter.posparams(d, t["file"], t["line"], col))), d)
                sname = ("q" if t["line"] > docs["p.f90"].lines.index("contains") and t["file"] == "p.f90" else t["file"][:-4])
                site = via(st, sname, t["name"], t["ent"])
                key = site if t["role"] == "ref" else "probe"
                stats.setdefault(key, [0, 0])
                stats[key][0] += 1
                nbad = len(bad)
                if t["role"] == "probe":
                    # nothing accessible by that name: the answer must not be a PRIVATE or otherwise inaccessible entity
                    if got is not None:
                        tgt = [x for x in all_tokens(docs) if x["role"] == "decl" and (x["file"], x["line"]) == (got[0], got[1])]
                        why = "?"
                        if tgt:
                            te = tgt[0]["ent"]
                            M = st[te[0]] if te[0] in ("m1", "m2") else None
                            if M is not None:
                                a = M["accx"] if te[1] == "x" else M.get("accy", "def")
                                why = "private" if (a == "priv" or (a == "def" and M["defpriv"])) else "publicButNotAssociated"
                        bad.append(({"c05:inaccessibleAnswered", "site:" + sname, "target:" + (tgt[0]["ent"][0] if tgt else "?"), "why:" + why},
                                    {"token": t, "observed": got}))
                    break
                dt = decl_token(docs, t["ent"])
                exp = (dt["file"], dt["line"], dt["sc"], dt["ec"])
                if got is None:
                    bad.append(({"c05:noDefinition", site}, {"token": t, "expected": exp, "observed": got, "cursor": col}))
                    break
                if got[:2] != exp[:2]:
                    bad.append(({"c05:wrongDeclaration", site, "answered:" + next((x["ent"][0] for x in all_tokens(docs) if x["role"] == "decl" and (x["file"], x["line"]) == got[:2]), "?")}, {"token": t, "expected": exp, "observed": got, "cursor": col}))
                    break
                if got[2:] != exp[2:]:
                    bad.append(({"c05:rangeNotName", site}, {"token": t, "expected": exp, "observed": got}))
                    break
            for k2 in list(stats):
                pass
        # history: the same questions after an UNSAVED edit of m2 that changes what it uses / re-exports;
        # p's and q's text is unchanged, the answers must follow the current buffers
        if len(job) > 2 and job[2] is not None and not bad:
            st2 = job[2]
            f1, d1 = render(st, seed, uniform=True)
            f2, d2 = render(st2, seed, uniform=True)
            if f1["p.f90"] == f2["p.f90"] and f1["m1.f90"] == f2["m1.f90"]:
                for fn, tx in f1.items():
                    adapter.notify(s, c, "textDocument/didChange", {"textDocument": {"uri": adapter.uri(d, fn)}, "contentChanges": [{"text": tx}]})
                    adapter.notify(s, c, "textDocument/didSave", {"textDocument": {"uri": adapter.uri(d, fn)}}) if False else None
                for fn, tx in f1.items():
                    with open(os.path.join(d, fn), "w") as fh:
                        fh.write(tx)
                    adapter.notify(s, c, "textDocument/didSave", {"textDocument": {"uri": adapter.uri(d, fn)}})
                toks1 = [t for t in all_tokens(d1) if t["file"] == "p.f90" and t["role"] in ("ref", "probe")]
                for t in toks1:   # first round of lookups (fills whatever the server caches)
                    adapter.request(s, c, "textDocument/definition", adapter.posparams(d, t["file"], t["line"], t["sc"]))
                adapter.notify(s, c, "textDocument/didChange", {"textDocument": {"uri": adapter.uri(d, "m2.f90")}, "contentChanges": [{"text": f2["m2.f90"]}]})
                for t in [t for t in all_tokens(d2) if t["file"] == "p.f90" and t["role"] == "ref"]:
                    got = loc_of(adapter.result_of(adapter.request(s, c, "textDocument/definition", adapter.posparams(d, t["file"], t["line"], t["sc"]))), d)
                    dt = decl_token(d2, t["ent"])
                    exp = (dt["file"], dt["line"], dt["sc"], dt["ec"])
                    if got is None or got[:2] != exp[:2]:
                        bad.append(({"c05:staleAfterUnsavedEditElsewhere", "m2.use1:%s->%s" % (st["m2"]["use1"], st2["m2"]["use1"])},
                                    {"token": t, "expected": exp, "observed": got, "m2_after": f2["m2.f90"]}))
                        break
    finally:
        adapter.rmws(d)
    fails = {}
    for tg, _x in bad:
        v = next((x for x in tg if x.startswith("via:")), "probe")
        fails[v] = fails.get(v, 0) + 1
    return [(t, dict(x, files=files)) for t, x in bad] + [({"__stats__"}, {"checked": stats, "failed": fails})]


def ranges_of(res):
    out = set()
    for r in res or []:
        if "uri" in r:
            f = os.path.basename(adapter.path_from_uri(r["uri"]))
        else:
            f = None
        rg = r["range"]
        out.add((f, rg["start"]["line"], rg["start"]["character"], rg["end"]["character"]))
    return out


def check_c06(job):
    st, seed = job
    files, docs = render(st, seed)
    d = adapter.mkws(files)
    bad = []
    try:
        s, c = adapter.mkserver(d)
        for f in files:
            adapter.did_open(s, c, d, f)
        toks = all_tokens(docs)
        ents = sorted({t["ent"] for t in toks if t["ent"]})
        for e in ents:
            # occurrences = tokens bound to e under e's own spelling; uses through a rename (lx) are bound to e
            # too but spelled differently: don't-care for references, never to be edited by rename
            occ = {(t["file"], t["line"], t["sc"], t["ec"]) for t in toks if t["ent"] == e and t["name"] == e[1]}
            alias = {(t["file"], t["line"], t["sc"], t["ec"]) for t in toks if t["ent"] == e and t["name"] != e[1]}
            # rename-clause tokens ("lx => x") are don't-care
            dont = set()
            for dn, dd in docs.items():
                for i, l in enumerate(dd.lines):
                    if "=>" in l:
                        for nm in ("lx", "x"):
                            for p0 in ident_positions(l, nm):
                                dont.add((dn, i, p0, p0 + len(nm)))
            dont |= alias
            # an ONLY item whose name is ambiguous in that scope (two modules offer it) is don't-care
            res_ = {(k[0], k[1]): v for k, v in st["res"].items()}
            for t2 in toks:
                if t2["role"] == "only" and len(res_.get((t2["file"][:-4], t2["name"]), [])) > 1:
                    dont.add((t2["file"], t2["line"], t2["sc"], t2["ec"]))
            occ -= dont
            answers = []
            for t in [t for t in toks if t["ent"] == e and t["name"] == e[1] and (t["file"], t["line"], t["sc"], t["ec"]) in occ]:
                pp = adapter.posparams(d, t["file"], t["line"], t["sc"] + 1 if t["ec"] - t["sc"] > 1 else t["sc"], context={"includeDeclaration": True})
                res = adapter.result_of(adapter.request(s, c, "textDocument/references", pp))
                if isinstance(res, dict) and "__error__" in res:
                    bad.append(({"c06:error", "role:" + t["role"]}, {"token": t, "error": res}))
                    break
                got = ranges_of(res)
                missing = occ - got
                extra = got - occ - dont
                site_kinds = set()
                if missing:
                    # classify: adjacent occurrence (one separator character after the previous occurrence)?
                    for m in sorted(missing):
                        prev = [o for o in occ if o[0] == m[0] and o[1] == m[1] and o[3] + 1 == m[2]]
                        site_kinds.add("missing:adjacentOccurrence" if prev else "missing:" + next((x["role"] for x in toks if (x["file"], x["line"], x["sc"]) == m[:3]), "?"))
                    bad.append(({"c06:missingOccurrence", "from:" + t["role"]} | site_kinds, {"entity": e, "from": t, "missing": sorted(missing), "observed": sorted(got)}))
                    break
                if extra:
                    bad.append(({"c06:foreignOccurrence", "from:" + t["role"]}, {"entity": e, "from": t, "extra": sorted(extra), "expected": sorted(occ)}))
                    break
                answers.append(got - dont)
                # documentHighlight: same set restricted to the file
                hl = adapter.result_of(adapter.request(s, c, "textDocument/documentHighlight", pp))
                hgot = {((x[0] or t["file"]),) + x[1:] for x in ranges_of(hl)}
                hexp = set(occ)
                if not (hexp <= hgot and hgot - hexp <= dont):
                    bad.append(({"c06:highlightDiffers", "from:" + t["role"]}, {"entity": e, "from": t, "expected": sorted(hexp), "observed": sorted(hgot)}))
                    break
                # rename: edits on exactly those ranges
                rn = adapter.result_of(adapter.request(s, c, "textDocument/rename", dict(pp, newName="zz9")))
                if isinstance(rn, dict) and "changes" in rn:
                    eg = set()
                    for u, eds in rn["changes"].items():
                        f = os.path.basename(adapter.path_from_uri(u))
                        for ed in eds:
                            eg.add((f, ed["range"]["start"]["line"], ed["range"]["start"]["character"], ed["range"]["end"]["character"]))
                            if ed.get("newText") != "zz9":
                                bad.append(({"c06:renameText"}, {"edit": ed}))
                    if eg & alias:
                        bad.append(({"c06:renameEditsAlias", "from:" + t["role"]}, {"entity": e, "from": t, "alias_edited": sorted(eg & alias)}))
                        break
                    if not (occ <= eg and eg - occ <= dont):
                        bad.append(({"c06:renameRanges", "from:" + t["role"]}, {"entity": e, "from": t, "expected": sorted(occ), "observed": sorted(eg)}))
                        break
                elif occ:
                    bad.append(({"c06:renameNoEdits", "from:" + t["role"]}, {"entity": e, "from": t, "result": rn}))
                    break
            if len({frozenset(a) for a in answers}) > 1:
                bad.append(({"c06:dependsOnInvocationPoint"}, {"entity": e}))
            # history: query, an in-line edit that needs no re-parse (two blanks inserted at the start of a
            # line holding occurrences), query again - the answer must describe the CURRENT text
            reft = [t for t in toks if t["ent"] == e and t["name"] == e[1] and t["role"] == "ref"]
            if reft and not bad:
                t0 = reft[0]
                adapter.notify(s, c, "textDocument/didChange", {"textDocument": {"uri": adapter.uri(d, t0["file"])}, "contentChanges": [
                    {"range": {"start": {"line": t0["line"], "character": 0}, "end": {"line": t0["line"], "character": 0}}, "text": "  "}]})
                shift = lambda o: (o[0], o[1], o[2] + 2, o[3] + 2) if (o[0], o[1]) == (t0["file"], t0["line"]) else o
                occ2 = {shift(o) for o in occ}
                dont2 = {shift(o) for o in dont}
                pp = adapter.posparams(d, t0["file"], t0["line"], t0["sc"] + 2, context={"includeDeclaration": True})
                got = ranges_of(adapter.result_of(adapter.request(s, c, "textDocument/references", pp)))
                if not (occ2 <= got and got - occ2 <= dont2):
                    bad.append(({"c06:staleAfterInlineEdit"}, {"entity": e, "expected": sorted(occ2), "observed": sorted(got)}))
                adapter.notify(s, c, "textDocument/didChange", {"textDocument": {"uri": adapter.uri(d, t0["file"])}, "contentChanges": [
                    {"range": {"start": {"line": t0["line"], "character": 0}, "end": {"line": t0["line"], "character": 2}}, "text": ""}]})
    finally:
        adapter.rmws(d)
    return [(t, dict(x, files=files)) for t, x in bad]


def check_c12(job):
    st, seed = job
    files, docs = render(st, seed)
    d = adapter.mkws(files)
    bad = []
    res = {(k[0], k[1]): v for k, v in st["res"].items()}
    try:
        s, c = adapter.mkserver(d)
        for f in files:
            adapter.did_open(s, c, d, f)
        pcont = docs["p.f90"].lines.index("contains")
        seen = set()
        for t in all_tokens(docs):
            if t["role"] not in ("ref", "probe"):
                continue
            site = "q" if (t["file"] == "p.f90" and t["line"] > pcont) else t["file"][:-4]
            for plen in range(1, len(t["name"]) + 1):
                prefix = t["name"][:plen]
                if (site, prefix) in seen:
                    continue
                seen.add((site, prefix))
                # the user has typed `prefix` on a fresh statement line of that scope
                line = t["line"]
                ind = len(docs[t["file"]].lines[line]) - len(docs[t["file"]].lines[line].lstrip())
                # the same executable-statement context in three spellings: the bare prefix, and the right-hand side of an
                # assignment to a variable whose name begins with a keyword (END..., IMPORT...)
                for form, lead in (("bare", ""), ("rhsOfEndName", "end_value = "), ("rhsOfImportName", "important = ")):
                    ftag = set() if form == "bare" else {"form:" + form}
                    text = " " * ind + lead + prefix
                    adapter.notify(s, c, "textDocument/didChange", {"textDocument": {"uri": adapter.uri(d, t["file"])}, "contentChanges": [
                        {"range": {"start": {"line": line, "character": 0}, "end": {"line": line, "character": 0}}, "text": text + "\n"}]})
                    r = adapter.result_of(adapter.request(s, c, "textDocument/completion", adapter.posparams(d, t["file"], line, len(text))))
                    adapter.notify(s, c, "textDocument/didChange", {"textDocument": {"uri": adapter.uri(d, t["file"])}, "contentChanges": [
                        {"range": {"start": {"line": line, "character": 0}, "end": {"line": line + 1, "character": 0}}, "text": ""}]})
                    items = r.get("items", r) if isinstance(r, dict) else (r or [])
                    if isinstance(r, dict) and "__error__" in r:
                        bad.append(({"c12:error"} | ftag, {"site": site, "prefix": prefix, "typed": text, "error": r}))
                        continue
                    labels = {str(i.get("label", "")).lower() for i in items if isinstance(i, dict)}
                    want = {n for n in ("x", "y", "lx") if n.startswith(prefix) and len(res[(site, n)]) >= 1}
                    forbid = {n for n in ("x", "y", "lx") if n.startswith(prefix) and len(res[(site, n)]) == 0}
                    noprefix = {l for l in labels if l in ("x", "y", "lx") and not l.startswith(prefix)}
                    if want - labels:
                        bad.append(({"c12:accessibleNotOffered", "site:" + site, "name:" + sorted(want - labels)[0]} | ftag, {"site": site, "prefix": prefix, "typed": text, "missing": sorted(want - labels), "labels": sorted(labels)[:40]}))
                    if forbid & labels:
                        bad.append(({"c12:inaccessibleOffered", "site:" + site, "name:" + sorted(forbid & labels)[0]} | ftag, {"site": site, "prefix": prefix, "typed": text, "offered": sorted(forbid & labels)}))
                    if noprefix:
                        bad.append(({"c12:prefixIgnored", "site:" + site} | ftag, {"site": site, "typed": text, "prefix": prefix, "offered": sorted(noprefix)}))
        # restricting contexts: USE, USE ..., ONLY:, CALL - typed on a fresh line of the program / of m2's procedure
        ctx = st["ctx"]
        names = ("x", "y", "lx")

        def complete(fname, line, text):
            adapter.notify(s, c, "textDocument/didChange", {"textDocument": {"uri": adapter.uri(d, fname)}, "contentChanges": [
                {"range": {"start": {"line": line, "character": 0}, "end": {"line": line, "character": 0}}, "text": text + "\n"}]})
            r = adapter.result_of(adapter.request(s, c, "textDocument/completion", adapter.posparams(d, fname, line, len(text))))
            adapter.notify(s, c, "textDocument/didChange", {"textDocument": {"uri": adapter.uri(d, fname)}, "contentChanges": [
                {"range": {"start": {"line": line, "character": 0}, "end": {"line": line + 1, "character": 0}}, "text": ""}]})
            items = r.get("items", r) if isinstance(r, dict) else (r or [])
            return {str(i.get("label", "")).lower() for i in items if isinstance(i, dict)}
        pl = docs["p.f90"].lines
        use_line = 1                                    # directly after "program p"
        exec_line = pl.index("contains")                # last executable position of p
        labels = complete("p.f90", use_line, "  use m")
        if not set(ctx["useModules"]) <= labels or labels & set(names) or labels & {"s2", "q"}:
            bad.append(({"c12:useContext"}, {"expected_modules": sorted(ctx["useModules"]), "labels": sorted(labels)[:30]}))
        # (fortls offers nothing for an empty prefix unless --autocomplete_no_prefix: one letter is typed)
        for mod, key in (("m1", "only1"), ("m2", "only2")):
            for pre in ("x", "y", "s", "l"):
                labels = complete("p.f90", use_line, "  use %s, only: %s" % (mod, pre))
                want = {n for n in ctx[key] if n.startswith(pre)}
                if labels != want:
                    bad.append(({"c12:onlyContext", "module:" + mod} | ({"missing"} if want - labels else set()) | ({"extra"} if labels - want else set()),
                                {"module": mod, "prefix": pre, "expected": sorted(want), "labels": sorted(labels)[:30]}))
        for pre in ("q", "s", "x", "l"):
            # CALL as the first token, as the action of a logical IF, and behind a ";"
            for cform, lead in (("first", "  call "), ("afterIf", "  if (.true.) call "), ("afterSemicolon", "  continue; call ")):
                labels = complete("p.f90", exec_line, lead + pre)
                want = {n for n in ctx["callP"] if n.startswith(pre)}
                vars_offered = labels & set(names)
                ctag = set() if cform == "first" else {"call:" + cform}
                if not want <= labels or vars_offered:
                    bad.append(({"c12:callContext", "site:p"} | ctag | ({"missing"} if want - labels else set()) | ({"variableOffered"} if vars_offered else set()),
                                {"prefix": pre, "typed": lead + pre, "expected_callables": sorted(want), "labels": sorted(labels)[:30]}))
                if "s2" in labels and "s2" not in ctx["callP"]:
                    bad.append(({"c12:callContext", "site:p", "inaccessibleCallableOffered"} | ctag, {"prefix": pre, "labels": sorted(labels)[:30]}))
    finally:
        adapter.rmws(d)
    return [(t, dict(x, files=files)) for t, x in bad]


def run(pid, fn, tier, seed, assumptions):
    ck = Check(pid, tier, seed)
    ck.assumptions = assumptions
    r = tlc.run("NameRes", "NameRes_MC.cfg", timeout=900)
    ck.add_tlc("NameRes_MC", r)
    if not r.ok:
        ck.machinery("NameRes_MC violated %s (reference semantics inconsistent)" % r.violated)
        return ck
    info = {}
    states = list(tlc.dump_states("NameRes", "NameRes_MC.cfg", info=info, timeout=1800))
    ck.add_tlc("NameRes_Gen", info["result"])
    rnd = random.Random(seed)
    all_states = list(states)
    if tier == "quick":
        rnd.shuffle(states)
        states = states[:2500]
    else:
        ck.note("exhaustive", True)
    jobs = [(s, seed + i) for i, s in enumerate(states)]
    if pid == "C05":
        # partner universe: same m1, p, q; m2 differs only in its USE clause (for the unsaved-edit history)
        def key(s_, use1=None):
            m2 = dict(s_["m2"])
            if use1 is not None:
                m2["use1"] = use1
            return json.dumps([s_["m1"], m2, s_["p"], s_["q"]], sort_keys=True, default=list)
        index = {key(s_): s_ for s_ in all_states}
        jobs = []
        for i, s_ in enumerate(states):
            partner = None
            for u in ("all", "none", "onlyx", "onlylx", "renlx"):
                if u != s_["m2"]["use1"] and key(s_, u) in index:
                    cand = index[key(s_, u)]
                    if not universe_tags(cand) and not universe_tags(s_):
                        partner = cand
                        break
            jobs.append((s_, seed + i, partner))
    agg = {}
    for i, status, val in par.pmap(fn, jobs, item_timeout=180):
        ck.count(key=json.dumps({k: states[i][k] for k in ("m1", "m2", "p", "q")}, sort_keys=True, default=str))
        if status != "done":
            ck.violation({"replay:" + status}, {"kind": "universe", "state": tlaval_py(states[i]), "seed": jobs[i][1], "detail": val})
            continue
        ck.traces += 1
        for tags, detail in val:
            if tags == {"__stats__"}:
                for k, v in detail["checked"].items():
                    agg.setdefault(k, [0, 0])[0] += v[0]
                for k, v in detail["failed"].items():
                    agg.setdefault(k, [0, 0])[1] += v
                continue
            detail.update(kind="universe", state=tlaval_py(states[i]), seed=jobs[i][1])
            ck.violation(tags | universe_tags(states[i]), detail)
    ck.note("universes", len(states))
    if pid in ("C05", "C12", "C06"):
        from . import typeres
        typeres.run(ck, tier, {"C05": "definition", "C12": "completion", "C06": "references"}[pid])
        if pid == "C05":
            from . import usegraph
            usegraph.run(ck, tier)
    if agg:
        ck.note("cursor_positions_checked_and_failed_by_association_path", {k: {"checked": v[0], "failed": v[1]} for k, v in sorted(agg.items())})
    for s in states[:2]:
        f, _d = render(s, seed)
        ck.sample({"files": f, "resolution": {"%s:%s" % k: v for k, v in s["res"].items()}})
    return ck


def tlaval_py(st):
    out = {k: st[k] for k in ("m1", "m2", "p", "q")}
    out["res"] = [[list(k), v] for k, v in st["res"].items()]
    out["ctx"] = {k: list(v) for k, v in st.get("ctx", {}).items()}
    return out


def state_from_py(o):
    st = {k: o[k] for k in ("m1", "m2", "p", "q")}
    st["res"] = {tuple(k): v for k, v in o["res"]}
    st["ctx"] = o.get("ctx", {})
    for k in ("m1", "m2", "p", "q"):
        st[k]["decl"] = list(st[k]["decl"])
    return st
