"""C03: indexing is total and terminates on every document text.

Inputs come from the specifications: every prefix of every valid program
(non-final states of FortranScopes SpecValid), every statement sequence of the
robust alphabet (SpecRobust), directive files of Preproc.tla rendered without
closing their conditionals, plus seeded one-character / one-line mutations of
those renderings and of the repository's sample sources.  Each text is indexed
by a live server (didChange whole-document, .f90 and .F90, free and fixed
rendering) inside killable workers; the push/pop events recorded around
FortranAST.add_scope/end_scope are validated by TLC against
FortranScopesTrace.tla (stack discipline, every scope closed at end of file).
"""
from __future__ import annotations

import json
import os
import random
import re
import time

from . import adapter, fscopes, par, tlc
from .common import Check, REPO
from . import c08

SRC = os.path.join(REPO, "test", "test_source")
_ST = {}


def install_shim():
    from fortls.parsers.internal.ast import FortranAST
    if getattr(FortranAST, "_verif_shim", False):
        return
    FortranAST._verif_shim = True
    o_add, o_end = FortranAST.add_scope, FortranAST.end_scope

    def add_scope(self, new_scope, *a, **kw):
        ev = getattr(self, "_verif_events", None)
        if ev is None:
            ev = self._verif_events = []
        depth = len(self.scope_stack) + (1 if self.current_scope is not None else 0)
        r = o_add(self, new_scope, *a, **kw)
        # create_none_scope() pushes the implicit main program first (recursive add_scope): depth is recomputed
        depth2 = len(self.scope_stack)
        ev.append({"k": "push", "depth": depth2 if self.current_scope is new_scope else depth, "line": int(getattr(new_scope, "sline", 0) or 0), "sline": 0, "implicitOnly": False})
        return r

    def end_scope(self, line_number, check=True):
        ev = getattr(self, "_verif_events", None)
        if ev is None:
            ev = self._verif_events = []
        before = self.current_scope
        depth = len(self.scope_stack) + (1 if before is not None else 0)
        r = o_end(self, line_number, check)
        if before is not None and self.current_scope is not before:
            ev.append({"k": "pop", "depth": depth, "line": int(line_number), "sline": int(getattr(before, "sline", 0) or 0), "implicitOnly": False})
        else:
            ev.append({"k": "orphan", "depth": depth, "line": int(line_number), "sline": 0,
                       "implicitOnly": before is not None and before is self.none_scope})
        return r

    FortranAST.add_scope = add_scope
    FortranAST.end_scope = end_scope


def index_text(text, suffix):
    """Index one text through the live server; returns (problems, trace events)."""
    key = suffix
    if key not in _ST:
        install_shim()
        d = adapter.mkws(dict(c08.HEADERS, **{"t" + suffix: "program seed\nend program seed\n"}))
        s, c = adapter.mkserver(d)
        adapter.did_open(s, c, d, "t" + suffix)
        _ST[key] = (d, s, c)
    d, s, c = _ST[key]
    uri = adapter.uri(d, "t" + suffix)
    path = os.path.join(d, "t" + suffix)
    del c.out[:]
    problems = []
    t0 = time.process_time()
    adapter.notify(s, c, "textDocument/didChange", {"textDocument": {"uri": uri}, "contentChanges": [{"text": text}]})
    for e in c.out:
        if e["t"] == "note" and e["method"] == "window/showMessage":
            problems.append(("update:" + re.sub(r"'[^']*'", "'_'", e["params"]["message"])[:60], e["params"]["message"][:300]))
        if e["t"] == "err":
            problems.append(("update:errorResponse", e["message"][:200]))
    fo = s.workspace.get(path)
    if problems and fo is not None:
        # name the failure: re-run the parse directly to see the exception the server swallowed
        import traceback
        try:
            fo.parse(pp_defs=dict(s.pp_defs), include_dirs=set(s.include_dirs))
        except BaseException as ex:  # noqa
            tb = traceback.extract_tb(ex.__traceback__)
            site = "%s:%s" % (os.path.basename(tb[-1].filename), tb[-1].name) if tb else "?"
            problems = [("parse:%s@%s" % (type(ex).__name__, site), "%r | %s" % (ex, problems[0][1]))]
    events = []
    if fo is not None and fo.ast is not None:
        events = list(getattr(fo.ast, "_verif_events", []))
        scopes = list(fo.ast.scope_list) + ([fo.ast.none_scope] if fo.ast.none_scope is not None else [])
        unended = sum(1 for sc in scopes if getattr(sc, "eline", None) is None or sc.eline < sc.sline)
        events.append({"k": "eof", "implicitOnly": False, "depth": 0, "line": 0, "sline": 0, "unended": unended, "nscopes": sum(1 for e in events if e["k"] == "push"), "ok": True})
    # the index must be queryable
    del c.out[:]
    nlines = text.count("\n") + 1
    for m, p in (("textDocument/documentSymbol", {"textDocument": {"uri": uri}}),
                 ("textDocument/definition", {"textDocument": {"uri": uri}, "position": {"line": min(1, nlines - 1), "character": 3}}),
                 ("textDocument/hover", {"textDocument": {"uri": uri}, "position": {"line": max(0, nlines - 2), "character": 9}}),
                 ("textDocument/completion", {"textDocument": {"uri": uri}, "position": {"line": max(0, nlines - 1), "character": 1}})):
        s.handle({"jsonrpc": "2.0", "id": 5, "method": m, "params": p})
    for e in c.out:
        if e["t"] == "err":
            problems.append(("query:" + re.sub(r"\d+", "N", e["message"])[:60], e["message"][:200]))
    del c.out[:]
    diags, exc = s.get_diagnostics(uri)
    if exc is not None:
        problems.append(("diagnostics:" + type(exc).__name__, repr(exc)[:200]))
    cpu = time.process_time() - t0
    if cpu > 5.0 and nlines <= 60:
        problems.append(("slow", "%.1fs cpu for %d lines" % (cpu, nlines)))
    return problems, events


def run_batch(batch):
    out = []
    for text, suffix, origin in batch:
        pr, ev = index_text(text, suffix)
        out.append((pr, ev))
    return out


def fixed_form(lines):
    return ["      " + l.strip() for l in lines]


def mutate(text, rnd):
    k = rnd.randrange(5)
    if not text:
        return "&"
    i = rnd.randrange(len(text))
    if k == 0:
        return text[:i] + text[i + 1:]
    if k == 1:
        return text[:i] + text[i] + text[i:]
    if k == 2 and i + 1 < len(text):
        return text[:i] + text[i + 1] + text[i] + text[i + 2:]
    if k == 3:
        return text[:i] + rnd.choice("'\"()&!;#\\%") + text[i + 1:]
    lines = text.split("\n")
    j = rnd.randrange(len(lines))
    return "\n".join(lines[:j] + lines[j + 1:])


ROBUST_EXTRA = [
    "#define F(x) x\n#if F\ninteger :: a\n#endif\n", "#define FOO 1\nx = FOO\n#undef FOO\n#define FOO(a) a+1\ny = FOO(2)\n",
    '#include "hloop.h"\n#include "hping.h"\ninteger :: a\n', "#define A A\n#if A\n#endif\n#if A == 1\n#endif\nx = A\n",
    "#define A B\n#define B A\n#if A > 1\n#elif B\n#endif\nx = A + B\n", "#define F(a,b) a\n#define G(x) F(x,x)\ny = G(F(1,2))\n#if G(1)\n#endif\n",
    "#define M a \\\n  b\\1 \\\n  '\\d'\nx = M\n", "#define F(a) a+ \\\n  \\g<9>a\ny = F(1)\n", "#define Q \\\n\\\n\\\nz = Q\n",
    "procedure(f) :: g\n", "#define X 1 \\\n\ninteger :: a\n", "#define X 1 \\", "#define A \\1\ninteger :: A\n",
    "#else\n#endif\n#elif 1\n", "#endif\n", "#if\n#elif\n#else\n#else\n#endif\n#endif\n",
    "program p\ninterface\nsubroutine s()\nimport\nimport\nend subroutine\nend interface\nend program\n",
    "end\nend\ncontains\ncontains\n", "module m\ntype t\ncontains\nprocedure :: \nend type\nend module\n",
    "submodule (a:b) c\nend\n", "use, intrinsic ::\n", "integer :: a = [(i, i=1,\n", "subroutine s(a,\n", "type(\n", "call x%\n",
    "program p\n  integer :: i\n  do 10 i=1,2\n10 continue\n  if (i) 1,2,3\nend\n",
    "#include \"nofile.h\"\n#include\n", "#define F(a,b) a\\b+b\nx = F(1,2)\nx = F(1\n", "\t\tprogram\ttabs\n\tend\n",
    "implicit none\nprivate\npublic :: \ncontains\nend\n", "interface operator(+)\nmodule procedure\nend interface\n",
    "select type (x)\nclass is (\ntype is\nend select\n", "enum, bind(c)\nenumerator :: a=\nend enum\n", "block\nassociate (a =>\nend associate\nend block\n",
]


LONG_RUNS = ["a", "very_long_name_", "9", "_", "%", "a%", "(", ")", "()", "(a", " ", "&", "'", '"', "!", ":", ",", "=", "*", "a(1)%", "1234567890", "\\", ";", "a b "]


def main(tier, seed):
    ck = Check("C03", tier, seed)
    rnd = random.Random(seed)
    ck.assumptions = [
        "texts are statement-level: prefixes of valid programs, sequences over the robust statement alphabet, directive and macro-table files of Preproc.tla, long runs of one character class in every statement position, a catalogue of hostile fragments, and one-character/one-line mutations of all of those and of the sample sources; arbitrary byte strings are not enumerated",
        "time bound: 5 s CPU per text of <= 60 lines, measured in the worker; a worker that stalls is killed and the text reported as a hang",
    ]
    for cfg, req in (("FortranScopes_MC.cfg", ["OpenUnit", "End"]), ("FortranScopes_MCrobust.cfg", ["ROpen", "REnd", "RStmt", "Garbled"])):
        r = tlc.mc("FortranScopes", cfg, required_actions=req, timeout=1200)
        ck.add_tlc(cfg, r)
        if not r.ok:
            ck.machinery("%s violated %s" % (cfg, r.violated))
            return ck.finish()
    texts = []  # (text, suffix, origin)
    info = {}
    n = 0
    for st in tlc.dump_states("FortranScopes", "FortranScopes_Gen_%s.cfg" % tier, info=info, timeout=3000):
        if not st["prog"]:
            continue
        n += 1
        if tier == "quick" and n % 5:
            continue
        lines = fscopes.render(st["prog"])
        texts.append(("\n".join(lines) + "\n", ".f90", "prefix"))
        if n % 4 == 0:
            texts.append(("\n".join(fixed_form(lines)) + "\n", ".f", "prefix-fixed"))
        if n % 6 == 0:
            texts.append(("\n".join(lines), ".F90", "prefix-pp"))
    ck.add_tlc("FortranScopes_Gen(prefixes)", info["result"])
    info = {}
    cfgr = "FortranScopes_MCrobust.cfg"
    n = 0
    for st in tlc.dump_states("FortranScopes", "FortranScopes_GenRobust_%s.cfg" % tier, info=info, timeout=3000):
        if not st["prog"]:
            continue
        n += 1
        if tier == "quick" and n % 3:
            continue
        lines = fscopes.render(st["prog"])
        texts.append(("\n".join(lines) + "\n", ".F90" if n % 2 else ".f90", "robust"))
    ck.add_tlc("FortranScopes_GenRobust", info["result"])
    # directive files, conditionals left open
    info = {}
    n = 0
    for st in tlc.dump_states("Preproc", "Preproc_GenSkel_%s.cfg" % tier, info=info, timeout=3000):
        n += 1
        if n % (40 if tier == "quick" else 8):
            continue
        lines, _init = c08.render(dict(st, frames=[]))
        texts.append(("module m\n" + "\n".join(lines) + "\nend module m\n", ".F90", "directives"))
    ck.add_tlc("Preproc_GenSkel(open conditionals)", info["result"])
    # macro tables: object-like and function-like definitions, #undef and redefinition, uses and call forms,
    # conditions on macros of either kind and on macros naming each other, headers that include themselves
    for cfg, every in (("Preproc_Gen_%s.cfg" % tier, 25 if tier == "quick" else 5), ("Preproc_GenMacro.cfg", 40 if tier == "quick" else 8)):
        info = {}
        n = 0
        for st in tlc.dump_states("Preproc", cfg, info=info, timeout=3000, prefilter=lambda t: "define" in t or "include" in t):
            n += 1
            if n % every:
                continue
            lines, init = c08.render(dict(st, frames=[]))
            pre = ["#define %s %s" % (k, v) for k, v in sorted(init.items())]
            texts.append(("\n".join(pre + lines) + "\n", ".F90", "macros"))
        ck.add_tlc(cfg[:-4] + "(macro files)", info["result"])
    # long runs of one character class in every statement position (regular expressions that backtrack)
    for run in LONG_RUNS:
        for n in (40, 400):
            for pre in ("", "call ", "integer :: ", "x = ", "use ", "#define ", "#if ", "      ", "c"):
                for post in ("", " =", "(", ")", "'"):
                    texts.append((pre + run * (n // len(run)) + post + "\n", ".F90" if pre.startswith("#") else (".f" if pre in ("      ", "c") else ".f90"), "long-run"))
    for frag in ROBUST_EXTRA:
        for suf in (".f90", ".F90", ".f"):
            texts.append((frag, suf, "catalogue"))
    # sample sources: prefixes, truncations, mutations
    srcs = []
    for root, _d, files in sorted(os.walk(SRC)):
        for fn in sorted(files):
            if re.search(r"\.(f|for|f90|f95|f03|f08|fpp)$", fn, re.I):
                try:
                    srcs.append((fn, open(os.path.join(root, fn), encoding="utf-8", errors="replace").read()))
                except OSError:
                    pass
    for fn, t in srcs:
        suf = ".F90" if fn[-3:].isupper() or fn.endswith(".F90") else (".f" if fn.lower().endswith((".f", ".for")) else ".f90")
        lines = t.split("\n")
        step = 4 if tier == "quick" else 1
        for i in range(1, len(lines), step):
            texts.append(("\n".join(lines[:i]), suf, "sample-prefix"))
        for _ in range(6 if tier == "quick" else 40):
            texts.append((mutate(t, rnd), suf, "sample-mutation"))
    base = [t for t in texts if t[2] in ("prefix", "robust", "directives", "catalogue", "macros")]
    for _ in range(4000 if tier == "quick" else 60000):
        t, suf, o = rnd.choice(base)
        texts.append((mutate(t, rnd), suf, o + "-mutation"))
    ck.note("texts_by_origin", {o: sum(1 for t in texts if t[2] == o) for o in sorted({t[2] for t in texts})})
    # run
    B = 60
    batches = [texts[i:i + B] for i in range(0, len(texts), B)]
    all_traces = {}
    todo_single = []
    for bi, status, val in par.pmap(run_batch, batches, item_timeout=300):
        if status != "done":
            todo_single += [(t,) for t in batches[bi]]
            continue
        for (text, suf, origin), (problems, events) in zip(batches[bi], val):
            handle(ck, text, suf, origin, problems, events, all_traces)
    # pinpoint texts inside batches that hung or killed the worker
    for i, status, val in par.pmap(lambda one: run_batch([one[0]]), todo_single, item_timeout=60):
        text, suf, origin = todo_single[i][0]
        if status == "done":
            handle(ck, text, suf, origin, val[0][0], val[0][1], all_traces)
        else:
            ck.count(key=(text, suf))
            ck.violation({"index:" + status, "origin:" + origin, "suffix:" + suf}, {"kind": "text", "text": text, "suffix": suf, "detail": val})
    # code -> spec: stack discipline of the recorded push/pop events
    keys = list(all_traces)
    traces = [json.loads(k) for k in keys]
    for off in range(0, len(traces), 4000):
        chunk = traces[off:off + 4000]
        reached, rr = tlc.validate_traces("FortranScopesTrace", "FortranScopesTrace.cfg", {"traces": chunk}, timeout=1800)
        ck.add_tlc("FortranScopesTrace", rr)
        for i, tr in enumerate(chunk, 1):
            if reached.get(i, 0) == len(tr) + 1:
                ck.traces += 1
            else:
                text, suf, origin = all_traces[keys[off + i - 1]]
                got = reached.get(i, 0)
                ck.violation({"trace:stackDiscipline", "event:" + (tr[got - 1]["k"] if 1 <= got <= len(tr) else "?"), "origin:" + origin},
                             {"kind": "text", "text": text, "suffix": suf, "events": tr, "first_unexplained_event_index": got})
    ck.note("distinct_scope_traces", len(traces))
    for t in texts[:: max(1, len(texts) // 4)][:4]:
        ck.sample({"origin": t[2], "suffix": t[1], "text": t[0][:400]})
    return ck.finish()


def handle(ck, text, suf, origin, problems, events, all_traces):
    ck.count(key=(text, suf))
    if not problems:
        ck.traces += 1  # a spec-generated (or mutated) text replayed into the implementation
    for cls, detail in problems:
        ck.violation({"index:" + cls, "origin:" + origin, "suffix:" + suf}, {"kind": "text", "text": text, "suffix": suf, "problem": detail})
    if events:
        k = json.dumps(events)
        if k not in all_traces:
            all_traces[k] = (text, suf, origin)


def replay(path):
    rec = json.load(open(path))
    pr, ev = index_text(rec["text"], rec["suffix"])
    print(pr)
    return 1 if pr else 0
