"""TLC runner: exhaustive model checking with coverage, state dumps streamed
through a FIFO, -simulate behaviour files, batched trace validation."""
from __future__ import annotations

import atexit
import os
import re
import shutil
import subprocess
import tempfile
import threading
import time

from . import tlaval

VERIF = os.path.dirname(os.path.dirname(os.path.abspath(__file__)))
SPECS = os.path.join(VERIF, "specs")
JAR = "/opt/veriftools/tla/tla2tools.jar:/opt/veriftools/tla/CommunityModules-deps.jar"
SCRATCH_ROOT = os.environ.get("VERIF_SCRATCH", "/var/tmp/vscratch")

_scratch = None


def scratch() -> str:
    """Per-process scratch directory (never below /tmp), removed at exit."""
    global _scratch
    if _scratch is None or not os.path.isdir(_scratch):
        os.makedirs(SCRATCH_ROOT, exist_ok=True)
        _scratch = tempfile.mkdtemp(prefix="run-%d-" % os.getpid(), dir=SCRATCH_ROOT)
        atexit.register(shutil.rmtree, _scratch, True)
    return _scratch


class TLCError(Exception):
    """Machinery failure (exit 2), never a property verdict."""


def _java(extra_props=()):
    return ["java", "-XX:+UseParallelGC", "-Xmx8g", "-Xss256m", *extra_props, "-cp", JAR, "tlc2.TLC"]


_STATS = re.compile(r"(\d+) states generated, (\d+) distinct states found")
_COV = re.compile(r"^<(\w+) line (\d+), col \d+ to line \d+, col \d+ of module (\w+)>: (\d+):(\d+)", re.M)
_INVVIOL = re.compile(r"Invariant (\S+) is violated|Action property (\S+) is violated|Temporal properties were violated")


class Result:
    def __init__(self, out, rc, wall):
        out = "\n".join(l for l in out.splitlines() if not l.startswith(("Parsing file", "Semantic processing", "Linting of")))
        self.out = out
        self.rc = rc
        self.wall = wall
        m = _STATS.findall(out)
        self.generated = int(m[-1][0]) if m else 0
        self.distinct = int(m[-1][1]) if m else 0
        self.coverage = {}
        for name, _l, mod, distinct, total in _COV.findall(out):
            d = self.coverage.setdefault(name, [0, 0])
            d[0] += int(distinct)
            d[1] += int(total)
        v = _INVVIOL.search(out)
        self.violated = (v.group(1) or v.group(2) or "temporal") if v else None
        self.finished = "Model checking completed" in out or "Finished in" in out

    @property
    def ok(self):
        return self.rc == 0 and self.violated is None

    def counterexample(self):
        """States of TLC's error trace, parsed."""
        states = []
        for m in re.finditer(r"^State \d+: <([^>]*)>\n((?:.+\n)+?)\n", self.out + "\n\n", re.M):
            try:
                states.append({"action": m.group(1).split(" line")[0], "state": tlaval.to_py(tlaval.parse_state(m.group(2)))})
            except tlaval.ParseError:
                states.append({"action": m.group(1), "state": m.group(2)})
        return states


def run(spec, cfg, *, workers=16, timeout=900, coverage=True, extra=(), env=None, deadlock=False, props=()):
    """Run TLC on specs/<spec>.tla with specs/<cfg>.  Returns Result."""
    meta = tempfile.mkdtemp(prefix="meta-", dir=scratch())
    cmd = _java(props) + [
        "-workers", str(workers), "-metadir", meta, "-noGenerateSpecTE",
        "-config", cfg,
    ]
    if coverage:
        cmd += ["-coverage", "1"]
    if not deadlock:
        cmd += ["-deadlock"]
    cmd += list(extra) + [spec]
    e = dict(os.environ)
    if env:
        e.update(env)
    t0 = time.time()
    try:
        p = subprocess.run(cmd, cwd=SPECS, capture_output=True, text=True, timeout=timeout, env=e)
    except subprocess.TimeoutExpired as ex:
        raise TLCError("TLC timed out after %ss on %s/%s" % (timeout, spec, cfg)) from ex
    finally:
        shutil.rmtree(meta, ignore_errors=True)
    r = Result(p.stdout + p.stderr, p.returncode, time.time() - t0)
    if r.rc != 0 and r.violated is None:
        # 12 = safety violation, 13 = liveness; others are machinery failures
        i = r.out.find("Error:")
        raise TLCError("TLC failed rc=%d on %s/%s:\n%s" % (r.rc, spec, cfg, r.out[i:i + 2500] if i >= 0 else r.out[-2500:]))
    return r


def mc(spec, cfg, *, required_actions=(), **kw):
    """Exhaustive run + vacuity guard: every action in required_actions must have
    been taken at least once (coverage)."""
    r = run(spec, cfg, **kw)
    if r.ok:
        missing = [a for a in required_actions if r.coverage.get(a, [0, 0])[1] == 0]
        if missing:
            raise TLCError("vacuous model run %s/%s: actions never taken: %s" % (spec, cfg, missing))
    return r


def _iter_dump(fh, prefilter=None):
    """Yield parsed states from a TLC -dump stream (prefilter: cheap test on the raw text)."""
    buf = []
    for line in fh:
        if line.startswith("State "):
            if buf:
                t = "".join(buf)
                if prefilter is None or prefilter(t):
                    yield tlaval.parse_state(t)
            buf = []
        elif line.strip():
            buf.append(line)
    if buf:
        t = "".join(buf)
        if prefilter is None or prefilter(t):
            yield tlaval.parse_state(t)


def dump_states(spec, cfg, *, workers=16, timeout=1800, extra=(), info=None, prefilter=None):
    """Generator over all distinct reachable states of (spec,cfg), streamed
    through a FIFO so nothing big lands on disk.  After exhaustion the
    generator's .result attribute is not available; use dump_collect for stats."""
    d = tempfile.mkdtemp(prefix="dump-", dir=scratch())
    fifo = os.path.join(d, "x.dump")
    os.mkfifo(fifo)
    meta = os.path.join(d, "meta")
    cmd = _java() + ["-workers", str(workers), "-metadir", meta, "-noGenerateSpecTE", "-deadlock",
                     "-config", cfg, "-dump", fifo[:-5], *extra, spec]
    outf = open(os.path.join(d, "out.txt"), "w")
    p = subprocess.Popen(cmd, cwd=SPECS, stdout=outf, stderr=subprocess.STDOUT, text=True)
    killer = threading.Timer(timeout, p.kill)
    killer.start()
    # if TLC dies before opening the fifo, unblock the reader
    def _unblock():
        p.wait()
        try:
            fd = os.open(fifo, os.O_WRONLY | os.O_NONBLOCK)
            os.close(fd)
        except OSError:
            pass
    threading.Thread(target=_unblock, daemon=True).start()
    if info is None:
        info = {}
    t0 = time.time()
    try:
        with open(fifo) as fh:
            for st in _iter_dump(fh, prefilter):
                yield st
        p.wait()
        outf.close()
        out = open(os.path.join(d, "out.txt")).read()
        info["result"] = Result(out, p.returncode, time.time() - t0)
        if p.returncode != 0:
            raise TLCError("TLC dump run failed rc=%s %s/%s:\n%s" % (p.returncode, spec, cfg, out[-3000:]))
    finally:
        killer.cancel()
        if p.poll() is None:
            p.kill()
        shutil.rmtree(d, ignore_errors=True)


def dump_collect(spec, cfg, **kw):
    return list(dump_states(spec, cfg, **kw))


_SIM_STATE = re.compile(r"^STATE_(\d+) ==\s*\n((?:.*\n)*?)(?=\n|\Z)", re.M)
_SIM_ACT = re.compile(r"^\\\* <(\w+) line")


def simulate(spec, cfg, *, num, depth, seed=0, timeout=900, workers=1):
    """Run tlc -simulate and return list of behaviours; a behaviour is a list of
    (action_name, state_dict)."""
    d = tempfile.mkdtemp(prefix="sim-", dir=scratch())
    meta = os.path.join(d, "meta")
    cmd = _java() + ["-workers", str(workers), "-metadir", meta, "-noGenerateSpecTE", "-deadlock",
                     "-config", cfg, "-simulate", "file=%s/tr,num=%d" % (d, max(1, num // workers)), "-depth", str(depth),
                     "-seed", str(seed), spec]
    try:
        p = subprocess.run(cmd, cwd=SPECS, capture_output=True, text=True, timeout=timeout)
        if p.returncode != 0:
            raise TLCError("TLC simulate failed rc=%s:\n%s" % (p.returncode, (p.stdout + p.stderr)[-3000:]))
        out = []
        for fn in sorted(os.listdir(d)):
            if not fn.startswith("tr"):
                continue
            out.append(parse_sim_file(open(os.path.join(d, fn)).read()))
        return out
    except subprocess.TimeoutExpired as ex:
        raise TLCError("TLC simulate timed out") from ex
    finally:
        shutil.rmtree(d, ignore_errors=True)


def parse_sim_file(text):
    beh = []
    act = None
    buf = []
    in_state = False
    for line in text.splitlines(keepends=True):
        m = _SIM_ACT.match(line)
        if m:
            act = m.group(1)
            continue
        if line.startswith("STATE_"):
            in_state = True
            buf = []
            continue
        if in_state:
            if line.strip() == "":
                if buf:
                    beh.append((act, tlaval.parse_state("".join(buf))))
                in_state = False
                buf = []
            else:
                buf.append(line)
    if in_state and buf:
        beh.append((act, tlaval.parse_state("".join(buf))))
    return beh


_REACHED = re.compile(r'<<\s*"REACHED"')
_ACC = re.compile(r"<<\"(ACCEPTED|REACHED)\", (.*)>>\s*$", re.M | re.S)


def validate_traces(spec, cfg, trace_obj, *, timeout=900, dfs=True, extra_env=None):
    """Batched trace validation.  trace_obj is JSON-serialisable; written to a
    scratch file whose path is given to the trace spec through env TRACE_FILE.
    The trace spec must print, from its POSTCONDITION, one line
        <<"REACHED", f>>   with f a function tid -> highest index l reached
    Returns (reached: dict tid->l, Result)."""
    import json

    d = tempfile.mkdtemp(prefix="trace-", dir=scratch())
    tf = os.path.join(d, "trace.json")
    with open(tf, "w") as fh:
        json.dump(trace_obj, fh)
    env = {"TRACE_FILE": tf}
    if extra_env:
        env.update(extra_env)
    props = ["-Dtlc2.tool.queue.IStateQueue=StateDeque"] if dfs else []
    try:
        r = run(spec, cfg, workers=1, timeout=timeout, coverage=False, env=env, props=props)
    finally:
        shutil.rmtree(d, ignore_errors=True)
    reached = {}
    out = r.out
    mm = _REACHED.search(out)
    k = mm.start() if mm else -1
    while k >= 0:
        # bracket matching: TLC wraps long values over several lines
        depth, j = 0, k
        while j < len(out):
            if out.startswith("<<", j):
                depth += 1
                j += 2
                continue
            if out.startswith(">>", j):
                depth -= 1
                j += 2
                if depth == 0:
                    break
                continue
            j += 1
        v = tlaval.parse_value(out[k:j])
        f = v[1]
        if isinstance(f, list):  # function over 1..n printed as a sequence
            f = {i + 1: x for i, x in enumerate(f)}
        reached.update(f)
        mm = _REACHED.search(out, j)
        k = mm.start() if mm else -1
    return reached, r


def sany(path):
    p = subprocess.run(["java", "-cp", JAR, "tla2sany.SANY", os.path.basename(path)],
                       cwd=os.path.dirname(path) or ".", capture_output=True, text=True)
    ok = p.returncode == 0 and "Semantic errors" not in p.stdout and "*** Errors" not in p.stdout and "Parse Error" not in p.stdout
    return ok, p.stdout + p.stderr
