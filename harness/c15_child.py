"""Child of C15: build the index under one configuration and print the query battery as JSON."""
import json
import os
import sys

sys.path.insert(0, os.path.dirname(os.path.dirname(os.path.abspath(__file__))))
cfg = json.loads(sys.argv[1])
order = cfg["order"]          # file names in the enumeration / opening order
rank = {n: i for i, n in enumerate(order)}
_listdir, _walk = os.listdir, os.walk


def listdir(p="."):
    r = _listdir(p)
    return sorted(r, key=lambda n: rank.get(n, 10 ** 6))


def walk(top, *a, **kw):
    for root, dirs, files in _walk(top, *a, **kw):
        dirs.sort(key=lambda n: rank.get(n, 10 ** 6))
        yield root, dirs, sorted(files, key=lambda n: rank.get(n, 10 ** 6))


os.listdir, os.walk = listdir, walk
from harness import adapter, c10  # noqa: E402

root = cfg["root"]
if cfg["path"] == "pool":
    s, c = adapter.mkserver(root, "--nthreads %d" % cfg["nthreads"])
else:
    # start on an empty directory, then create/open the files one at a time
    s, c = adapter.mkserver(cfg["empty_root"], "--nthreads %d" % cfg["nthreads"])
    s.root_path = root
    for n in order:
        adapter.did_open(s, c, root, n)
    # all files are open and saved: one more save re-links (the property compares quiescent states)
    for n in order:
        adapter.notify(s, c, "textDocument/didSave", {"textDocument": {"uri": adapter.uri(root, n)}})
b = c10.battery(s, c, root)
print("BATTERY" + json.dumps(b, sort_keys=True))
