"""Apply a Layout.tla behaviour (sequence of re-layout operations) to concrete statements."""
from __future__ import annotations

import re

EOLS = {"LF": "\n", "CRLF": "\r\n", "CR": "\r"}


def split_point(text, which=0):
    """Index of a blank between tokens (outside quotes) where the statement may be continued."""
    body = text.rstrip()
    cands = []
    q = None
    for i, ch in enumerate(body):
        if q:
            if ch == q:
                q = None
            continue
        if ch in "'\"":
            q = ch
        elif ch == " " and i > 0 and body[:i].strip() and body[i:].strip():
            # not between "::" parts etc. - any blank between two tokens is a legal break in free form
            cands.append(i)
    if not cands:
        return None
    return cands[min(which, len(cands) - 1)] if which == 0 else cands[-1]


def change_case(line, mode):
    if mode == "asis":
        return line
    out = []
    q = None
    for i, ch in enumerate(line):
        if q:
            out.append(ch)
            if ch == q:
                q = None
            continue
        if ch in "'\"":
            q = ch
            out.append(ch)
            continue
        if mode == "upper":
            out.append(ch.upper())
        elif mode == "lower":
            out.append(ch.lower())
        else:
            out.append(ch.upper() if i % 2 else ch.lower())
    return "".join(out)


class NotApplicable(Exception):
    pass


def apply(stmts, st, unit_starts=()):
    """stmts: list of statement texts (one per statement).  st: Layout spec state.
    Returns (text, physical lines).  Raises NotApplicable if an op cannot be applied to these statements."""
    n = len(stmts)
    groups = [[s] for s in stmts]      # physical lines of each statement
    before = [[] for _ in stmts]       # inserted lines before each statement
    joined = [False] * n
    flush = False
    fixed = False
    fixed_flag = "C"
    for op in st["ops"]:
        k = op["k"]
        if k in ("blank", "comment"):
            i = op["at"] - 1
            # ordinary comments may contain anything: an unbalanced apostrophe, an ampersand, a semicolon
            # ... or words that would be a declaration or an END statement if the comment were taken for code
            before[i].append("" if k == "blank" else ["! don't change nx & ny; plain comment", "! layout comment", "! spacing is in metres; real values only",
                                                      "! public data; end of the public part"][i % 4])
        elif k == "split":
            i = op["at"] - 1
            last = groups[i][-1]
            ind = last[: len(last) - len(last.lstrip())]
            body0 = last
            pre = ""
            if last.lstrip().startswith("& "):   # continuation line that starts with "&": split what follows it
                k0 = last.index("& ") + 2
                pre, body0 = last[:k0], last[k0:]
            sp = split_point(body0, 0 if len(groups[i]) == 1 else 1)
            if sp is None or "!" in last:
                raise NotApplicable("statement %r has no blank to split at" % last)
            head, tail = pre + body0[:sp], body0[sp + 1:].lstrip()
            if head.strip().isdigit():
                raise NotApplicable("a statement label stays on the line of its statement")
            groups[i][-1] = head + " &"
            groups[i].append(ind + "    " + ("& " if op.get("lead") else "") + tail)
        elif k == "tcomment":
            i = op["at"] - 1
            j = 0 if op.get("first") else -1
            if "!" in groups[i][j] or "'" in groups[i][j]:
                raise NotApplicable("statement already carries a comment or a string")
            groups[i][j] = groups[i][j] + ("  ! note; end of this part" if i % 2 else "  ! note; don't merge & keep")
        elif k == "icomment":
            i = op["at"] - 1
            if len(groups[i]) < 2:
                raise NotApplicable("statement is not continued")
            groups[i].insert(len(groups[i]) - 1, "" if op.get("what") == "blank" else "! between; the lines of a statement & more")
        elif k == "flush":
            flush = True
        elif k == "join":
            i = op["at"] - 1
            if i in unit_starts or (i - 1) in unit_starts and False:
                raise NotApplicable("join across a program-unit boundary")
            joined[i] = True
        elif k == "fixed":
            fixed = True
            fixed_flag = op["flag"]
    if any(joined[i] and i in unit_starts for i in range(n)):
        raise NotApplicable("join across a program-unit boundary")
    phys = []
    for i in range(n):
        if joined[i]:
            if "!" in phys[-1]:
                raise NotApplicable("cannot join after a trailing comment")
            phys[-1] = phys[-1].rstrip() + "; " + groups[i][0].strip()
            continue
        phys += before[i]
        phys += groups[i]
    if flush and not fixed:
        # continuation lines keep one blank so that "&" stays apart from the text
        phys = [l.lstrip() for l in phys]
    if fixed:
        out = []
        for l in phys:
            s = l.strip()
            if s.startswith("!") or s == "":
                out.append("" if s == "" else (fixed_flag if fixed_flag != "d" else "d") + " " + s[1:].strip())
            else:
                out.append(l)
        # statements at column 7; continuation lines marked in column 6 (no trailing/leading &)
        res = []
        cont = False
        for l in out:
            if l[:1] in "Cc*!d" and (len(l) < 2 or l[1] == " ") and not l.startswith("do") and not l.startswith("call"):
                res.append(l)
                continue
            if l.strip() == "":
                res.append("")
                continue
            body = l.strip()
            com = ""
            ci = body.find("  ! ")
            if ci >= 0:     # a trailing comment (behind the "&" of a continued line, too)
                body, com = body[:ci].rstrip(), "   " + body[ci + 2:]
            nxt = body.endswith("&")
            if nxt:
                body = body[:-1].rstrip()
            if body.startswith("& "):
                body = body[2:]
            import re as _re
            ml = _re.match(r"(\d+)\s+(.*)", body)
            if ml and not cont:
                res.append("%5s %s" % (ml.group(1), ml.group(2)) + com)   # statement label in columns 1-5
            else:
                res.append(("     &" if cont else "      ") + body + com)
            cont = nxt
        phys = res
    phys = [change_case(l, st["case"]) for l in phys]
    if st["trail"]:
        phys = [l + "   " for l in phys]
    text = EOLS[st["eol"]].join(phys) + EOLS[st["eol"]]
    return text, phys
