"""Single point of contact with fortls internals."""
from __future__ import annotations

import io
import json
import os
import shutil
import sys
import tempfile

import logging

from .common import REPO
from .tlc import scratch

if REPO not in sys.path:
    sys.path.insert(0, REPO)

from fortls.interface import cli  # noqa: E402
from fortls.jsonrpc import JSONRPC2Connection, ReadWriter, path_to_uri, path_from_uri  # noqa: E402,F401
from fortls.langserver import LangServer  # noqa: E402


logging.getLogger('fortls').setLevel(logging.CRITICAL)
logging.getLogger().setLevel(logging.CRITICAL)


class Conn:
    """Connection double recording everything the server emits."""

    def __init__(self):
        self.out = []

    def write_response(self, rid, result):
        self.out.append({"t": "resp", "id": rid, "result": result})

    def write_error(self, rid, code, message, data=None):
        self.out.append({"t": "err", "id": rid, "code": code, "message": message})

    def send_notification(self, method, params):
        self.out.append({"t": "note", "method": method, "params": params})

    def send_request(self, method, params):
        self.out.append({"t": "req", "method": method, "params": params})


BASE_ARGS = "--disable_autoupdate --incremental_sync --nthreads 1 "


def settings(args="", base=None):
    a = cli("fortls").parse_args(((BASE_ARGS if base is None else base) + args).split())
    return vars(a)


def mkserver(root, args="", init=True, init_params=None, base=None):
    c = Conn()
    s = LangServer(c, settings(args, base))
    if init:
        p = {"rootPath": root}
        if init_params:
            p.update(init_params)
        s.handle({"jsonrpc": "2.0", "id": 0, "method": "initialize", "params": p})
    return s, c


def mkws(files: dict, prefix="ws") -> str:
    d = tempfile.mkdtemp(prefix=prefix, dir=scratch())
    write_files(d, files)
    return d


def write_files(d, files):
    for k, v in files.items():
        p = os.path.join(d, k)
        os.makedirs(os.path.dirname(p), exist_ok=True)
        if isinstance(v, bytes):
            open(p, "wb").write(v)
        else:
            with open(p, "w", newline="") as fh:
                fh.write(v)


def rmws(d):
    shutil.rmtree(d, ignore_errors=True)


def request(s, c, method, params, rid=1):
    n = len(c.out)
    s.handle({"jsonrpc": "2.0", "id": rid, "method": method, "params": params})
    return c.out[n:]


def notify(s, c, method, params):
    n = len(c.out)
    s.handle({"jsonrpc": "2.0", "method": method, "params": params})
    return c.out[n:]


def result_of(evs):
    for e in evs:
        if e["t"] == "resp":
            return e["result"]
        if e["t"] == "err":
            return {"__error__": e["code"], "message": e["message"]}
    return None


def uri(d, f):
    return path_to_uri(os.path.join(d, f))


def posparams(d, f, line, ch, **kw):
    return {"textDocument": {"uri": uri(d, f)}, "position": {"line": line, "character": ch}, **kw}


def did_open(s, c, d, f, text=None):
    p = {"textDocument": {"uri": uri(d, f)}}
    if text is not None:
        p["textDocument"]["text"] = text
    return notify(s, c, "textDocument/didOpen", p)


def frame(msg: dict) -> bytes:
    b = json.dumps(msg).encode()
    return b"Content-Length: %d\r\n\r\n" % len(b) + b


def run_bytes(inp: bytes, args="", chunks=None):
    """Run a real JSONRPC2Connection + LangServer.run() over byte streams."""
    rin = io.BytesIO(inp)
    rout = io.BytesIO()
    conn = JSONRPC2Connection(ReadWriter(rin, rout))
    s = LangServer(conn, settings(args))
    s.run()
    return rout.getvalue(), s
