"""Child of C20: index one workspace and fire every positional request at every identifier."""
import json
import os
import re
import sys
import time

sys.path.insert(0, os.path.dirname(os.path.dirname(os.path.abspath(__file__))))
import faulthandler
faulthandler.dump_traceback_later(int(sys.argv[2]), exit=True)
from harness import adapter  # noqa: E402

root = sys.argv[1]
out = {"phase": "init", "errors": []}


def flush():
    print("RESULT" + json.dumps(out), flush=True)


try:
    t0 = time.process_time()
    s, c = adapter.mkserver(root)
    for e in c.out:
        if e["t"] == "err":
            out["errors"].append(["initialize", e["message"][:120]])
        if e["t"] == "note" and e["method"] == "window/showMessage" and e["params"].get("type") == 1:
            out["errors"].append(["initialize-message", e["params"]["message"][:120]])
    out["phase"] = "queries"
    flush()
    meths = ["textDocument/hover", "textDocument/definition", "textDocument/implementation", "textDocument/references",
             "textDocument/documentHighlight", "textDocument/rename", "textDocument/signatureHelp", "textDocument/completion"]
    for fn in sorted(os.listdir(root)):
        if not fn.lower().endswith(".f90"):
            continue
        del c.out[:]
        adapter.did_open(s, c, root, fn)
        for e in c.out:
            if e["t"] == "err":
                out["errors"].append(["didOpen", fn, e["message"][:120]])
            if e["t"] == "note" and e["method"] == "window/showMessage" and e["params"].get("type") == 1:
                out["errors"].append(["diagnostics", fn, e["params"]["message"][:120]])
        text = open(os.path.join(root, fn)).read()
        for ln, line in enumerate(text.split("\n")):
            for m in re.finditer(r"[A-Za-z_]\w*", line):
                for meth in meths:
                    out["current"] = [fn, ln, m.start(), meth]
                    p = adapter.posparams(root, fn, ln, m.start() + (1 if m.end() - m.start() > 1 else 0), newName="zz", context={"includeDeclaration": True})
                    del c.out[:]
                    s.handle({"jsonrpc": "2.0", "id": 1, "method": meth, "params": p})
                    for e in c.out:
                        if e["t"] == "err":
                            out["errors"].append([meth, fn, ln, m.start(), re.sub(r"\d+", "N", e["message"])[:100]])
    out["phase"] = "done"
    out["cpu"] = time.process_time() - t0
    out.pop("current", None)
except BaseException as ex:  # noqa
    out["errors"].append(["crash", type(ex).__name__, str(ex)[:100]])
flush()
