"""C16: wire framing byte-exact in both directions; URI <-> path round trip.

Framing.tla: TLC checks the reference reader recovers every sent message for
every content / header order / chunking in the bound, and that the two named
deviations (length from first header line only; Content-Length in characters)
DO produce counterexamples.  Every (messages, chunking) behaviour TLC
enumerates is rendered to bytes and fed to the real JSONRPC2Connection through
io.BufferedReader over a raw stream that returns exactly the model's chunks.
FramingTrace.tla validates the server's recorded output frames.  Uri.tla
enumerates path shapes for path_to_uri/path_from_uri.
"""
from __future__ import annotations

import io
import json
import os
import subprocess
import sys
import threading

from . import adapter, tlc
from .common import Check, REPO

CH = {1: "a", 2: "é", 3: "€", 4: "\U0001F600"}
HDR = {"CL": "Content-Length: %d\r\n", "CT": "Content-Type: application/vscode-jsonrpc; charset=utf-8\r\n", "BLANK": "\r\n"}
ORDER = {"CLfirst": ["CL", "CT", "BLANK"], "CTfirst": ["CT", "CL", "BLANK"], "CLonly": ["CL", "BLANK"]}


def render_msg(i, m, escaped):
    """-> (json object, list of (unit_end_offset) for each model unit, bytes)."""
    text = "".join(CH[w] for w in m["body"])
    obj = {"jsonrpc": "2.0", "method": "m%d" % i, "params": {"t": text}}
    pre = '{"jsonrpc":"2.0","method":"m%d","params":{"t":"' % i
    suf = '"}}'
    parts = [pre.encode()]
    for w in m["body"]:
        c = CH[w]
        parts.append(json.dumps(c)[1:-1].encode() if escaped else c.encode("utf-8"))
    parts.append(suf.encode())
    body = b"".join(parts)
    assert json.loads(body.decode("utf-8")) == obj
    ends = []
    out = b""
    for kind in ORDER[m["order"]]:
        line = (HDR[kind] % len(body) if kind == "CL" else HDR[kind]).encode()
        half = max(1, len(line) // 2)
        ends.append(len(out) + half)
        ends.append(len(out) + len(line))
        out += line
    # body units: prefix, each char's w units, suffix
    off = len(out)
    off += len(parts[0])
    ends.append(off)
    for k, w in enumerate(m["body"]):
        b = parts[1 + k]
        for u in range(1, w + 1):
            ends.append(off + (len(b) * u) // w)
        off += len(b)
    off += len(parts[-1])
    ends.append(off)
    out += body
    assert off == len(out)
    return obj, ends, out


class RawChunks(io.RawIOBase):
    """A raw stream whose every read returns at most the next chunk."""

    def __init__(self, data, sizes):
        self.chunks = []
        o = 0
        for s in sizes:
            self.chunks.append(data[o:o + s])
            o += s
        assert o == len(data), (o, len(data))
        self.cur = b""

    def readable(self):
        return True

    def readinto(self, b):
        while not self.cur and self.chunks:
            self.cur = self.chunks.pop(0)
        n = min(len(b), len(self.cur))
        b[:n] = self.cur[:n]
        self.cur = self.cur[n:]
        return n


def feed(data, sizes):
    """Run the real reader; return (list of decoded messages, failure kind or None)."""
    rd = io.BufferedReader(RawChunks(data, sizes), buffer_size=64)
    conn = adapter.JSONRPC2Connection(adapter.ReadWriter(rd, io.BytesIO()))
    got = []
    err = None
    while True:
        try:
            got.append(conn.read_message())
        except EOFError:
            break
        except Exception as ex:  # anything else = reader died
            err = type(ex).__name__
            break
        if len(got) > 50:
            err = "runaway"
            break
    return got, err


def replay_state(st, escaped):
    sent = st["sent"]
    objs, data, ends = [], b"", []
    for i, m in enumerate(sent, 1):
        o, e, b = render_msg(i, m, escaped)
        objs.append(o)
        ends += [len(data) + x for x in e]
        data += b
    sizes = []
    upos = 0
    bpos = 0
    for k in st["chunks"]:
        upos += k
        sizes.append(ends[upos - 1] - bpos)
        bpos = ends[upos - 1]
    sizes = [s for s in sizes]
    got, err = feed(data, [s for s in sizes if s > 0] if sum(sizes) == len(data) else sizes)
    ids = []
    for g in got:
        ids.append(objs.index(g) + 1 if g in objs else 0)
    return ids, err, data, sizes


def tags_for(st, ids, err):
    t = set()
    for m in st["sent"]:
        t.add("order:" + m["order"])
    if any(w > 1 for m in st["sent"] for w in m["body"]):
        t.add("payload:nonascii")
    if err:
        t.add("error:" + err)
    elif len(ids) < len(st["sent"]):
        t.add("diff:missingMessages")
    else:
        t.add("diff:wrongMessages")
    return t


# ---------------------------------------------------------------------------
def independent_frames(out: bytes):
    """Frame reader written from the LSP base protocol, independent of jsonrpc.py."""
    evs = []
    pos = 0
    n = 0
    dec = json.JSONDecoder()
    while pos < len(out):
        end = out.find(b"\r\n\r\n", pos)
        if end < 0:
            break
        hdr_ok = True
        cl = None
        for line in out[pos:end].split(b"\r\n"):
            if b":" not in line:
                hdr_ok = False
                continue
            k, v = line.split(b":", 1)
            if k.strip().lower() == b"content-length":
                try:
                    cl = int(v.strip())
                except ValueError:
                    hdr_ok = False
        body0 = end + 4
        # actual extent of the JSON value that follows, measured independently of cl
        nxt = out.find(b"Content-Length:", body0)
        seg = out[body0:nxt if nxt >= 0 else len(out)]
        try:
            txt = seg.decode("utf-8")
            _v, k = dec.raw_decode(txt)
            nbytes = len(txt[:k].encode("utf-8"))
            ok = True
        except (UnicodeDecodeError, ValueError):
            nbytes = len(seg)
            ok = False
        evs.append({"k": "frame", "cl": cl if cl is not None else -1, "bytes": nbytes, "json": ok, "hdr_ok": hdr_ok and cl is not None})
        n += 1
        pos = body0 + (cl if cl is not None and cl >= 0 else nbytes)
    evs.append({"k": "end", "leftover": max(0, len(out) - pos) if pos <= len(out) else pos - len(out), "frames": n})
    return evs


NONASCII_SRC = """module café_mod
  !> Doc with é € \U0001F600 "quotes" and \\ backslash
  integer :: vé
contains
  !> résumé \U0001F600
  subroutine s€(a)
    integer, intent(in) :: a !< arg é
  end subroutine
end module
program p
  use café_mod
  character(len=10) :: s = "é€\U0001F600"
  call unknown_é()
end program
"""


def output_traces(tier):
    """Sessions whose answers carry non-ASCII text; returns list of (name, out bytes)."""
    res = []
    for dname in ["plain", "dé €#x%20y+z"]:
        d = adapter.mkws({dname + "/mé.f90": NONASCII_SRC})
        try:
            root = os.path.join(d, dname)
            u = adapter.path_to_uri(os.path.join(root, "mé.f90"))
            msgs = [{"jsonrpc": "2.0", "id": 1, "method": "initialize", "params": {"rootPath": root}},
                    {"jsonrpc": "2.0", "method": "textDocument/didOpen", "params": {"textDocument": {"uri": u}}},
                    {"jsonrpc": "2.0", "id": 2, "method": "textDocument/documentSymbol", "params": {"textDocument": {"uri": u}}},
                    {"jsonrpc": "2.0", "id": 3, "method": "workspace/symbol", "params": {"query": ""}}]
            for i, (ln, chn) in enumerate([(5, 14), (2, 14), (6, 28), (11, 22), (10, 8), (12, 10)]):
                for meth in ["textDocument/hover", "textDocument/definition", "textDocument/references", "textDocument/completion"]:
                    msgs.append({"jsonrpc": "2.0", "id": 10 + len(msgs), "method": meth,
                                 "params": {"textDocument": {"uri": u}, "position": {"line": ln, "character": chn}, "context": {"includeDeclaration": True}}})
            msgs.append({"jsonrpc": "2.0", "id": 9000, "method": "nonexistent/é", "params": {}})
            msgs += [{"jsonrpc": "2.0", "id": 9001, "method": "shutdown", "params": {}}, {"jsonrpc": "2.0", "method": "exit", "params": {}}]
            inp = b"".join(adapter.frame(m) for m in msgs)
            out, _s = adapter.run_bytes(inp, args="--hover_signature --use_signature_help")
            res.append(("inproc:" + dname, out))
            if tier == "thorough":
                p = subprocess.run([sys.executable, "-m", "fortls", "--incremental_sync", "--disable_autoupdate", "--nthreads", "1"],
                                   input=inp, capture_output=True, cwd=REPO, timeout=120)
                res.append(("pipe:" + dname, p.stdout))
        finally:
            adapter.rmws(d)
    return res


# ---------------------------------------------------------------------------
UCH = {"plain": "a", "digit": "2", "blank": " ", "percent": "%", "hash": "#", "question": "?", "plus": "+", "amp": "&",
       "nonascii": "\u00e9", "astral": "\U0001F600", "upper": "Q", "combining": "e\u0301", "compat": "\u212b", "cjkcompat": "\uf900",
       "rawbyte": "m\udce9"}      # os.fsdecode(b"m\xe9"): how Python spells a file name that is not valid UTF-8
UNRESERVED = set(b"ABCDEFGHIJKLMNOPQRSTUVWXYZabcdefghijklmnopqrstuvwxyz0123456789-._~/")


def rfc3986_encode(path):
    return "".join(chr(b) if b in UNRESERVED else "%%%02X" % b for b in os.fsencode(path))


def rfc3986_decode(s):
    out = bytearray()
    i = 0
    b = s.encode("ascii")
    while i < len(b):
        if b[i:i + 1] == b"%":
            out.append(int(b[i + 1:i + 3], 16))
            i += 3
        else:
            out.append(b[i])
            i += 1
    return os.fsdecode(bytes(out))


def uri_part(ck, tier):
    cfg = "Uri_%s.cfg" % tier
    r = tlc.mc("Uri", cfg)
    ck.add_tlc(cfg, r)
    if not r.ok:
        ck.machinery("Uri spec violated %s" % r.violated)
        return
    base = os.path.realpath(tlc.scratch())
    n = 0
    for st in tlc.dump_states("Uri", cfg):
        segs = ["".join(UCH[c] for c in seg) for seg in st["path"]]
        path = os.path.join(base, *segs)
        n += 1
        ck.count(nontrivial=False)
        # client-encoded URI -> server path
        try:
            got = adapter.path_from_uri("file://" + rfc3986_encode(path))
        except Exception as ex:  # noqa
            got = "EXC " + type(ex).__name__
        if got != path:
            ck.violation({"uri:decode"} | {"class:" + c for seg in st["path"] for c in seg},
                         {"kind": "uri", "path": path, "uri": "file://" + rfc3986_encode(path), "observed": got})
        # server-encoded URI -> conforming client
        try:
            u = adapter.path_to_uri(path)
        except Exception as ex:  # noqa
            u = "EXC " + type(ex).__name__
        try:
            back = rfc3986_decode(u[len("file://"):]) if u.startswith("file://") else None
            raw_reserved = any(ch in u[len("file://"):] for ch in " #?")
        except (ValueError, UnicodeDecodeError, UnicodeEncodeError):
            back, raw_reserved = None, True
        if back != path or raw_reserved:
            ck.violation({"uri:encode"} | {"class:" + c for seg in st["path"] for c in seg},
                         {"kind": "uri", "path": path, "uri": u, "decoded_by_client": back})
        if n % 3000 == 1:
            ck.sample({"path": path, "uri": u})
    ck.traces += n
    ck.distinct_extra += n
    ck.note("uri_paths", n)


def main(tier, seed):
    ck = Check("C16", tier, seed)
    ck.assumptions = [
        "message bodies are abstracted to the UTF-8 widths of their variable characters inside a fixed JSON skeleton",
        "the transport is modelled by the chunk sizes a raw read returns; the implementation sits behind io.BufferedReader exactly as sys.stdin.buffer does",
        "correctly framed input only (every frame carries a Content-Length header)",
    ]
    mc_cfg = "Framing_MC.cfg" if tier == "quick" else "Framing_MC_thorough.cfg"
    r = tlc.mc("Framing", mc_cfg, required_actions=["ReadLine", "ReadBody", "DeliverAny"], timeout=1800)
    ck.add_tlc(mc_cfg, r)
    if not r.ok:
        ck.machinery("Framing reference reader violates %s (specification bug)" % r.violated)
        return ck.finish()
    # model self-test: the two named deviations must be caught by TLC
    for cfg in ["Framing_ImplShape.cfg", "Framing_CountChars.cfg"]:
        rr = tlc.run("Framing", cfg, timeout=600)
        ck.add_tlc(cfg + " (expected counterexample)", rr)
        if rr.ok:
            ck.machinery("model self-test: deviation %s not detected by TLC" % cfg)
    # spec -> code
    total = 0
    for cfg in ["Framing_Gen_%s.cfg" % tier, "Framing_Gen1_%s.cfg" % tier]:
        info = {}
        for st in tlc.dump_states("Framing", cfg, info=info, timeout=3000):
            if sum(st["chunks"]) == 0:
                continue
            wire_len = sum(2 * len(ORDER[m["order"]]) + 2 + sum(m["body"]) for m in st["sent"])
            if st["avail"] != wire_len:
                continue  # prefix of a delivery schedule
            for escaped in (False, True):
                ids, err, data, sizes = replay_state(st, escaped)
                total += 1
                ck.count(nontrivial=False)
                exp = list(range(1, len(st["sent"]) + 1))  # spec: decoded = Ids at quiescence
                if ids != exp or err:
                    ck.violation(tags_for(st, ids, err) | {"binding:reader"},
                                 {"kind": "inbound", "state": st, "escaped": escaped, "bytes": data.decode("utf-8", "replace"),
                                  "chunk_sizes": sizes, "decoded_ids": ids, "error": err})
                if total % 30000 == 1:
                    ck.sample({"sent": st["sent"], "chunks_model_units": st["chunks"], "chunk_sizes_bytes": sizes,
                               "stream": data.decode("utf-8", "replace")})
        ck.add_tlc(cfg, info["result"])
    ck.traces += total
    ck.distinct_extra += total
    ck.note("inbound_behaviours_replayed", total)
    # one-byte-at-a-time delivery of a long back-to-back stream
    st = {"sent": [{"order": o, "body": b} for o in ORDER for b in ([], [1, 2], [4, 3, 2, 1])], "chunks": []}
    wire_len = sum(2 * len(ORDER[m["order"]]) + 2 + sum(m["body"]) for m in st["sent"])
    st["chunks"] = [1] * wire_len
    for escaped in (False, True):
        ids, err, data, sizes = replay_state(st, escaped)
        ck.count(key=("bytewise", escaped))
        ck.traces += 1
        if ids != list(range(1, len(st["sent"]) + 1)) or err:
            ck.violation(tags_for(st, ids, err) | {"binding:reader", "chunking:unitwise"},
                         {"kind": "inbound", "state": st, "escaped": escaped, "decoded_ids": ids, "error": err})
    # code -> spec: output frames
    outs = output_traces(tier)
    traces = [independent_frames(o) for _n, o in outs]
    reached, rr = tlc.validate_traces("FramingTrace", "FramingTrace.cfg", {"traces": traces})
    ck.add_tlc("FramingTrace", rr)
    for i, tr in enumerate(traces, 1):
        ck.count(key=("out", outs[i - 1][0]), n=len(tr))
        if reached.get(i, 0) == len(tr) + 1 and len(tr) > 5:
            ck.traces += 1
        else:
            bad = tr[reached.get(i, 1) - 1] if reached.get(i, 0) >= 1 else None
            ck.violation({"binding:writer", "session:" + outs[i - 1][0].split(":")[0]},
                         {"kind": "outbound", "session": outs[i - 1][0], "first_unexplained_frame": bad, "index": reached.get(i, 0)})
    ck.note("output_frames", sum(len(t) - 1 for t in traces))
    # binding self-test
    import copy
    bad = copy.deepcopy(traces[0])
    bad[len(bad) // 2]["cl"] += 1
    reached, _ = tlc.validate_traces("FramingTrace", "FramingTrace.cfg", {"traces": [bad]})
    if reached.get(1, 0) == len(bad) + 1:
        ck.machinery("binding self-test: corrupted output trace accepted")
    ck.note("binding_selftest", "frame with cl+1 rejected at %s" % reached.get(1))
    uri_part(ck, tier)
    return ck.finish()


def replay(path):
    rec = json.load(open(path))
    if rec["kind"] == "inbound":
        ids, err, data, sizes = replay_state(rec["state"], rec["escaped"])
        print("decoded ids", ids, "error", err, "expected", list(range(1, len(rec["state"]["sent"]) + 1)))
        return 0 if (ids == list(range(1, len(rec["state"]["sent"]) + 1)) and not err) else 1
    if rec["kind"] == "uri":
        p = rec["path"]
        ok = adapter.path_from_uri("file://" + rfc3986_encode(p)) == p and rfc3986_decode(adapter.path_to_uri(p)[7:]) == p
        print("round trip ok" if ok else "round trip FAILS", p)
        return 0 if ok else 1
    print(json.dumps(rec, indent=1))
    return 1
