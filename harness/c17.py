"""C17: indexing never executes or writes anything on behalf of file contents.

Preproc.tla carries `effects` (the set of side effects preprocessing has on the
outside world) and no action adds to it (NoEffects is model-checked).  Directive
files whose macro bodies and #if/#elif conditions are host-language expressions
(TLC -simulate over Preproc_SimC17.cfg, plus a catalogue of slots: #if, #elif,
#define then #if, header pulled in by #include, pp_defs from the configuration
file and from the command line) are indexed and queried in a child process with
a sys.addaudithook monitor; the recorded trace must contain no effect event and
the canary file named in the payloads must not exist.
"""
from __future__ import annotations

import json
import os
import subprocess
import sys
import tempfile

from . import tlc
from .common import Check, REPO, VERIF
from . import c08

CHILD = r'''
import sys, os, json
root, canary, logp = sys.argv[1], sys.argv[2], sys.argv[3]
sys.path.insert(0, %(repo)r)
import fortls.langserver, fortls.interface, fortls.parsers.internal.parser  # load everything first
preloaded = set(sys.modules)
events = []
ALLOW_WRITE = ()
def hook(ev, args):
    try:
        if ev in ("exec", "compile"):
            src = args[0] if ev == "compile" else None
            co = args[0] if ev == "exec" else None
            fn = getattr(co, "co_filename", None) if co is not None else (args[1] if len(args) > 1 else None)
            if ev == "exec" and fn in ("<string>", "<stdin>", None):
                events.append(["exec", str(fn)])
            if ev == "compile" and isinstance(src, (str, bytes)) and fn in ("<string>", "<unknown>"):
                s = src if isinstance(src, str) else src.decode("utf-8", "replace")
                # ast.parse(mode="eval") compiles with PyCF_ONLY_AST: not executable; still logged, judged by the flag below
                events.append(["compile", s[:80]])
        elif ev in ("os.system", "subprocess.Popen", "os.exec", "os.posix_spawn", "os.fork", "socket.connect", "socket.bind", "ctypes.dlopen"):
            events.append([ev, str(args)[:120]])
        elif ev == "import":
            name = args[0]
            if name not in preloaded and name.split(".")[0] not in preloaded:
                events.append(["import", name])
        elif ev == "open":
            path, mode = args[0], args[1]
            if isinstance(mode, str) and any(c in mode for c in "wax+") and isinstance(path, str) and not path.endswith("fortls_debug.log"):
                events.append(["open-write", path])
        elif ev in ("os.remove", "os.rename", "os.mkdir", "os.rmdir", "os.chmod", "os.truncate", "shutil.rmtree"):
            events.append([ev, str(args)[:120]])
    except Exception:
        pass
from fortls.interface import cli
from fortls.langserver import LangServer
class Conn:
    def __init__(s): s.out = []
    def write_response(s, i, r): s.out.append(("resp", i))
    def write_error(s, i, code, message, data=None): s.out.append(("err", i, code, message))
    def send_notification(s, m, p): s.out.append(("note", m))
extra = sys.argv[4:]
a = cli("fortls").parse_args(["--disable_autoupdate", "--incremental_sync", "--nthreads", "1"] + extra)
sys.addaudithook(hook)
srv = LangServer(Conn(), vars(a))
srv.handle({"jsonrpc": "2.0", "id": 0, "method": "initialize", "params": {"rootPath": root}})
from fortls.jsonrpc import path_to_uri
for fn in sorted(os.listdir(root)):
    if fn.lower().endswith((".f90", ".f")):
        uri = path_to_uri(os.path.join(root, fn))
        srv.handle({"jsonrpc": "2.0", "method": "textDocument/didOpen", "params": {"textDocument": {"uri": uri}}})
        n = len(open(os.path.join(root, fn)).read().split("\n"))
        for ln in range(n):
            for m in ("textDocument/hover", "textDocument/definition", "textDocument/completion"):
                srv.handle({"jsonrpc": "2.0", "id": 1, "method": m, "params": {"textDocument": {"uri": uri}, "position": {"line": ln, "character": 9}}})
        srv.handle({"jsonrpc": "2.0", "id": 2, "method": "textDocument/documentSymbol", "params": {"textDocument": {"uri": uri}}})
        srv.handle({"jsonrpc": "2.0", "method": "textDocument/didSave", "params": {"textDocument": {"uri": uri}}})
        # history: the same document changes to a second version (fn.v2), is queried and saved again
        if os.path.exists(os.path.join(root, fn + ".v2")):
            text = open(os.path.join(root, fn + ".v2")).read()
            srv.handle({"jsonrpc": "2.0", "method": "textDocument/didChange", "params": {"textDocument": {"uri": uri}, "contentChanges": [{"text": text}]}})
            for ln in range(len(text.split("\n"))):
                srv.handle({"jsonrpc": "2.0", "id": 1, "method": "textDocument/hover", "params": {"textDocument": {"uri": uri}, "position": {"line": ln, "character": 9}}})
            srv.handle({"jsonrpc": "2.0", "method": "textDocument/didSave", "params": {"textDocument": {"uri": uri}}})
real = [e for e in events if not (e[0] == "compile")]
json.dump({"events": real, "compiles": [e for e in events if e[0] == "compile"][:5], "canary": os.path.exists(canary)}, open(logp, "w"))
''' % {"repo": REPO}

PY = ["__import__('os').system('touch %(c)s')", "open('%(c)s','w').write('x')", "(lambda: __import__('pathlib').Path('%(c)s').touch())()",
      "[c for c in ().__class__.__base__.__subclasses__() if c.__name__ == 'Popen'][0](['touch', '%(c)s'])",
      "exec(\"open('%(c)s','w')\")", "__builtins__", "(x := 1) and __import__('os').mkdir('%(c)s')", "f\"{__import__('os').system('touch %(c)s')}\"",
      "[__import__('os').system('touch %(c)s') for _ in (1,)]", "ｐｒｉｎｔ(__import__('os').system('touch %(c)s'))",
      "().__class__.__base__.__subclasses__()[0].__init__.__globals__", "1 if __import__('os').system('touch %(c)s') else 0"]


def catalogue(canary):
    """(name, files, extra args) for every slot a text can reach the evaluator through."""
    out = []
    for i, p in enumerate(PY):
        p = p % {"c": canary}
        mod = "module m\n%s\ninteger :: v\n#endif\nend module m\n"
        out.append(("if:%d" % i, {"a.F90": mod % ("#if " + p)}, []))
        out.append(("elif:%d" % i, {"a.F90": "module m\n#if 0\n#elif %s\ninteger :: v\n#endif\nend module m\n" % p}, []))
        out.append(("define+if:%d" % i, {"a.F90": "#define X %s\n" % p + mod % "#if X"}, []))
        out.append(("define+use:%d" % i, {"a.F90": "#define X %s\nmodule m\ninteger :: v = X\nend module m\n" % p}, []))
        out.append(("include:%d" % i, {"a.F90": "#include \"h.h\"\n" + mod % "#if X", "h.h": "#define X %s\n" % p}, []))
        out.append(("pp_defs-file:%d" % i, {"a.F90": mod % "#if X", ".fortls": json.dumps({"pp_defs": {"X": p}})}, []))
        out.append(("pp_defs-cli:%d" % i, {"a.F90": mod % "#if X"}, ["--pp_defs", json.dumps({"X": p})]))
        out.append(("fndefine:%d" % i, {"a.F90": "#define F(a) %s\n" % p + mod % "#if F(1)"}, []))
        # histories: the same directive text is met first with a harmless and then with a hostile macro value
        out.append(("redefine:%d" % i, {"a.F90": "module m\n#define X 1\n#if X > 0\ninteger :: v\n#endif\n#undef X\n#define X %s\n#if X > 0\ninteger :: w\n#endif\nend module m\n" % p}, []))
        out.append(("twofiles:%d" % i, {"a.F90": "#define LEVEL 2\n" + mod % "#if LEVEL > 1", "b.F90": "#define LEVEL %s\nmodule m2\n#if LEVEL > 1\ninteger :: v\n#endif\nend module m2\n" % p}, []))
        out.append(("edit:%d" % i, {"a.F90": "#define X 1\n" + mod % "#if X", "a.F90.v2": "#define X %s\n" % p + mod % "#if X"}, []))
        out.append(("edit-header:%d" % i, {"a.F90": "#include \"h.h\"\n" + mod % "#if X == 1", "h.h": "#define X 1\n", "a.F90.v2": "#undef X\n#define X %s\n" % p + mod % "#if X == 1"}, []))
    # the configuration file itself, in every spelling a loader could be tempted to understand
    mod = "module m\ninteger :: v\nend module m\n"
    sysc = "touch %s" % canary
    cfg_texts = {"yamltag": "!!python/object/apply:os.system ['%s']\n" % sysc,
                 "yamlmap": "nthreads: 1\npp_defs: !!python/object/apply:os.system ['%s']\n" % sysc,
                 "pyexpr": "__import__('os').system('%s')\n" % sysc,
                 "pydict": "{'nthreads': __import__('os').system('%s')}\n" % sysc,
                 "jsonstr": json.dumps({"nthreads": 1, "pp_defs": {"X": "__import__('os').system('%s')" % sysc}, "source_dirs": ["$(%s)" % sysc, "`%s`" % sysc],
                                        "incl_suffixes": [";%s;" % sysc], "excl_paths": ["|%s" % sysc]}),
                 "toml": "nthreads = 1\n[pp_defs]\nX = \"1\"\n"}
    for cname, text in cfg_texts.items():
        for fn in (".fortls", ".fortlsrc", ".fortls.json", "cfg.yaml", "cfg.yml", "cfg.py", "cfg.json", "cfg.toml"):
            extra = [] if fn.startswith(".fortls") else ["-c", fn]
            out.append(("config:%s:%s" % (cname, fn), {"a.F90": "#define X 1\n#if X\n#endif\n" + mod, fn: text}, extra))
    # configuration values that name files: only the debug log inside the workspace may be written
    mod = "module m\ninteger :: v\nend module m\n"
    for i, v in enumerate([True, "../c17_outside_notes.txt", canary, "sub/../../c17_outside2.txt"]):
        out.append(("debug_log:%d" % i, {"a.F90": mod, ".fortls": json.dumps({"debug_log": v})}, []))
    return out


def run_child(files, extra, canary):
    d = tempfile.mkdtemp(prefix="c17-", dir=tlc.scratch())
    for k, v in files.items():
        with open(os.path.join(d, k), "w") as fh:
            fh.write(v)
    logp = d + ".log.json"
    script = d + ".child.py"
    with open(script, "w") as fh:
        fh.write(CHILD)
    before = set(os.listdir(d))
    try:
        p = subprocess.run([sys.executable, script, d, canary, logp] + extra, capture_output=True, text=True, timeout=120)
        if not os.path.exists(logp):
            return {"events": [["child-failed", (p.stderr or "")[-300:]]], "canary": os.path.exists(canary), "new_files": []}
        r = json.load(open(logp))
        r["new_files"] = sorted(x for x in set(os.listdir(d)) - before if x != "fortls_debug.log")
        out1 = os.path.join(os.path.dirname(d), "c17_outside_notes.txt")
        out2 = os.path.join(os.path.dirname(os.path.dirname(d)), "c17_outside2.txt")
        for o in (out1, out2):
            if os.path.exists(o):
                r["new_files"].append("OUTSIDE:" + os.path.basename(o))
                os.remove(o)
        return r
    except subprocess.TimeoutExpired:
        return {"events": [["timeout", ""]], "canary": os.path.exists(canary), "new_files": []}
    finally:
        import shutil
        shutil.rmtree(d, ignore_errors=True)
        for x in (logp, script):
            if os.path.exists(x):
                os.remove(x)
        if os.path.isdir(canary):
            os.rmdir(canary)
        elif os.path.exists(canary):
            os.remove(canary)


def main(tier, seed):
    ck = Check("C17", tier, seed)
    ck.assumptions = [
        "observation by sys.addaudithook in the process under test: exec of code not loaded from a file, os.system/subprocess/exec/fork/socket, import of a module not loaded at start-up, open for writing, remove/rename/mkdir/rmdir/chmod; plus a canary path that every payload tries to create",
        "no claim about inputs outside the catalogue and the simulated directive files (an inventory of eval/exec call sites would be a different technique)",
    ]
    r = tlc.mc("Preproc", "Preproc_MC.cfg", timeout=900)
    ck.add_tlc("Preproc_MC (NoEffects)", r)
    if not r.ok:
        ck.machinery("Preproc_MC violated %s" % r.violated)
        return ck.finish()
    canary = os.path.join(tlc.scratch(), "CANARY_%d" % os.getpid())
    jobs = catalogue(canary)
    nsim = 40 if tier == "quick" else 400
    for bi, beh in enumerate(tlc.simulate("Preproc", "Preproc_SimC17.cfg", num=nsim, depth=9, seed=seed + 17, workers=4, timeout=600)):
        st = beh[-1][1]
        if not st["file"]:
            continue
        lines, init = c08.render(st, canary=canary)
        init = {k: (c08.VAL.get(v, v) % {"canary": canary} if False else v) for k, v in init.items()}
        jobs.append(("sim:%d" % bi, {"a.F90": "module m\n" + "\n".join(lines) + "\nend module m\n", ".fortls": json.dumps({"pp_defs": init})}, []))
    from concurrent.futures import ThreadPoolExecutor
    with ThreadPoolExecutor(max_workers=12) as ex:
        results = list(ex.map(lambda j: run_child(j[1], j[2], canary + "_" + j[0].replace(":", "_")) if False else run_child(
            {k: v.replace(canary, canary + "_" + j[0].replace(":", "_")) for k, v in j[1].items()},
            [a.replace(canary, canary + "_" + j[0].replace(":", "_")) for a in j[2]], canary + "_" + j[0].replace(":", "_")), jobs))
    # control: the same session on a benign file; whatever it does (fortls's own worker pool, lazy stdlib
    # imports) is not "on behalf of file contents" - only events beyond the control's are effects
    ctrl = run_child({"a.F90": "#define X 1\nmodule m\n#if X\ninteger :: v\n#elif 0\n#endif\n#include \"h.h\"\nend module m\n", "h.h": "#define Y 2\n",
                      ".fortls": json.dumps({"pp_defs": {"Z": "1"}})}, ["--pp_defs", json.dumps({"W": "1"})], canary + "_control")
    base = {(e[0], e[1] if e[0] == "import" else "") for e in ctrl["events"]}
    ck.note("control_events_ignored", sorted(base)[:30])
    for (name, files, extra), res in zip(jobs, results):
        ck.count(key=name)
        effects = [e for e in res["events"] if (e[0], e[1] if e[0] == "import" else "") not in base]
        if res.get("canary") or effects or res.get("new_files"):
            slot = name.split(":")[0]
            tags = {"slot:" + slot}
            tags |= {"effect:" + e[0] for e in effects}
            if res.get("canary"):
                tags.add("effect:canaryCreated")
            if res.get("new_files"):
                tags.add("effect:fileCreatedInWorkspace")
            ck.violation(tags, {"kind": "payload", "name": name, "files": files, "args": extra, "result": res})
        else:
            ck.traces += 1
    ck.note("payload_slots", sorted({j[0].split(":")[0] for j in jobs}))
    ck.note("runs", len(jobs))
    ck.sample({"name": jobs[0][0], "files": jobs[0][1]})
    ck.sample({"name": jobs[-1][0], "files": jobs[-1][1]})
    return ck.finish()


def replay(path):
    rec = json.load(open(path))
    canary = os.path.join(tlc.scratch(), "CANARY_replay")
    res = run_child(rec["files"], rec["args"], canary)
    print(json.dumps(res)[:1500])
    return 1 if (res["events"] or res.get("canary")) else 0
