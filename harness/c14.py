"""C14: fixed-form sources are recognised and understood like their free-form twin."""
from __future__ import annotations

import random

from . import c13
from .common import Check


def main(tier, seed):
    ck = Check("C14", tier, seed)
    ck.assumptions = [
        "fixed-form twins are produced by Layout.tla's ToFixed action: statements from column 7, comment lines flagged in column 1 by C c * ! d, continuation marked in column 6",
        "free-form layouts of C13 must never be classified as fixed (checked by C13's form:misdetected tag as well)",
    ]
    c13.run(ck, tier, random.Random(seed), fixed=True)
    return ck.finish()


replay = c13.replay
