"""C14: fixed-form sources are recognised and understood like their free-form twin."""
from __future__ import annotations

import random

from . import c13
from .common import Check


def main(tier, seed):
    ck = Check("C14", tier, seed)
    ck.assumptions = [
        "fixed-form twins are produced by Layout.tla's ToFixed action: statements from column 7, comment lines flagged in column 1 by C c * ! d, continuation marked in column 6",
        "free-form layouts of C13 must never be classified as fixed (checked by C13's form:misdetected tag as well)",
    ]
    c13.run(ck, tier, random.Random(seed), fixed=True)
    # "... and a free-form program is never classified as fixed form": the free-form layouts of C13
    # (incl. flush-left files whose only free-form cue is a declaration starting in column 1)
    c13.run(ck, tier, random.Random(seed + 1), fixed=False, scale=0.5,
            opk_free='{"blank", "comment", "split", "eol", "case", "trail", "tcomment", "flush"}')
    return ck.finish()


replay = c13.replay
