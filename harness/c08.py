"""C08: preprocessor regions and macro table match a reference C preprocessor.

Preproc.tla carries the reference conditional semantics and an implementation-
shaped transcription of pp_stack/pp_stack_group; TLC checks they agree in every
reachable state (and that the named deviation StaleGroup is caught).  Every file
TLC enumerates (Preproc_Gen) or simulates (Preproc_Sim) is rendered to text and
fed to the real preprocess_file / FortranFile.parse / a live server; the set of
skipped code lines, the final macro table, the expanded text of macro uses and
the indexed declarations are compared with the spec state.  clang -E is run on a
sample of the same files to validate the SPEC (not the implementation).
"""
from __future__ import annotations

import json
import os
import random
import shutil
import subprocess

from . import adapter, par, tlc
from .common import Check

VAL = {"ref": None, "empty": "", "v0": "0", "v1": "1", "v2": "2", "txt": "selected_real_kind(6)",
       "hostile1": "q\\1+", "hostile2": "'a\\n\"b'", "hostile3": "[a-z]*$(x|y)\\d",
       "py1": "__import__('os').system('touch %(canary)s')", "py2": "open('%(canary)s','w').write('x')",
       "py3": "(lambda: __import__('pathlib').Path('%(canary)s').touch())()", "py4": "[c for c in ().__class__.__base__.__subclasses__()]",
       "py5": "exec(\"open('%(canary)s','w')\")", "py6": "__builtins__", "fn": "fn:x+1"}
HEADERS = {"hdef.h": "#define B 1\n", "hloop.h": '#include "hloop.h"\n#include "hloop.h"\n',
           "hping.h": '#include "hpong.h"\n#include "hpong.h"\n', "hpong.h": '#include "hping.h"\n#include "hping.h"\n#define B 1\n'}
_HDR = None


def header_dir():
    """Directory holding the fixed headers of Preproc.tla's Include action (created once, inherited by workers)."""
    global _HDR
    if _HDR is None or not os.path.isdir(_HDR):
        _HDR = adapter.mkws(HEADERS, prefix="hdr")
    return _HDR


def use_text(name, form):
    return {"bare": name, "call": "%s(2)" % name, "call2": "%s(2)+%s(3)" % (name, name)}[form]


def expected_use(rec, empty=""):
    """Text a macro use is replaced by, from the spec's record of the line."""
    form, ex, val = rec.get("form", "bare"), rec["exp"], rec["val"]
    if form == "bare":
        return ex["x"] if ex["t"] == "name" else (empty if ex["x"] == "empty" else VAL[ex["x"]])
    args = ["2"] if form == "call" else ["2", "3"]
    if val == "undef":
        return use_text(rec["use"], form)
    if val == "fn":
        return "+".join(a + "+1" for a in args)        # body x+1 with x := argument
    body = empty if val == "empty" else VAL[val]
    return "+".join("%s(%s)" % (body, a) for a in args)


def expr_text(e):
    op = e["op"]
    if op == "def":
        return "defined(%s)" % e["n"]
    if op == "defsp":
        return "defined %s" % e["n"]
    if op == "cmp":
        return "%s %s %d" % (e["n"], e["rel"], e["k"])
    if op == "lit":
        return str(e["k"])
    if op == "bare":
        return e["n"]
    if op == "not":
        a = e["a"]
        t = expr_text(a)
        return "!%s" % t if a["op"] in ("def", "paren", "lit") else "!(%s)" % t
    if op == "paren":
        return "(%s)" % expr_text(e["a"])
    if op in ("and", "or"):
        return "%s %s %s" % (expr_text(e["a"]), "&&" if op == "and" else "||", expr_text(e["b"]))
    raise ValueError(op)


def render(st, canary="/nonexistent/canary"):
    """-> (lines, init pp_defs, expected) for a spec state."""
    lines = []
    for rec in st["file"]:
        k = rec["k"]
        ln = rec["ln"]
        if k == "if":
            lines.append("#if " + expr_text(rec["e"]))
        elif k == "ifdef":
            lines.append("#ifdef " + rec["n"])
        elif k == "ifndef":
            lines.append("#ifndef " + rec["n"])
        elif k == "elif":
            lines.append("#elif " + expr_text(rec["e"]))
        elif k == "else":
            lines.append("#else")
        elif k == "endif":
            lines.append("#endif")
        elif k == "define":
            v = VAL[rec["v"]] % {"canary": canary} if rec["v"].startswith("py") else VAL[rec["v"]]
            if rec["v"] == "ref":
                v = [n for n in st["defs"] if n != rec["n"]][0]
            if rec["v"] == "fn":
                lines.append("#define %s(x) x+1" % rec["n"])
            else:
                lines.append(("#define %s %s" % (rec["n"], v)).rstrip())
        elif k == "undef":
            lines.append("#undef " + rec["n"])
        elif k == "code":
            if rec["use"] == "none":
                lines.append("integer :: v%d" % ln)
            else:
                lines.append("integer :: w%d = %s" % (ln, use_text(rec["use"], rec.get("form", "bare"))))
        elif k == "include":
            lines.append('#include "%s.h"' % rec["h"])
    nopen = len(st["frames"])
    lines += ["#endif"] * nopen
    init = {n: VAL[v] for n, v in st["init0"].items() if v != "undef"}
    return lines, init


def in_skips(skips, ln):
    return any(s <= ln <= e for s, e in skips)


def norm_val(v):
    if isinstance(v, tuple):
        return "fn:" + v[1]
    return "" if v == "True" else v


def check_state(st):
    """Replay one spec state into preprocess_file.  Returns list of (tags, detail)."""
    from fortls.parsers.internal.parser import preprocess_file

    lines, init = render(st)
    out = []
    try:
        outp, skips, _defines, defs = preprocess_file(list(lines), None, pp_defs=dict(init), include_dirs={header_dir()})
    except Exception as ex:  # totality is C03's business but a crash here is still a failure
        return [({"error:" + type(ex).__name__}, {"lines": lines, "init": init, "exception": repr(ex)})]
    kinds = {r["k"] for r in st["file"]}
    shape = {"has:" + k for k in kinds if k in ("elif", "else")}
    ops = set()

    def walk(e):
        ops.add(e["op"])
        for k in ("a", "b"):
            if k in e:
                walk(e[k])
    for r in st["file"]:
        if "e" in r:
            walk(r["e"])
    shape |= {"expr:" + o for o in ops}
    if any(r.get("viaRef") for r in st["file"]):
        shape.add("cond:viaRef")      # a condition consults a macro whose body is another macro
    for rec in st["file"]:
        if rec["k"] != "code":
            continue
        ln = rec["ln"]
        sk = in_skips(skips, ln)
        if sk == rec["live"]:
            out.append(({"diff:liveness", "expected:" + ("live" if rec["live"] else "dead")} | shape,
                        {"lines": lines, "init": init, "line": ln, "expected_live": rec["live"], "pp_skips": skips}))
            break
        if rec["live"] and rec["use"] != "none":
            val = rec["val"]
            ex = rec["exp"]
            exp = "integer :: w%d = %s" % (ln, expected_use(rec))
            if outp[ln - 1] != exp:
                t = {"diff:expansion", "val:" + val}
                if rec.get("form", "bare") != "bare":
                    t.add("form:" + rec["form"])
                if (ex["t"] == "val" and ex["x"] == "empty") or (val == "empty" and rec.get("form", "bare") != "bare"):
                    t.add("resolved:empty")
                    if outp[ln - 1] == "integer :: w%d = %s" % (ln, expected_use(rec, empty="True")):
                        t.add("observed:True")
                if val == "ref":
                    t.add("expansion:" + ex["t"])
                    # which of the two macros entered the table first (pp_defs count as first)
                    inner = [o for o in st["defs"] if o != rec["use"]][0]

                    def first_def(nm):
                        # when the macro (last) entered the implementation's table before this line
                        t0 = 0 if st["init0"][nm] != "undef" else None
                        for r in st["file"]:
                            if r["ln"] >= ln:
                                break
                            if r["live"] and r["k"] == "undef" and r["n"] == nm:
                                t0 = None
                            elif r["live"] and r["k"] == "define" and r["n"] == nm and t0 is None:
                                t0 = r["ln"]
                            elif r["live"] and r["k"] == "include" and r["h"] in ("hdef", "hping") and nm == "B" and t0 is None:
                                t0 = r["ln"]     # the header defines B
                        return 10 ** 6 if t0 is None else t0
                    t.add("rescan:innerFirst" if first_def(inner) < first_def(rec["use"]) else "rescan:outerFirst")
                out.append((t, {"lines": lines, "init": init, "line": ln, "expected": exp, "observed": outp[ln - 1]}))
                break
    # macro table at end of file, restricted to the names of the model
    for n, v in st["defs"].items():
        got = defs.get(n)
        exp = None if v == "undef" else VAL[v]
        if v == "ref":
            exp = [o for o in st["defs"] if o != n][0]
        if (got is None) != (exp is None) or (got is not None and norm_val(got) != exp):
            out.append(({"diff:macroTable"} | shape, {"lines": lines, "init": init, "name": n, "expected": exp, "observed": got}))
            break
    return out


def index_check(st):
    """End to end: declarations in dead regions never indexed, in live regions always."""
    lines, init = render(st)
    src = ["module mm"] + lines + ["end module mm"]
    d = adapter.mkws(dict(HEADERS, **{"f.F90": "\n".join(src) + "\n", ".fortls": json.dumps({"pp_defs": init})}))
    try:
        s, c = adapter.mkserver(d)
        bad = []
        for rec in st["file"]:
            if rec["k"] == "code":
                nm = ("v%d" if rec["use"] == "none" else "w%d") % rec["ln"]
                # the declaration is on source line rec.ln (0-based: +1 for "module mm", -1), name at column 11
                res = adapter.result_of(adapter.request(s, c, "textDocument/definition", adapter.posparams(d, "f.F90", rec["ln"], 12)))
                indexed = isinstance(res, dict) and res.get("range", {}).get("start", {}).get("line") == rec["ln"]
                if indexed != rec["live"]:
                    bad.append((nm, rec["live"], res))
        return bad, src, init
    finally:
        adapter.rmws(d)


def clang_validate(ck, states, rnd):
    """Spec self-validation: the reference layer must agree with a real cpp."""
    if not shutil.which("clang"):
        ck.note("clang_validation", "clang not available")
        return
    n = 0
    for st in states:
        lines, init = render(st)
        if any(r["k"] == "define" and r["v"].startswith(("hostile", "py")) for r in st["file"]):
            continue
        src = []
        for i, l in enumerate(lines, 1):
            src.append(l if l.startswith("#") else "LINE%d" % i)
        args = ["clang", "-E", "-P", "-x", "c", "-"] + ["-D%s=%s" % (k, v) for k, v in init.items()]
        p = subprocess.run(args, input="\n".join(src) + "\n", capture_output=True, text=True)
        if p.returncode != 0:
            continue
        live = {int(t[4:]) for t in p.stdout.split() if t.startswith("LINE")}
        exp = {r["ln"] for r in st["file"] if r["k"] == "code" and r["live"]}
        n += 1
        if live != exp:
            ck.machinery("spec self-validation: Preproc.tla disagrees with clang -E on %r (spec live=%s clang=%s)" % (lines, sorted(exp), sorted(live)))
            return
    ck.note("clang_validated_files", n)


def _job(st):
    return check_state(st)


def main(tier, seed):
    ck = Check("C08", tier, seed)
    rnd = random.Random(seed)
    ck.assumptions = [
        "conditions over defined(X)/defined X, !, &&, ||, parentheses, integer comparisons, literals 0/1",
        "a macro is not redefined while defined (a C preprocessor diagnoses that); comparisons only on numeric or undefined macros",
        "unterminated conditionals are closed by the renderer with #endif lines",
        "a macro body mentions at most the one other macro of the model (value \"ref\"); function-like macros have one parameter and are invoked with literal arguments, once or twice on a line",
        "#include names one of four fixed headers (one defines B, one includes itself twice, two include each other twice)",
    ]
    for cfg, req in (("Preproc_MC.cfg", ["If", "Elif", "Else", "Endif", "Define", "UndefLine", "Code"]), ("Preproc_MC2.cfg", ["Elif", "Else"])):
        r = tlc.mc("Preproc", cfg, required_actions=req, timeout=1500)
        ck.add_tlc(cfg, r)
        if not r.ok:
            ck.machinery("%s violated %s: the implementation-shaped layer disagrees with the reference layer; counterexample: %s"
                         % (cfg, r.violated, [s["state"].get("file", [])[-1:] for s in r.counterexample() if isinstance(s["state"], dict)]))
            return ck.finish()
    rr = tlc.run("Preproc", "Preproc_Dev_StaleGroup.cfg", timeout=600)
    ck.add_tlc("Preproc_Dev_StaleGroup (expected counterexample)", rr)
    if rr.ok:
        ck.machinery("model self-test: StaleGroup deviation not detected")

    states = []
    info = {}
    for st in tlc.dump_states("Preproc", "Preproc_Gen_%s.cfg" % tier, info=info, timeout=3000):
        if st["file"]:
            states.append(st)
    ck.add_tlc("Preproc_Gen", info["result"])
    # conditional skeletons: exhaustive to a greater depth over a small alphabet; only maximal files are
    # replayed (shorter ones are their prefixes and are covered by Preproc_Gen)
    skel_len = 6 if tier == "quick" else 7
    info = {}
    nsk = 0
    for st in tlc.dump_states("Preproc", "Preproc_GenSkel_%s.cfg" % tier, info=info, timeout=3000,
                              prefilter=lambda t: t.count("ln |->") == skel_len):
        states.append(st)
        nsk += 1
    ck.add_tlc("Preproc_GenSkel", info["result"])
    ck.note("skeleton_files", nsk)
    # macro tables: a macro changes value and kind (object-like / function-like) between uses, headers
    # that include themselves and each other; maximal files only
    nmac = 0
    for cfg, mlen in (("Preproc_GenMacro.cfg", 5), ("Preproc_GenMacro2.cfg", 4)):
        info = {}
        for st in tlc.dump_states("Preproc", cfg, info=info, timeout=3000, prefilter=lambda t, m=mlen: t.count("ln |->") == m):
            if any(r["k"] == "code" and r["use"] != "none" for r in st["file"]) or any(r["k"] == "include" for r in st["file"]):
                states.append(st)
                nmac += 1
        ck.add_tlc(cfg[:-4], info["result"])
    ck.note("macro_table_files", nmac)
    header_dir()
    nsim = 1500 if tier == "quick" else 15000
    sim = []
    for beh in tlc.simulate("Preproc", "Preproc_Sim.cfg", num=nsim, depth=15, seed=seed + 3, timeout=1500, workers=8):
        sim.append(beh[-1][1])
        if len(beh) > 8:
            sim.append(beh[len(beh) // 2][1])
    states += [s for s in sim if s["file"]]
    ck.note("generated_files", {"exhaustive": len(states) - len(sim), "simulated": len(sim)})
    for i, status, val in par.pmap(_job, states, item_timeout=120):
        ck.count(nontrivial=False)
        if status != "done":
            ck.violation({"replay:" + status}, {"kind": "file", "state": states[i], "detail": val})
            continue
        ck.traces += 1
        for tags, detail in val:
            detail["kind"] = "file"
            detail["state"] = states[i]
            ck.violation(tags | {"binding:preprocess_file"}, detail)
    ck.distinct_extra += len(states)
    for st in states[:: max(1, len(states) // 3)][:3]:
        lines, init = render(st)
        ck.sample({"pp_defs": init, "file": lines, "expected_live_code_lines": [r["ln"] for r in st["file"] if r["k"] == "code" and r["live"]],
                   "expected_macro_table": st["defs"]})
    # end to end through a live server
    pick = [s for s in states if any(r["k"] == "code" for r in s["file"])]
    rnd.shuffle(pick)
    pick = pick[: (150 if tier == "quick" else 1500)]
    for i, status, val in par.pmap(index_check, pick, item_timeout=120):
        ck.count(key=("e2e", json.dumps(pick[i]["file"], sort_keys=True)))
        if status != "done":
            ck.violation({"e2e:" + status}, {"kind": "e2e", "state": pick[i], "detail": val})
            continue
        ck.traces += 1
        bad, src, init = val
        if bad:
            ck.violation({"diff:indexedDeclarations", "binding:server"}, {"kind": "e2e", "state": pick[i], "source": src, "pp_defs": init, "wrong": bad})
    clang_validate(ck, rnd.sample(states, min(len(states), 300 if tier == "quick" else 2000)), rnd)
    return ck.finish()


def replay(path):
    rec = json.load(open(path))
    header_dir()
    res = check_state(rec["state"])
    for tags, detail in res:
        print(sorted(tags), json.dumps(detail, default=str)[:600])
    return 1 if res else 0
