"""Replay of Deferred.tla universes: abstract types, deferred bindings, EXTENDS chains (C07 class DeferredNotImplemented)."""
from __future__ import annotations

import os
import shutil
import subprocess

from . import adapter, tlc


def render(st):
    """-> (files, endline) ; endline[i] = (file, 0-based line of END TYPE of t_i)"""
    D, nb = st["D"], st["nb"]
    impl = [sorted(x) for x in st["impl"]]
    abstract = st["abstract"]
    split = st["split"]
    mods = {}

    def type_block(i):
        lines = []
        if i == 1:
            lines += ["  type, abstract :: t1", "    integer :: c1", "  contains"]
            for k in range(1, nb + 1):
                lines.append("    procedure(d_iface), deferred :: d%d" % k)
        else:
            attr = ", abstract" if abstract[i - 1] else ""
            lines += ["  type%s, extends(t%d) :: t%d" % (attr, i - 1, i), "    integer :: c%d" % i]
            if impl[i - 1]:
                lines.append("  contains")
                for k in impl[i - 1]:
                    lines.append("    procedure :: d%d => impl_%d_%d" % (k, i, k))
        lines.append("  end type t%d" % i)
        return lines

    def procs(i):
        out = []
        for k in (impl[i - 1] if i > 1 else []):
            out += ["  subroutine impl_%d_%d(self)" % (i, k), "    class(t%d), intent(inout) :: self" % i, "    self%%c%d = %d" % (i, k), "  end subroutine impl_%d_%d" % (i, k)]
        return out

    iface = ["  abstract interface", "    subroutine d_iface(self)", "      import :: t1", "      class(t1), intent(inout) :: self", "    end subroutine d_iface", "  end interface"]
    files, endline = {}, {}
    if not split:
        lines = ["module dm_all", "  implicit none"]
        lines += type_block(1) + iface
        for i in range(2, D + 1):
            lines += type_block(i)
        body = []
        for i in range(2, D + 1):
            body += procs(i)
        if body:
            lines += ["contains"] + body
        lines.append("end module dm_all")
        files["m_all.f90"] = "\n".join(lines) + "\n"
        for i in range(1, D + 1):
            endline[i] = ("m_all.f90", lines.index("  end type t%d" % i))
        use = "dm_all"
    else:
        for i in range(1, D + 1):
            lines = ["module dm%d" % i]
            if i > 1:
                lines.append("  use dm%d" % (i - 1))
            lines.append("  implicit none")
            lines += type_block(i)
            if i == 1:
                lines += iface
            body = procs(i)
            if body:
                lines += ["contains"] + body
            lines.append("end module dm%d" % i)
            # enumeration order: the base type's file sorts first (a..) or last (z..)
            fn = ("z9_base.f90" if st["baseLast"] else "a0_base.f90") if i == 1 else "m%d.f90" % i
            files[fn] = "\n".join(lines) + "\n"
            endline[i] = (fn, lines.index("  end type t%d" % i))
        use = "dm%d" % D
    # a user of the leaf type (only when the leaf is concrete: an abstract type cannot be instantiated)
    if not abstract[D - 1]:
        files["n_main.f90"] = "program main\n  use %s\n  implicit none\n  type(t%d) :: v\n  v%%c1 = 1\nend program main\n" % (use, D)
    return files, endline


def gfortran_ok(files):
    """Does gfortran accept the program? (spec self-validation; None when no compiler)"""
    if not shutil.which("gfortran"):
        return None
    d = adapter.mkws(files)
    try:
        # modules in dependency order: the base first
        order = sorted(files, key=lambda f: (f == "n_main.f90", "base" not in f, f))
        p = subprocess.run(["gfortran", "-fsyntax-only", "-std=f2018"] + order, cwd=d, capture_output=True, text=True, timeout=120)
        return p.returncode == 0, p.stderr[-400:]
    finally:
        adapter.rmws(d)


def check(st):
    files, endline = render(st)
    d = adapter.mkws(files)
    try:
        s, c = adapter.mkserver(d)
        got = {}
        other = []
        for fn in sorted(files):
            diags, exc = s.get_diagnostics(adapter.uri(d, fn))
            if exc is not None:
                return [({"deferred:diagnosticsFailed"}, {"files": files, "file": fn, "exception": repr(exc)})]
            for x in diags or []:
                if x.get("severity") != 1:
                    continue
                if "not implemented" in x["message"]:
                    got[(fn, x["range"]["start"]["line"])] = got.get((fn, x["range"]["start"]["line"]), 0) + 1
                else:
                    other.append((fn, x["range"]["start"]["line"], x["message"]))
        exp = {}
        for e in st["expDiag"]:
            i = e[0]
            exp[endline[i]] = exp.get(endline[i], 0) + 1
        out = []
        shape = {"split" if st["split"] else "oneModule"} | ({"baseLast"} if st["baseLast"] else set())
        detail = {"files": files, "expected": sorted((k[0], k[1], v) for k, v in exp.items()), "observed": sorted((k[0], k[1], v) for k, v in got.items()), "other_errors": other}
        if not exp and (got or other):
            out.append(({"valid:errorPublished", "class:DeferredNotImplemented" if got else "class:other"} | shape, detail))
        elif exp:
            if set(got) != set(exp):
                out.append(({"defect:missing" if not got else "defect:wrongLineOrSeverity", "class:DeferredNotImplemented"} | shape, detail))
            elif got != exp:
                out.append(({"defect:wrongCount", "class:DeferredNotImplemented"} | shape, detail))
            if other:
                out.append(({"defect:unrelatedError", "class:DeferredNotImplemented"} | shape, detail))
        return out
    finally:
        adapter.rmws(d)


def run(ck, tier):
    r = tlc.mc("Deferred", "Deferred_MC.cfg", timeout=300)
    ck.add_tlc("Deferred_MC", r)
    if not r.ok:
        ck.machinery("Deferred_MC violated %s" % r.violated)
        return
    from . import par
    info = {}
    states = list(tlc.dump_states("Deferred", "Deferred_MC.cfg", info=info))
    ck.add_tlc("Deferred_Gen", info["result"])
    # spec self-validation: universes the spec calls valid are accepted by gfortran, the others rejected
    nval = 0
    for st in states[:: (7 if tier == "quick" else 1)]:
        files, _ = render(st)
        ok = gfortran_ok(files)
        if ok is None:
            break
        nval += 1
        if ok[0] != (not st["expDiag"]):
            ck.machinery("spec self-validation: Deferred.tla says %s but gfortran says %s for %r: %s" % ("valid" if not st["expDiag"] else "defect", "accepted" if ok[0] else "rejected", files, ok[1]))
            return
    ck.note("deferred_universes_validated_by_gfortran", nval)
    for i, status, val in par.pmap(check, states, item_timeout=120):
        ck.count(key=("deferred", repr(sorted(states[i].items(), key=str))))
        if status != "done":
            ck.violation({"deferred:" + status}, {"kind": "deferred", "state": states[i], "detail": val})
            continue
        ck.traces += 1
        for tags, detail in val:
            detail.update(kind="deferred", state=states[i])
            ck.violation(tags, detail)
    ck.note("deferred_universes", len(states))
