"""C10: after saving, answers depend only on the files, not on the edit history.

Workspace.tla enumerates histories of sync events (open, edit, save, close,
create+open, delete+close, query) over three files with content variants and
states the reference requirement: in every quiescent state the index equals the
one a fresh server builds from disk.  Each history is replayed against a
long-lived server; in every quiescent state of the behaviour the full query
battery of the long-lived server is compared with the battery of a fresh server
started on a copy of the directory (the observable form of idx = FreshIndex).
"""
from __future__ import annotations

import json
import os
import random
import re
import shutil

from . import adapter, par, tlc
from .common import Check

# content variants: cross-file links the index caches (type layouts, EXTENDS, USE, generic interfaces)
A = {
    1: "module ma\n  implicit none\n  type :: t\n    integer :: c1\n  contains\n    procedure :: show => show_t\n  end type t\n  interface gen\n    module procedure ga\n  end interface gen\ncontains\n  subroutine show_t(self)\n    class(t), intent(in) :: self\n  end subroutine show_t\n  subroutine ga(i)\n    integer, intent(in) :: i\n  end subroutine ga\nend module ma\n",
    2: "module ma\n  implicit none\n  type :: t\n    integer :: c2\n    real :: extra\n  end type t\n  interface gen\n    module procedure ga\n  end interface gen\ncontains\n  subroutine ga(i)\n    integer, intent(in) :: i\n  end subroutine ga\nend module ma\n",
    3: "module ma_renamed\n  implicit none\n  type :: t\n    integer :: c1\n  end type t\nend module ma_renamed\n",
}
B = {
    1: "module mb\n  use ma\n  implicit none\n  type, extends(t) :: u\n    integer :: d\n  end type u\ncontains\n  subroutine useit(x)\n    type(u), intent(inout) :: x\n    x%c1 = 1\n    x%d = 2\n  end subroutine useit\nend module mb\n",
    2: "module mb\n  use ma\n  implicit none\n  type :: u\n    integer :: d\n    integer :: e\n  end type u\ncontains\n  subroutine useit(x)\n    type(u), intent(inout) :: x\n    x%d = 2\n  end subroutine useit\n  subroutine other()\n  end subroutine other\nend module mb\n",
    3: "module mb\n  implicit none\n  integer :: standalone\nend module mb\n",
}
C = {
    1: "program pc\n  use mb\n  implicit none\n  type, extends(u) :: leaf\n    integer :: z\n  end type leaf\n  type(u) :: v\n  type(t) :: w\n  type(leaf) :: lf\n  v%d = 1\n  v%c1 = 2\n  w%c1 = 3\n  lf%c1 = 4\n  lf%z = 5\n  call gen(1)\n  call useit(v)\nend program pc\n",
    2: "program pc\n  use ma\n  implicit none\n  type(t) :: w\n  w%c2 = 3\n  w%c1 = 4\n  call gen(2)\nend program pc\n",
    3: "subroutine lonely()\n  use mb, only: useit\n  implicit none\nend subroutine lonely\n",
}
def _inline(text, old, new):
    assert old in text and "\n" not in old
    return text.replace(old, new, 1)


# variant 4: variant 1 with ONE line edited in place (sent as a single-line ranged change)
A[4] = _inline(A[1], "    integer :: c1", "    integer :: c9")
B[4] = _inline(B[1], "    integer :: d", "    integer :: d9")
C[4] = _inline(C[1], "  type(t) :: w", "  type(t) :: w9")
# variant 5: a name moves between the top level and a nested scope; a module shadows a type it used to import
A[5] = A[1].replace("end module ma\n", "end module ma\nsubroutine helper_a()\nend subroutine helper_a\n")
B[5] = "module mb\n  use ma, only: gen\n  implicit none\n  type :: t\n    integer :: own\n  end type t\n  type, extends(t) :: u\n    integer :: d\n  end type u\ncontains\n  subroutine useit(x)\n    type(u), intent(inout) :: x\n    x%own = 1\n    x%d = 2\n  end subroutine useit\nend module mb\n"
C[5] = "module wrap\n  implicit none\ncontains\n  subroutine lonely()\n    use mb, only: useit\n  end subroutine lonely\nend module wrap\n"
CONTENT = {"a": A, "b": B, "c": C}


def change_for(f, old_v, new_v, CONTENT=CONTENT):
    """LSP content change taking variant old_v to new_v: a single-line ranged edit when they differ in one line."""
    a, b = CONTENT[f][old_v].split("\n"), CONTENT[f][new_v].split("\n")
    if len(a) == len(b):
        diff = [i for i in range(len(a)) if a[i] != b[i]]
        if len(diff) == 1:
            i = diff[0]
            return {"range": {"start": {"line": i, "character": 0}, "end": {"line": i, "character": len(a[i])}}, "text": b[i]}
    return {"text": CONTENT[f][new_v]}
FN = {"a": "a.f90", "b": "b.f90", "c": "c.f90"}

# ---- further worlds: other kinds of cross-file state the server keeps -------------------------------------
# "pp": preprocessor state.  a (in gen/) defines a macro, b (in src/) tests it and #includes a header that only
# exists next to a; nothing of a's may reach b (a fresh server parses each file from the configured pp_defs
# and include_dirs only).
PP = {
    "a": {1: "module ma\n  implicit none\n  integer :: av\n  ! no macro yet\nend module ma\n",
          2: "#define WITH_MPI\nmodule ma\n  implicit none\n  integer :: av\nend module ma\n"},
    "b": {1: "#include \"config.h\"\nmodule mb\n  implicit none\n#ifdef WITH_MPI\n  integer :: mpi_rank\n#endif\n#ifdef HAVE_X\n  integer :: x_only\n#endif\n  integer :: always\nend module mb\n",
          2: "#include \"config.h\"\nmodule mb\n  implicit none\n#ifdef WITH_MPI\n  integer :: mpi_rank\n#endif\n#ifdef HAVE_X\n  integer :: x_only\n#endif\n  integer :: always\n  ! touched\nend module mb\n"},
    "c": {1: "program pc\n  use mb\n  implicit none\n  always = 1\n  mpi_rank = 2\n  x_only = 3\nend program pc\n",
          2: "program pc\n  use mb\n  use ma\n  implicit none\n  always = 1\n  mpi_rank = 2\n  x_only = 3\n  av = 4\nend program pc\n"},
}
# "links": a module that two files define for a while, a submodule's parent, the target of a type-bound procedure
LK = {
    "a": {1: "module pm\n  implicit none\n  integer :: parent_var\n  interface\n    module subroutine work(k)\n      integer, intent(in) :: k\n    end subroutine work\n  end interface\ncontains\n  subroutine helper_impl(n, scale)\n    integer, intent(in) :: n\n    real, intent(in) :: scale\n  end subroutine helper_impl\nend module pm\n",
          2: "module pm_renamed\n  implicit none\n  integer :: parent_var\ncontains\n  subroutine helper_other(n)\n    integer, intent(in) :: n\n  end subroutine helper_other\nend module pm_renamed\n"},
    "b": {1: "module mb\n  use pm\n  implicit none\n  type :: tt\n  contains\n    procedure, nopass :: helper => helper_impl\n  end type tt\nend module mb\nsubmodule (pm) sm\n  implicit none\ncontains\n  module subroutine work(k)\n    integer, intent(in) :: k\n    parent_var = k\n  end subroutine work\nend submodule sm\n",
          2: "module mb\n  implicit none\n  integer :: plain\nend module mb\n"},
    # c becomes a second definition of module pm for a while ("save as" under another name), then is renamed back
    "c": {1: "module pm_copy\n  implicit none\n  integer :: copy_var\nend module pm_copy\n",
          2: "module pm\n  implicit none\n  integer :: parent_var\n  interface\n    module subroutine work(k)\n      integer, intent(in) :: k\n    end subroutine work\n  end interface\ncontains\n  subroutine helper_impl(n, scale)\n    integer, intent(in) :: n\n    real, intent(in) :: scale\n  end subroutine helper_impl\nend module pm\n"},
}
LK_EXTRA = {"z_user.f90": "program user\n  use mb\n  use pm, only: parent_var\n  implicit none\n  type(tt) :: obj\n  call obj%helper(1, 2.0)\n  parent_var = 1\nend program user\n"}
# "inc": entities grafted into a scope by INCLUDE
INC = {
    "a": {1: "integer :: nvals\nreal :: scale_factor\n", 2: "! integer :: nvals\n! real :: scale_factor\n"},
    "b": {1: "program main\n  implicit none\n  include 'a.f90'\n  nvals = 1\n  scale_factor = 2.0\nend program main\n",
          2: "program main\n  implicit none\n  include 'a.f90'\n  nvals = 1\n  scale_factor = 2.0\n  ! touched\nend program main\n"},
    # (one includer only: a file included by several hosts has ONE none_scope redirect by design)
    "c": {1: "subroutine other()\n  implicit none\n  integer :: nvals\n  nvals = 3\nend subroutine other\n",
          2: "subroutine other()\n  implicit none\n  integer :: nvals, scale_factor\n  nvals = 3\n  scale_factor = 1\nend subroutine other\n"},
}
# states in which the files themselves are ambiguous (two files define the same module): no requirement
AMBIGUOUS = {"links": lambda disk: disk["a"] == 1 and disk["c"] == 2}
WORLDS = {
    "types": (FN, CONTENT, {}),
    "pp": ({"a": "gen/a.F90", "b": "src/b.F90", "c": "c.f90"}, PP, {"gen/config.h": "#define HAVE_X 1\n"}),
    "links": (FN, LK, LK_EXTRA),
    "inc": (FN, INC, {}),
}


def battery(s, c, d):
    """All answers of a server, normalised (workspace prefix stripped, lists sorted)."""
    out = {}

    def norm(x):
        return json.loads(json.dumps(x).replace(adapter.path_to_uri(d), "ROOT").replace(d, "ROOT"))
    files = sorted(os.path.relpath(os.path.join(r, f), d) for r, _ds, fs in os.walk(d) for f in fs if f.lower().endswith(".f90"))
    ws = adapter.result_of(adapter.request(s, c, "workspace/symbol", {"query": ""}))
    out["wsym"] = sorted(json.dumps(norm(x), sort_keys=True) for x in (ws or []))
    for f in files:
        uri = adapter.uri(d, f)
        text = open(os.path.join(d, f)).read()
        ds = adapter.result_of(adapter.request(s, c, "textDocument/documentSymbol", {"textDocument": {"uri": uri}}))
        out["sym:" + f] = sorted(json.dumps(norm(x), sort_keys=True) for x in (ds or []))
        diags, exc = s.get_diagnostics(uri)
        out["diag:" + f] = sorted(json.dumps(norm(x), sort_keys=True) for x in (diags or [])) if exc is None else "EXC " + type(exc).__name__
        for ln, line in enumerate(text.split("\n")):
            for m in re.finditer(r"[A-Za-z_]\w*", line):
                pp = adapter.posparams(d, f, ln, m.start() + 1 if m.end() - m.start() > 1 else m.start())
                for meth in ("textDocument/definition", "textDocument/hover"):
                    r = adapter.result_of(adapter.request(s, c, meth, pp))
                    out["%s:%s:%d:%d" % (meth[13:], f, ln, m.start())] = json.dumps(norm(r), sort_keys=True)
            for m in re.finditer(r"%", line):
                r = adapter.result_of(adapter.request(s, c, "textDocument/completion", adapter.posparams(d, f, ln, m.start() + 1)))
                items = r.get("items", r) if isinstance(r, dict) else (r or [])
                out["comp:%s:%d:%d" % (f, ln, m.start())] = sorted(str(i.get("label")) for i in items if isinstance(i, dict))
            m = re.match(r"\s*(?:integer|real|type\(\w+\)|class\(\w+\))[^:]*::\s*(\w+)", line)
            if m:
                r = adapter.result_of(adapter.request(s, c, "textDocument/references",
                                                      adapter.posparams(d, f, ln, m.start(1) + 1, context={"includeDeclaration": True})))
                out["refs:%s:%d" % (f, ln)] = sorted(json.dumps(norm(x), sort_keys=True) for x in (r or [])) if isinstance(r, list) else json.dumps(norm(r))
    return out


def fresh_battery(d):
    d2 = d + ".fresh"
    shutil.copytree(d, d2)
    try:
        s, c = adapter.mkserver(d2)
        b = battery(s, c, d2)
        return b
    finally:
        shutil.rmtree(d2, ignore_errors=True)


def replay_history(hist, world="types"):
    """Returns list of (step index, differing keys, sample) for quiescent states where long-lived != fresh."""
    if isinstance(hist, dict):
        hist, world = hist["hist"], hist["world"]
    FN, CONTENT, extra = WORLDS[world]
    d = adapter.mkws(dict(extra, **{FN[f]: CONTENT[f][1] for f in FN}))
    out = []
    try:
        s, c = adapter.mkserver(d)
        disk = {f: 1 for f in FN}
        buf = dict(disk)
        opened = {f: False for f in FN}
        dirty = {f: False for f in FN}
        for i, ev in enumerate(hist):
            e, f = ev["e"], ev.get("f")
            if e == "open":
                adapter.did_open(s, c, d, FN[f])
                opened[f] = True
                buf[f] = disk[f]
            elif e == "edit":
                adapter.notify(s, c, "textDocument/didChange", {"textDocument": {"uri": adapter.uri(d, FN[f])}, "contentChanges": [change_for(f, buf[f], ev["v"], CONTENT)]})
                buf[f] = ev["v"]
                dirty[f] = True
            elif e == "save":
                with open(os.path.join(d, FN[f]), "w") as fh:
                    fh.write(CONTENT[f][buf[f]])
                disk[f] = buf[f]
                dirty[f] = False
                adapter.notify(s, c, "textDocument/didSave", {"textDocument": {"uri": adapter.uri(d, FN[f])}})
            elif e == "close":
                adapter.notify(s, c, "textDocument/didClose", {"textDocument": {"uri": adapter.uri(d, FN[f])}})
                opened[f] = False
                dirty[f] = False
            elif e == "delete":
                os.remove(os.path.join(d, FN[f]))
                disk[f] = 0
                adapter.notify(s, c, "textDocument/didClose", {"textDocument": {"uri": adapter.uri(d, FN[f])}})
                opened[f] = False
            elif e == "create":
                with open(os.path.join(d, FN[f]), "w") as fh:
                    fh.write(CONTENT[f][ev["v"]])
                disk[f] = buf[f] = ev["v"]
                adapter.did_open(s, c, d, FN[f])
                opened[f] = True
            elif e == "query":
                battery(s, c, d)
            if e in ("delete", "create", "open"):
                dirty[f] = False
            quiescent = all((not opened[f]) or (buf[f] == disk[f] and not dirty[f]) for f in FN)
            if quiescent and (e != "query") and not AMBIGUOUS.get(world, lambda d: False)(disk):
                live = battery(s, c, d)
                fresh = fresh_battery(d)
                if live != fresh:
                    keys = sorted(k for k in set(live) | set(fresh) if live.get(k) != fresh.get(k))
                    out.append((i, keys, {k: {"long_lived": live.get(k), "fresh": fresh.get(k)} for k in keys[:3]}))
                    break
        return out
    finally:
        adapter.rmws(d)


def tags_for(hist, i, keys):
    t = {"diff:" + k.split(":")[0] for k in keys}
    evs = [h["e"] for h in hist[: i + 1]]
    t.add("last:" + evs[-1])
    if "delete" in evs and "create" in evs and evs.index("delete") < len(evs) - 1 - evs[::-1].index("create"):
        # same content re-created after delete?
        for j, h in enumerate(hist[: i + 1]):
            if h["e"] == "create":
                t.add("history:deleteThenCreate")
    if "delete" in evs:
        t.add("history:hasDelete")
    if any(h["e"] in ("edit", "save") and h["f"] in ("a", "b") for h in hist[: i + 1]):
        t.add("history:dependencyReindexed")
    return t


def main(tier, seed):
    ck = Check("C10", tier, seed)
    ck.assumptions = [
        "four worlds of three files with content variants, chosen so that other files depend on what changes: types (components, EXTENDS parent, module name, generic interface, USE), pp (a macro defined in one file and tested in another, a header next to one file and #included by another), links (a module two files define for a while, a submodule's parent, the target of a type-bound procedure), inc (entities grafted by INCLUDE)",
        "a file that appears on disk is announced by didOpen (fortls ignores workspace/didChangeWatchedFiles, so an unopened new file is invisible by construction)",
        "answers are compared after normalising list order and the workspace path; the fresh server runs on a copy of the directory",
    ]
    r = tlc.mc("Workspace", "Workspace_MC.cfg", required_actions=["Open", "Edit", "Save", "Close", "DeleteClose", "CreateOpen", "Query"], timeout=900)
    ck.add_tlc("Workspace_MC", r)
    if not r.ok:
        ck.machinery("Workspace_MC violated %s" % r.violated)
        return ck.finish()
    for dv in ("hashSkip", "keepDeleted"):
        rr = tlc.run("Workspace", "Workspace_Dev_%s.cfg" % dv, timeout=300)
        ck.add_tlc("Workspace_Dev_%s (expected counterexample)" % dv, rr)
        if rr.ok:
            ck.machinery("model self-test: deviation %s not detected" % dv)
    hists = []
    info = {}
    for cfgname in ("Workspace_Gen_%s.cfg" % tier, "Workspace_Gen2_%s.cfg" % tier):
        info = {}
        for st in tlc.dump_states("Workspace", cfgname, info=info, timeout=1800):
            h = st["hist"]
            if h and h[-1]["e"] != "query":
                hists.append(h)
        ck.add_tlc(cfgname, info["result"])
    # keep maximal histories only (a prefix is checked while its extension is replayed)
    hs = {json.dumps(h, sort_keys=True) for h in hists}
    maximal = [h for h in hists if not any(json.dumps(h2[: len(h)], sort_keys=True) == json.dumps(h, sort_keys=True) and len(h2) > len(h) for h2 in ())]
    maxlen = max(len(h) for h in hists)
    hists = [h for h in hists if len(h) >= maxlen - 1]
    nsim = 120 if tier == "quick" else 1500
    for beh in tlc.simulate("Workspace", "Workspace_Sim.cfg", num=nsim, depth=13, seed=seed + 5, workers=8, timeout=900):
        hists.append(beh[-1][1]["hist"])
    rnd = random.Random(seed)
    if tier == "quick" and len(hists) > 700:
        sim = hists[-nsim:]
        ex = hists[:-nsim]
        rnd.shuffle(ex)
        hists = ex[:580] + sim
    ck.note("histories", len(hists))
    jobs = [{"world": "types", "hist": h} for h in hists]
    # the other worlds (preprocessor state, links to modules/submodule parents/binding targets, INCLUDE grafts):
    # every history of <= 4 (5) events over two variants, sampled, plus the simulated ones restricted to variants 1/2
    info = {}
    h3 = [st["hist"] for st in tlc.dump_states("Workspace", "Workspace_Gen3_%s.cfg" % tier, info=info, timeout=1800) if st["hist"] and st["hist"][-1]["e"] != "query"]
    ck.add_tlc("Workspace_Gen3", info["result"])
    m3 = max(len(h) for h in h3)
    h3 = [h for h in h3 if len(h) >= m3 - 1]
    sim12 = [h for h in hists[-nsim:] if all(ev.get("v", 1) in (1, 2) for ev in h)]
    for w in ("pp", "links", "inc"):
        pick = list(h3)
        rnd.shuffle(pick)
        for h in pick[: (170 if tier == "quick" else 1200)] + sim12:
            jobs.append({"world": w, "hist": h})
    # preprocessor state needs longer histories (one file is edited, ANOTHER one re-parsed and saved): all histories
    # of 6 events over the two files a, b that edit both and end in a save
    info = {}
    h4 = []
    for st in tlc.dump_states("Workspace", "Workspace_Gen4_%s.cfg" % tier, info=info, timeout=1800, prefilter=lambda t: t.count("e |->") == 6):
        h = st["hist"]
        es = [(e["e"], e.get("f")) for e in h]
        if h[-1]["e"] == "save" and ("edit", "a") in es and ("edit", "b") in es:
            h4.append(h)
    ck.add_tlc("Workspace_Gen4", info["result"])
    rnd.shuffle(h4)
    for h in h4[: (150 if tier == "quick" else 10 ** 6)]:
        jobs.append({"world": "pp", "hist": h})
    ck.note("histories_by_world", {w: sum(1 for j in jobs if j["world"] == w) for w in WORLDS})
    for i, status, val in par.pmap(replay_history, jobs, item_timeout=300):
        ck.count(key=json.dumps(jobs[i], sort_keys=True))
        wtag = set() if jobs[i]["world"] == "types" else {"world:" + jobs[i]["world"]}
        if status != "done":
            ck.violation({"replay:" + status} | wtag, {"kind": "history", "world": jobs[i]["world"], "hist": jobs[i]["hist"], "detail": val})
            continue
        ck.traces += 1
        for step, keys, sample in val:
            ck.violation(tags_for(jobs[i]["hist"], step, keys) | wtag, {"kind": "history", "world": jobs[i]["world"], "hist": jobs[i]["hist"], "first_divergent_step": step, "differing_answers": keys[:40], "sample": sample})
    for h in hists[:: max(1, len(hists) // 3)][:3]:
        ck.sample(h)
    return ck.finish()


def replay(path):
    rec = json.load(open(path))
    res = replay_history(rec["hist"], rec.get("world", "types"))
    print(json.dumps(res, indent=1)[:3000])
    return 1 if res else 0
