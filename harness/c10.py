"""C10: after saving, answers depend only on the files, not on the edit history.

Workspace.tla enumerates histories of sync events (open, edit, save, close,
create+open, delete+close, query) over three files with content variants and
states the reference requirement: in every quiescent state the index equals the
one a fresh server builds from disk.  Each history is replayed against a
long-lived server; in every quiescent state of the behaviour the full query
battery of the long-lived server is compared with the battery of a fresh server
started on a copy of the directory (the observable form of idx = FreshIndex).
"""
from __future__ import annotations

import json
import os
import random
import re
import shutil

from . import adapter, par, tlc
from .common import Check

# content variants: cross-file links the index caches (type layouts, EXTENDS, USE, generic interfaces)
A = {
    1: "module ma\n  implicit none\n  type :: t\n    integer :: c1\n  contains\n    procedure :: show => show_t\n  end type t\n  interface gen\n    module procedure ga\n  end interface gen\ncontains\n  subroutine show_t(self)\n    class(t), intent(in) :: self\n  end subroutine show_t\n  subroutine ga(i)\n    integer, intent(in) :: i\n  end subroutine ga\nend module ma\n",
    2: "module ma\n  implicit none\n  type :: t\n    integer :: c2\n    real :: extra\n  end type t\n  interface gen\n    module procedure ga\n  end interface gen\ncontains\n  subroutine ga(i)\n    integer, intent(in) :: i\n  end subroutine ga\nend module ma\n",
    3: "module ma_renamed\n  implicit none\n  type :: t\n    integer :: c1\n  end type t\nend module ma_renamed\n",
}
B = {
    1: "module mb\n  use ma\n  implicit none\n  type, extends(t) :: u\n    integer :: d\n  end type u\ncontains\n  subroutine useit(x)\n    type(u), intent(inout) :: x\n    x%c1 = 1\n    x%d = 2\n  end subroutine useit\nend module mb\n",
    2: "module mb\n  use ma\n  implicit none\n  type :: u\n    integer :: d\n    integer :: e\n  end type u\ncontains\n  subroutine useit(x)\n    type(u), intent(inout) :: x\n    x%d = 2\n  end subroutine useit\n  subroutine other()\n  end subroutine other\nend module mb\n",
    3: "module mb\n  implicit none\n  integer :: standalone\nend module mb\n",
}
C = {
    1: "program pc\n  use mb\n  implicit none\n  type, extends(u) :: leaf\n    integer :: z\n  end type leaf\n  type(u) :: v\n  type(t) :: w\n  type(leaf) :: lf\n  v%d = 1\n  v%c1 = 2\n  w%c1 = 3\n  lf%c1 = 4\n  lf%z = 5\n  call gen(1)\n  call useit(v)\nend program pc\n",
    2: "program pc\n  use ma\n  implicit none\n  type(t) :: w\n  w%c2 = 3\n  w%c1 = 4\n  call gen(2)\nend program pc\n",
    3: "subroutine lonely()\n  use mb, only: useit\n  implicit none\nend subroutine lonely\n",
}
def _inline(text, old, new):
    assert old in text and "\n" not in old
    return text.replace(old, new, 1)


# variant 4: variant 1 with ONE line edited in place (sent as a single-line ranged change)
A[4] = _inline(A[1], "    integer :: c1", "    integer :: c9")
B[4] = _inline(B[1], "    integer :: d", "    integer :: d9")
C[4] = _inline(C[1], "  type(t) :: w", "  type(t) :: w9")
# variant 5: a name moves between the top level and a nested scope; a module shadows a type it used to import
A[5] = A[1].replace("end module ma\n", "end module ma\nsubroutine helper_a()\nend subroutine helper_a\n")
B[5] = "module mb\n  use ma, only: gen\n  implicit none\n  type :: t\n    integer :: own\n  end type t\n  type, extends(t) :: u\n    integer :: d\n  end type u\ncontains\n  subroutine useit(x)\n    type(u), intent(inout) :: x\n    x%own = 1\n    x%d = 2\n  end subroutine useit\nend module mb\n"
C[5] = "module wrap\n  implicit none\ncontains\n  subroutine lonely()\n    use mb, only: useit\n  end subroutine lonely\nend module wrap\n"
CONTENT = {"a": A, "b": B, "c": C}


def change_for(f, old_v, new_v):
    """LSP content change taking variant old_v to new_v: a single-line ranged edit when they differ in one line."""
    a, b = CONTENT[f][old_v].split("\n"), CONTENT[f][new_v].split("\n")
    if len(a) == len(b):
        diff = [i for i in range(len(a)) if a[i] != b[i]]
        if len(diff) == 1:
            i = diff[0]
            return {"range": {"start": {"line": i, "character": 0}, "end": {"line": i, "character": len(a[i])}}, "text": b[i]}
    return {"text": CONTENT[f][new_v]}
FN = {"a": "a.f90", "b": "b.f90", "c": "c.f90"}


def battery(s, c, d):
    """All answers of a server, normalised (workspace prefix stripped, lists sorted)."""
    out = {}

    def norm(x):
        return json.loads(json.dumps(x).replace(adapter.path_to_uri(d), "ROOT").replace(d, "ROOT"))
    files = sorted(f for f in os.listdir(d) if f.endswith(".f90"))
    ws = adapter.result_of(adapter.request(s, c, "workspace/symbol", {"query": ""}))
    out["wsym"] = sorted(json.dumps(norm(x), sort_keys=True) for x in (ws or []))
    for f in files:
        uri = adapter.uri(d, f)
        text = open(os.path.join(d, f)).read()
        ds = adapter.result_of(adapter.request(s, c, "textDocument/documentSymbol", {"textDocument": {"uri": uri}}))
        out["sym:" + f] = sorted(json.dumps(norm(x), sort_keys=True) for x in (ds or []))
        diags, exc = s.get_diagnostics(uri)
        out["diag:" + f] = sorted(json.dumps(norm(x), sort_keys=True) for x in (diags or [])) if exc is None else "EXC " + type(exc).__name__
        for ln, line in enumerate(text.split("\n")):
            for m in re.finditer(r"[A-Za-z_]\w*", line):
                pp = adapter.posparams(d, f, ln, m.start() + 1 if m.end() - m.start() > 1 else m.start())
                for meth in ("textDocument/definition", "textDocument/hover"):
                    r = adapter.result_of(adapter.request(s, c, meth, pp))
                    out["%s:%s:%d:%d" % (meth[13:], f, ln, m.start())] = json.dumps(norm(r), sort_keys=True)
            for m in re.finditer(r"%", line):
                r = adapter.result_of(adapter.request(s, c, "textDocument/completion", adapter.posparams(d, f, ln, m.start() + 1)))
                items = r.get("items", r) if isinstance(r, dict) else (r or [])
                out["comp:%s:%d:%d" % (f, ln, m.start())] = sorted(str(i.get("label")) for i in items if isinstance(i, dict))
            m = re.match(r"\s*(?:integer|real|type\(\w+\)|class\(\w+\))[^:]*::\s*(\w+)", line)
            if m:
                r = adapter.result_of(adapter.request(s, c, "textDocument/references",
                                                      adapter.posparams(d, f, ln, m.start(1) + 1, context={"includeDeclaration": True})))
                out["refs:%s:%d" % (f, ln)] = sorted(json.dumps(norm(x), sort_keys=True) for x in (r or [])) if isinstance(r, list) else json.dumps(norm(r))
    return out


def fresh_battery(d):
    d2 = d + ".fresh"
    shutil.copytree(d, d2)
    try:
        s, c = adapter.mkserver(d2)
        b = battery(s, c, d2)
        return b
    finally:
        shutil.rmtree(d2, ignore_errors=True)


def replay_history(hist):
    """Returns list of (step index, differing keys, sample) for quiescent states where long-lived != fresh."""
    d = adapter.mkws({FN[f]: CONTENT[f][1] for f in FN})
    out = []
    try:
        s, c = adapter.mkserver(d)
        disk = {f: 1 for f in FN}
        buf = dict(disk)
        opened = {f: False for f in FN}
        dirty = {f: False for f in FN}
        for i, ev in enumerate(hist):
            e, f = ev["e"], ev.get("f")
            if e == "open":
                adapter.did_open(s, c, d, FN[f])
                opened[f] = True
                buf[f] = disk[f]
            elif e == "edit":
                adapter.notify(s, c, "textDocument/didChange", {"textDocument": {"uri": adapter.uri(d, FN[f])}, "contentChanges": [change_for(f, buf[f], ev["v"])]})
                buf[f] = ev["v"]
                dirty[f] = True
            elif e == "save":
                with open(os.path.join(d, FN[f]), "w") as fh:
                    fh.write(CONTENT[f][buf[f]])
                disk[f] = buf[f]
                dirty[f] = False
                adapter.notify(s, c, "textDocument/didSave", {"textDocument": {"uri": adapter.uri(d, FN[f])}})
            elif e == "close":
                adapter.notify(s, c, "textDocument/didClose", {"textDocument": {"uri": adapter.uri(d, FN[f])}})
                opened[f] = False
                dirty[f] = False
            elif e == "delete":
                os.remove(os.path.join(d, FN[f]))
                disk[f] = 0
                adapter.notify(s, c, "textDocument/didClose", {"textDocument": {"uri": adapter.uri(d, FN[f])}})
                opened[f] = False
            elif e == "create":
                with open(os.path.join(d, FN[f]), "w") as fh:
                    fh.write(CONTENT[f][ev["v"]])
                disk[f] = buf[f] = ev["v"]
                adapter.did_open(s, c, d, FN[f])
                opened[f] = True
            elif e == "query":
                battery(s, c, d)
            if e in ("delete", "create", "open"):
                dirty[f] = False
            quiescent = all((not opened[f]) or (buf[f] == disk[f] and not dirty[f]) for f in FN)
            if quiescent and (e != "query"):
                live = battery(s, c, d)
                fresh = fresh_battery(d)
                if live != fresh:
                    keys = sorted(k for k in set(live) | set(fresh) if live.get(k) != fresh.get(k))
                    out.append((i, keys, {k: {"long_lived": live.get(k), "fresh": fresh.get(k)} for k in keys[:3]}))
                    break
        return out
    finally:
        adapter.rmws(d)


def tags_for(hist, i, keys):
    t = {"diff:" + k.split(":")[0] for k in keys}
    evs = [h["e"] for h in hist[: i + 1]]
    t.add("last:" + evs[-1])
    if "delete" in evs and "create" in evs and evs.index("delete") < len(evs) - 1 - evs[::-1].index("create"):
        # same content re-created after delete?
        for j, h in enumerate(hist[: i + 1]):
            if h["e"] == "create":
                t.add("history:deleteThenCreate")
    if "delete" in evs:
        t.add("history:hasDelete")
    if any(h["e"] in ("edit", "save") and h["f"] in ("a", "b") for h in hist[: i + 1]):
        t.add("history:dependencyReindexed")
    return t


def main(tier, seed):
    ck = Check("C10", tier, seed)
    ck.assumptions = [
        "three files with three content variants each, chosen so that other files depend on what changes (type components, EXTENDS parent, module name, generic interface, USE)",
        "a file that appears on disk is announced by didOpen (fortls ignores workspace/didChangeWatchedFiles, so an unopened new file is invisible by construction)",
        "answers are compared after normalising list order and the workspace path; the fresh server runs on a copy of the directory",
    ]
    r = tlc.mc("Workspace", "Workspace_MC.cfg", required_actions=["Open", "Edit", "Save", "Close", "DeleteClose", "CreateOpen", "Query"], timeout=900)
    ck.add_tlc("Workspace_MC", r)
    if not r.ok:
        ck.machinery("Workspace_MC violated %s" % r.violated)
        return ck.finish()
    for dv in ("hashSkip", "keepDeleted"):
        rr = tlc.run("Workspace", "Workspace_Dev_%s.cfg" % dv, timeout=300)
        ck.add_tlc("Workspace_Dev_%s (expected counterexample)" % dv, rr)
        if rr.ok:
            ck.machinery("model self-test: deviation %s not detected" % dv)
    hists = []
    info = {}
    for cfgname in ("Workspace_Gen_%s.cfg" % tier, "Workspace_Gen2_%s.cfg" % tier):
        info = {}
        for st in tlc.dump_states("Workspace", cfgname, info=info, timeout=1800):
            h = st["hist"]
            if h and h[-1]["e"] != "query":
                hists.append(h)
        ck.add_tlc(cfgname, info["result"])
    # keep maximal histories only (a prefix is checked while its extension is replayed)
    hs = {json.dumps(h, sort_keys=True) for h in hists}
    maximal = [h for h in hists if not any(json.dumps(h2[: len(h)], sort_keys=True) == json.dumps(h, sort_keys=True) and len(h2) > len(h) for h2 in ())]
    maxlen = max(len(h) for h in hists)
    hists = [h for h in hists if len(h) >= maxlen - 1]
    nsim = 120 if tier == "quick" else 1500
    for beh in tlc.simulate("Workspace", "Workspace_Sim.cfg", num=nsim, depth=13, seed=seed + 5, workers=8, timeout=900):
        hists.append(beh[-1][1]["hist"])
    rnd = random.Random(seed)
    if tier == "quick" and len(hists) > 700:
        sim = hists[-nsim:]
        ex = hists[:-nsim]
        rnd.shuffle(ex)
        hists = ex[:580] + sim
    ck.note("histories", len(hists))
    for i, status, val in par.pmap(replay_history, hists, item_timeout=300):
        ck.count(key=json.dumps(hists[i], sort_keys=True))
        if status != "done":
            ck.violation({"replay:" + status}, {"kind": "history", "hist": hists[i], "detail": val})
            continue
        ck.traces += 1
        for step, keys, sample in val:
            ck.violation(tags_for(hists[i], step, keys), {"kind": "history", "hist": hists[i], "first_divergent_step": step, "differing_answers": keys[:40], "sample": sample})
    for h in hists[:: max(1, len(hists) // 3)][:3]:
        ck.sample(h)
    return ck.finish()


def replay(path):
    rec = json.load(open(path))
    res = replay_history(rec["hist"])
    print(json.dumps(res, indent=1)[:3000])
    return 1 if res else 0
