"""Reader for TLA+ values as TLC prints them (dump files, -simulate files, PrintT).

Records -> dict, sequences/tuples -> list, sets -> frozenset-like sorted list
wrapped in TSet, functions (a :> 1 @@ b :> 2) -> dict, strings -> str,
integers -> int, TRUE/FALSE -> bool, model values -> str.
"""
from __future__ import annotations


class TSet(list):
    """A TLA+ set, kept as a list (elements may be unhashable dicts)."""

    def __repr__(self):
        return "TSet(" + list.__repr__(self) + ")"


class ParseError(Exception):
    pass


class _P:
    def __init__(self, s: str):
        self.s = s
        self.i = 0
        self.n = len(s)

    def ws(self):
        s, n = self.s, self.n
        i = self.i
        while i < n and s[i] in " \t\r\n":
            i += 1
        self.i = i

    def peek(self, k=1):
        return self.s[self.i : self.i + k]

    def expect(self, tok):
        self.ws()
        if not self.s.startswith(tok, self.i):
            raise ParseError(
                "expected %r at %d: %r" % (tok, self.i, self.s[self.i : self.i + 40])
            )
        self.i += len(tok)

    def value(self):
        self.ws()
        s = self.s
        c = s[self.i] if self.i < self.n else ""
        if c == "<" and self.peek(2) == "<<":
            self.i += 2
            out = []
            self.ws()
            if self.peek(2) == ">>":
                self.i += 2
                return out
            while True:
                out.append(self.value())
                self.ws()
                if self.peek(2) == ">>":
                    self.i += 2
                    return out
                self.expect(",")
        if c == "{":
            self.i += 1
            out = TSet()
            self.ws()
            if self.peek() == "}":
                self.i += 1
                return out
            while True:
                out.append(self.value())
                self.ws()
                if self.peek() == "}":
                    self.i += 1
                    return out
                self.expect(",")
        if c == "[":
            self.i += 1
            out = {}
            self.ws()
            if self.peek() == "]":
                self.i += 1
                return out
            while True:
                self.ws()
                j = self.i
                while j < self.n and (s[j].isalnum() or s[j] == "_"):
                    j += 1
                key = s[self.i : j]
                self.i = j
                self.expect("|->")
                out[key] = self.value()
                self.ws()
                if self.peek() == "]":
                    self.i += 1
                    return out
                self.expect(",")
        if c == "(":
            # function literal: (k :> v @@ k :> v)
            self.i += 1
            out = {}
            while True:
                k = self.value()
                self.expect(":>")
                v = self.value()
                out[_key(k)] = v
                self.ws()
                if self.peek() == ")":
                    self.i += 1
                    return out
                self.expect("@@")
        if c == '"':
            j = self.i + 1
            buf = []
            while s[j] != '"':
                if s[j] == "\\":
                    nxt = s[j + 1]
                    buf.append({"n": "\n", "t": "\t", "r": "\r", "f": "\f"}.get(nxt, nxt))
                    j += 2
                else:
                    buf.append(s[j])
                    j += 1
            self.i = j + 1
            return "".join(buf)
        if c == "-" or c.isdigit():
            j = self.i + 1
            while j < self.n and s[j].isdigit():
                j += 1
            v = int(s[self.i : j])
            self.i = j
            # interval a..b
            if s.startswith("..", self.i):
                self.i += 2
                hi = self.value()
                return TSet(range(v, hi + 1))
            return v
        j = self.i
        while j < self.n and (s[j].isalnum() or s[j] == "_"):
            j += 1
        if j == self.i:
            raise ParseError("bad value at %d: %r" % (self.i, s[self.i : self.i + 40]))
        w = s[self.i : j]
        self.i = j
        if w == "TRUE":
            return True
        if w == "FALSE":
            return False
        return w


def _key(k):
    if isinstance(k, list):
        return tuple(_key(x) for x in k)
    return k


def parse_value(s: str):
    p = _P(s)
    v = p.value()
    p.ws()
    if p.i != p.n:
        raise ParseError("trailing text: %r" % s[p.i : p.i + 40])
    return v


def parse_state(text: str) -> dict:
    """Parse a conjunction '/\\ v1 = val /\\ v2 = val' (one TLC state)."""
    p = _P(text)
    out = {}
    while True:
        p.ws()
        if p.i >= p.n:
            return out
        if p.peek(2) == "/\\":
            p.i += 2
        p.ws()
        j = p.i
        s = p.s
        while j < p.n and (s[j].isalnum() or s[j] == "_"):
            j += 1
        name = s[p.i : j]
        if not name:
            raise ParseError("bad state text at %d: %r" % (p.i, s[p.i : p.i + 40]))
        p.i = j
        p.expect("=")
        out[name] = p.value()


def to_py(v):
    """Deep-convert to plain JSON-able Python (TSet -> list)."""
    if isinstance(v, dict):
        return {str(k): to_py(x) for k, x in v.items()}
    if isinstance(v, (list, tuple)):
        return [to_py(x) for x in v]
    return v


def seq(v):
    """TLC prints a function with domain 1..n as a sequence, but an empty
    function/sequence as << >>; a record with integer keys may appear as dict."""
    if isinstance(v, dict):
        return [v[k] for k in sorted(v)]
    return list(v)
