"""C20: cyclic and self-referential program structure never causes unbounded recursion."""
from __future__ import annotations

import json
import os
import subprocess
import sys

from . import adapter, tlc
from .common import Check, VERIF


IFACE = "  abstract interface\n    subroutine iface()\n    end subroutine iface\n  end interface\n"


def render(kind, L, T, entry=True, fan=1):
    """Workspace files for a shape: T tail nodes leading into a cycle of length L (nodes 1..T+L)."""
    n = T + L
    nxt = lambda i: i + 1 if i < n else T + 1
    f = {}
    if kind == "use":
        for i in range(1, n + 1):
            f["m%d.f90" % i] = "module m%d\n  use m%d\n  implicit none\n  integer :: v%d\nend module m%d\n" % (i, nxt(i), i, i)
        f["main.f90"] = "program main\n  use m1\n  implicit none\n  v1 = 1\n  print *, v%d\nend program main\n" % n
        if not entry:
            del f["main.f90"]
    elif kind == "usemixed":
        # a USE cycle that mixes plain and ONLY edges, entered from a scope outside the cycle
        for i in range(1, n + 1):
            only = ", only: v%d" % nxt(i) if i % 2 == 0 or n == 1 else ""
            f["m%d.f90" % i] = "module m%d\n  use m%d%s\n  implicit none\n  integer :: v%d\nend module m%d\n" % (i, nxt(i), only, i, i)
        f["main.f90"] = "program main\n  use m1\n  use m%d, only: v%d\n  implicit none\n  v1 = 1\n  print *, v%d\nend program main\n" % (n, n, n)
        if not entry:
            del f["main.f90"]
    elif kind == "extends":
        body = "module tm\n  implicit none\n"
        for i in range(1, n + 1):
            body += "  type, extends(t%d) :: t%d\n    integer :: c%d\n  contains\n    procedure :: show => show%d\n  end type t%d\n" % (nxt(i), i, i, i, i)
        body += "contains\n"
        for i in range(1, n + 1):
            body += "  subroutine show%d(self)\n    class(t%d) :: self\n  end subroutine show%d\n" % (i, i, i)
        body += "end module tm\n"
        f["tm.f90"] = body
        f["main.f90"] = "program main\n  use tm\n  implicit none\n  type(t1) :: v\n  v%%c1 = 1\n  v%%c%d = 2\n  call v%%show()\nend program main\n" % n
    elif kind == "submodule":
        f["par.f90"] = "module par\n  implicit none\n  interface\n    module subroutine w()\n    end subroutine w\n  end interface\nend module par\n"
        for i in range(1, n + 1):
            f["s%d.f90" % i] = "submodule (s%d) s%d\n  implicit none\n  integer :: q%d\ncontains\n  module procedure w\n    q%d = 1\n  end procedure w\nend submodule s%d\n" % (nxt(i), i, i, i, i)
    elif kind == "pointer":
        body = "program main\n  implicit none\n"
        for i in range(1, n + 1):
            body += "  integer, pointer :: p%d => p%d\n" % (i, nxt(i))
        body += "  p1 = 1\n  print *, p%d\nend program main\n" % n
        f["main.f90"] = body
    elif kind == "associate":
        pairs = ", ".join("a%d => a%d" % (i, nxt(i)) for i in range(1, n + 1))
        f["main.f90"] = "program main\n  implicit none\n  integer :: x\n  associate (%s)\n    x = a1\n    print *, a%d\n  end associate\nend program main\n" % (pairs, n)
    elif kind == "binding":
        body = "module bm\n  implicit none\n  type :: t\n  contains\n"
        for i in range(1, n + 1):
            body += "    procedure :: b%d => b%d\n" % (i, nxt(i))
        body += "  end type t\nend module bm\n"
        f["bm.f90"] = body
        f["main.f90"] = "program main\n  use bm\n  implicit none\n  type(t) :: v\n  call v%b1()\nend program main\n"
    elif kind == "include":
        # the cyclic files sort before and after the entry point (a.., z..): the order of indexing matters
        for i in range(1, n + 1):
            f["i%d.f90" % i] = "integer :: w%d\n" % i + "include 'i%d.f90'\n" % nxt(i) * fan
        if entry:
            f["main.f90" if T == 0 else "a_main.f90"] = "program main\n  implicit none\n  include 'i1.f90'\n  w1 = 1\nend program main\n"
    elif kind == "ppinclude":
        # without an outside entry point the cycle runs through the source file itself: the last header names main.F90
        for i in range(1, n + 1):
            target = "main.F90" if (not entry and i == n) else "h%d.h" % nxt(i)
            f["h%d.h" % i] = "#define W%d %d\n" % (i, i) + '#include "%s"\n' % target * fan
        f["main.F90"] = '#include "h1.h"\n' * (1 if entry else fan) + "program main\n  implicit none\n  integer :: w\n  w = W1\nend program main\n"
    elif kind in ("procptr", "procptriface", "mixedptr"):
        body = "module pm\n  implicit none\n" + IFACE
        for i in range(1, n + 1):
            if kind == "procptr":
                body += "  procedure(iface), pointer :: p%d => p%d\n" % (i, nxt(i))
            elif kind == "procptriface":
                body += "  procedure(p%d), pointer :: p%d\n" % (nxt(i), i)
            elif i % 2:
                body += "  integer, pointer :: p%d => p%d\n" % (i, nxt(i))
            else:
                body += "  procedure(iface), pointer :: p%d => p%d\n" % (i, nxt(i))
        body += "end module pm\n"
        f["pm.f90"] = body
        f["main.f90"] = "program main\n  use pm\n  implicit none\n  call p1()\n  call p%d()\nend program main\n" % n
    return f


def run_shape(job):
    kind, L, T, entry, fan, limit = job
    d = adapter.mkws(render(kind, L, T, entry, fan))
    try:
        # own session + output to a file: a spinning pool worker of the server must not keep a pipe open or survive
        outf = os.path.join(d, "_child.out")
        with open(outf, "w") as fh:
            p = subprocess.Popen([sys.executable, os.path.join(VERIF, "harness", "c20_child.py"), d, str(limit)], stdout=fh, stderr=subprocess.DEVNULL,
                                 cwd=VERIF, start_new_session=True)
            try:
                p.wait(timeout=limit + 10)
            except subprocess.TimeoutExpired:
                pass
            try:
                os.killpg(p.pid, 9)
            except OSError:
                pass
            p.wait()
        so = open(outf).read()
        last = None
        for line in (so or "").splitlines():
            if line.startswith("RESULT"):
                last = json.loads(line[6:])
        return last or {"phase": "never-started", "errors": []}
    finally:
        adapter.rmws(d)


def main(tier, seed):
    ck = Check("C20", tier, seed)
    ck.assumptions = [
        "cycle catalogue: USE, EXTENDS (with overriding bindings), submodule ancestry, pointer =>, ASSOCIATE, procedure binding =>, procedure pointers (=> and interface, mixed with data pointers), INCLUDE and #include (one or two include lines per file), with and without a main program outside the cycle; cycle lengths 1..4 (quick 1..3), tails 0..1; every positional request at every identifier plus diagnostics",
        "each workspace runs in its own child process under a hard wall-clock limit (two shapes never return on the pinned commit and the server swallows in-process alarms)",
        "bounded time = the child finishes within the limit (60 s for <= 40 lines in total; median < 1 s)",
    ]
    r = tlc.mc("Cycles", "Cycles_MC.cfg", required_actions=["Step"], timeout=300)
    ck.add_tlc("Cycles_MC", r)
    if not r.ok:
        ck.machinery("Cycles_MC violated %s" % r.violated)
        return ck.finish()
    rr = tlc.run("Cycles", "Cycles_Dev.cfg", timeout=300)
    ck.add_tlc("Cycles_Dev (expected counterexample)", rr)
    if rr.ok:
        ck.machinery("model self-test: walker without visited set not refuted")
    info = {}
    shapes = set()
    maxl = 3 if tier == "quick" else 4
    for st in tlc.dump_states("Cycles", "Cycles_MC.cfg", info=info):
        if st["steps"] == 0 and st["L"] <= maxl and st["T"] <= 1:
            shapes.add((st["kind"], st["L"], st["T"], st["entry"], st["fan"]))
    ck.add_tlc("Cycles_Gen", info["result"])
    jobs = [sh + (30,) for sh in sorted(shapes)]
    from concurrent.futures import ThreadPoolExecutor
    with ThreadPoolExecutor(max_workers=12) as ex:
        results = list(ex.map(run_shape, jobs))
    for (kind, L, T, entry, fan, _lim), res in zip(jobs, results):
        ck.count(key=(kind, L, T, entry, fan))
        shape = {"cycle:%s" % kind, "len:%d" % L}
        if not entry:
            shape.add("entry:none")
        if fan > 1:
            shape.add("fan:%d" % fan)
        files = render(kind, L, T, entry, fan)
        if res["phase"] != "done":
            where = res.get("current", ["", "", "", res["phase"]])
            ck.violation(shape | {"hang:" + (res["phase"] if res["phase"] != "queries" else "query:" + str(where[3]).split("/")[-1])},
                         {"kind": "shape", "shape": [kind, L, T, entry, fan], "files": files, "result": res})
            continue
        errs = res["errors"]
        if errs:
            kinds = set()
            for e in errs:
                msg = e[-1]
                cls = "RecursionError" if "recursion" in msg.lower() else msg.split(":")[0][:40]
                kinds.add((e[0].split("/")[-1], cls))
            for meth, cls in sorted(kinds):
                ck.violation(shape | {"method:" + meth, "error:" + cls}, {"kind": "shape", "shape": [kind, L, T, entry, fan], "files": files, "errors": errs[:10]})
        else:
            ck.traces += 1
    ck.note("shapes", len(jobs))
    ck.sample({"shape": list(jobs[0][:5]), "files": render(*jobs[0][:5])})
    return ck.finish()


def replay(path):
    rec = json.load(open(path))
    sh = list(rec["shape"]) + [True, 1][len(rec["shape"]) - 3:]
    res = run_shape(tuple(sh) + (30,))
    print(json.dumps(res)[:2000])
    return 1 if (res["phase"] != "done" or res["errors"]) else 0
