"""C09: every positional request is total; every returned range lies in its document.

A sweep driver visits every (line, character) of every document (sample sources,
mutations of them, a generated file naming every bundled intrinsic) with every
position-based method through the real LangServer.handle.  Each exchange becomes
a [req, resp, end] trace carrying the returned ranges with the geometry of the
lines they address; TLC validates the traces against LspServerTrace.tla in
strict mode (class "known": the response must be a result, every range must
satisfy RangeOk).  Identical (method, tag, ranges+geometry) signatures are
de-duplicated before TLC sees them; raw request counts are reported separately.
"""
from __future__ import annotations

import json
import os
import random
import re

from . import adapter, par, session, tlc
from .common import Check, REPO
from .c01 import strip

METHODS = ["textDocument/hover", "textDocument/definition", "textDocument/implementation",
           "textDocument/references", "textDocument/documentHighlight", "textDocument/rename",
           "textDocument/signatureHelp", "textDocument/completion", "textDocument/codeAction"]
SRC = os.path.join(REPO, "test", "test_source")


def norm_msg(m):
    m = re.sub(r"0x[0-9a-f]+", "0x", m or "")
    m = re.sub(r"\d+", "N", m)
    return m[:80]


def source_files():
    out = []
    for root, _d, files in sorted(os.walk(SRC)):
        for fn in sorted(files):
            if re.search(r"\.(f|for|f77|f90|f95|f03|f08|fpp)$", fn, re.I):
                out.append(os.path.relpath(os.path.join(root, fn), SRC))
    return out


_SRV = {}


def get_server(root, args=""):
    key = (root, args)
    if key not in _SRV:
        _SRV.clear()
        _SRV[key] = adapter.mkserver(root, args + " --enable_code_actions")
    return _SRV[key]


def ranges_of(s, uri, result, cache):
    found = []
    session.collect_ranges(result, uri, found)
    rs = []
    for u, r in found:
        lines = session._lines_of(s, adapter.path_from_uri(u), cache) if isinstance(u, str) else None
        rs.append(session.geom(lines, r))
    return rs


def sweep_one(s, c, uri, cache, sigs, job, m, p):
    del c.out[:]
    s.handle({"jsonrpc": "2.0", "id": 1, "method": m, "params": p})
    ev = None
    for o in c.out:
        if o["t"] == "resp":
            ok = True
            try:
                json.dumps(o["result"])
            except (TypeError, ValueError):
                ok = False
            ev = {"k": "resp", "id": "i:1", "tag": "result", "json": ok, "ranges": ranges_of(s, uri, o["result"], cache)}
        elif o["t"] == "err":
            tag = {-32601: "MethodNotFound", -32603: "InternalError"}.get(o["code"], "code%s" % o["code"])
            ev = {"k": "resp", "id": "i:1", "tag": tag, "json": True, "ranges": [], "message": norm_msg(o["message"])}
    if ev is None:
        ev = {"k": "noresp"}
    key = (m, ev.get("tag"), ev.get("message", ""), json.dumps(ev.get("ranges")))
    if key not in sigs:
        req = {"file": job["file"], "method": m, "params": p, "mutated": job.get("text") is not None}
        try:
            fo = s.workspace.get(adapter.path_from_uri(uri))
            ltxt = fo.contents_split[p["position"]["line"]]
            if re.match(r"\s*include\s*['\"]", ltxt, re.I):
                req["on_include_statement"] = True
        except (KeyError, IndexError, AttributeError, TypeError):
            pass
        sigs[key] = {"ev": ev, "req": req, "n": 0}
    sigs[key]["n"] += 1
    return 1


def sweep(job):
    """job = dict(root, file, text (or None = on disk), colstep, methods, lines(optional subset))"""
    root = job["root"]
    s, c = get_server(root)
    path = os.path.join(root, job["file"])
    uri = adapter.path_to_uri(path)
    adapter.notify(s, c, "textDocument/didOpen", {"textDocument": {"uri": uri}})
    fo = s.workspace.get(path)
    if fo is None:
        return {"sigs": {}, "requests": 0, "diag": [], "file": job["file"]}
    cache = {}
    sigs = {}
    nreq = 0
    # diagnostics published for this document go through the same invariant
    # (geometry taken now, while the buffer still is what was diagnosed)
    diag = []
    for e in c.out:
        if e["t"] == "note" and e["method"] == "textDocument/publishDiagnostics" and e["params"].get("uri") == uri:
            diag = ranges_of(s, uri, e["params"], cache)
        if e["t"] == "err":
            sigs[("notification", "spuriousResponse", "")] = {"ev": {"k": "resp", "id": "i:-1", "tag": "InternalError", "json": True, "ranges": []},
                                                              "req": {"method": "(sync notification)"}, "n": 1}
    del c.out[:]
    if job.get("text") is not None:
        # mutated content: replace the whole buffer of the opened file
        adapter.notify(s, c, "textDocument/didChange", {"textDocument": {"uri": uri}, "contentChanges": [{"text": job["text"]}]})
    cache = {}
    lines = list(fo.contents_split)
    want_lines = job.get("lines")
    for ln in (want_lines if want_lines is not None else range(len(lines) + 1)):
        L = lines[ln] if ln < len(lines) else ""
        cols = list(range(0, len(L) + 1, job.get("colstep", 1))) + [len(L) + 1]
        for ch in cols:
            for m in job["methods"]:
                p = {"textDocument": {"uri": uri}, "position": {"line": ln, "character": ch}}
                if m == "textDocument/rename":
                    p["newName"] = "zz_new"
                elif m == "textDocument/references":
                    p["context"] = {"includeDeclaration": True}
                elif m == "textDocument/codeAction":
                    if ch != 0:
                        continue
                    p = {"textDocument": {"uri": uri}, "range": {"start": {"line": ln, "character": 0}, "end": {"line": ln, "character": len(L)}},
                         "context": {"diagnostics": []}}
                variants = [p]
                if m == "textDocument/references":
                    # ReferenceContext: declaration excluded, and the context left out altogether
                    variants = [p, dict(p, context={"includeDeclaration": False}), {k: v for k, v in p.items() if k != "context"}]
                for p in variants:
                    nreq += sweep_one(s, c, uri, cache, sigs, job, m, p)
    # histories: query, an in-line edit that needs no re-parse, query again - ranges must address the CURRENT text
    if job.get("edits"):
        rnd = random.Random(len(lines))
        cand = [i for i, L in enumerate(lines) if L.startswith("  ") and re.search(r"[A-Za-z_]\w*\s*$", L) and "!" not in L and "&" not in L]
        rnd.shuffle(cand)
        for ln in cand[: job["edits"]]:
            L = fo.contents_split[ln]
            col = len(L.rstrip()) - 1
            for m in ("textDocument/references", "textDocument/documentHighlight", "textDocument/rename"):
                for phase in (0, 1):
                    if phase == 1 and m == "textDocument/references":
                        nlead = len(L) - len(L.lstrip())
                        adapter.notify(s, c, "textDocument/didChange", {"textDocument": {"uri": uri}, "contentChanges": [
                            {"range": {"start": {"line": ln, "character": 0}, "end": {"line": ln, "character": nlead}}, "text": ""}]})
                        L = fo.contents_split[ln]
                        col = len(L.rstrip()) - 1
                    p = {"textDocument": {"uri": uri}, "position": {"line": ln, "character": max(col, 0)}, "newName": "zz_new",
                         "context": {"includeDeclaration": True}}
                    del c.out[:]
                    s.handle({"jsonrpc": "2.0", "id": 1, "method": m, "params": p})
                    nreq += 1
                    for o in c.out:
                        if o["t"] == "resp":
                            cache.clear()
                            ev = {"k": "resp", "id": "i:1", "tag": "result", "json": True, "ranges": ranges_of(s, uri, o["result"], cache)}
                        elif o["t"] == "err":
                            ev = {"k": "resp", "id": "i:1", "tag": "InternalError", "json": True, "ranges": [], "message": norm_msg(o["message"])}
                        else:
                            continue
                        key = (m + "@afterEdit", ev.get("tag"), ev.get("message", ""), json.dumps(ev.get("ranges")))
                        if key not in sigs:
                            sigs[key] = {"ev": ev, "req": {"file": job["file"], "method": m, "params": p, "history": "query, delete leading blanks of the line, query"}, "n": 0}
                        sigs[key]["n"] += 1
    adapter.notify(s, c, "textDocument/didClose", {"textDocument": {"uri": uri}})
    return {"sigs": {json.dumps(k): v for k, v in sigs.items()}, "requests": nreq, "diag": diag, "file": job["file"]}


def mutate(text, rnd):
    lines = text.split("\n")
    k = rnd.randrange(4)
    if k == 0 and len(lines) > 3:  # truncate mid-statement
        i = rnd.randrange(1, len(lines))
        return "\n".join(lines[:i]) + "\n" + lines[i][: rnd.randrange(0, max(1, len(lines[i])))]
    if k == 1 and len(lines) > 3:  # delete a line
        i = rnd.randrange(len(lines))
        return "\n".join(lines[:i] + lines[i + 1:])
    if k == 2 and text:  # one-character replacement
        i = rnd.randrange(len(text))
        return text[:i] + rnd.choice("'\"()&!;#%,:= ") + text[i + 1:]
    i = rnd.randrange(len(lines))
    return "\n".join(lines[:i] + [lines[i]] + lines[i:])  # duplicate a line


def intrinsic_file():
    names = []
    d = os.path.join(REPO, "fortls", "parsers", "internal")
    names += list(json.load(open(os.path.join(d, "intrinsic.procedures.json"))))
    kw = json.load(open(os.path.join(d, "keywords.json")))
    for v in kw.values():
        names += list(v) if isinstance(v, (list, dict)) else []
    st = json.load(open(os.path.join(d, "statements.json")))
    for v in (st.values() if isinstance(st, dict) else []):
        names += list(v) if isinstance(v, (list, dict)) else []
    names = [n for n in dict.fromkeys(names) if re.fullmatch(r"[A-Za-z_][A-Za-z0-9_]*", n)]
    body = ["program intr", "  implicit none", "  real :: x"]
    for n in names:
        body.append("  x = %s(" % n)
    body.append("end program intr")
    return "\n".join(body) + "\n", len(names)


def main(tier, seed):
    ck = Check("C09", tier, seed)
    rnd = random.Random(seed)
    ck.assumptions = [
        "requests are driven through LangServer.handle in process; framing is C16's business",
        "identical (method, tag, ranges+line geometry) outcomes are de-duplicated before TLC validates them; the raw request count is reported as 'requests'",
        "geometry (line count, lengths of addressed lines) is read from the server's own copy of the target document, or from disk for unopened files",
    ]
    r = tlc.mc("LspServer", "LspServer_MC.cfg", required_actions=["Request", "Notification"], timeout=1200)
    ck.add_tlc("LspServer_MC", r)
    if not r.ok:
        ck.machinery("LspServer_MC violated %s" % r.violated)
        return ck.finish()
    files = source_files()
    rnd.shuffle(files)
    nfiles = 45 if tier == "quick" else len(files)
    colstep = 1 if tier == "quick" else 1
    jobs = [{"root": SRC, "file": f, "colstep": colstep, "methods": METHODS} for f in files[:nfiles]]
    jobs += [{"root": SRC, "file": f, "colstep": 1000, "methods": [], "lines": [], "edits": 4 if tier == "quick" else 12} for f in files[:nfiles]]
    nmut = 30 if tier == "quick" else 120
    for f in files[:nmut]:
        try:
            t = open(os.path.join(SRC, f), encoding="utf-8", errors="replace").read()
        except OSError:
            continue
        if len(t) > 6000:
            continue
        jobs.append({"root": SRC, "file": f, "text": mutate(t, rnd), "colstep": 3 if tier == "quick" else 1, "methods": METHODS})
    # every bundled intrinsic / keyword as the word under the cursor
    itext, nintr = intrinsic_file()
    gen = {"intr.f90": itext}
    pad = " " * 60
    gen["cont1.f90"] = "program p\n  integer :: a\n  integer :: b, &\n" + pad + "a\nend program p\n"
    gen["cont2.f90"] = "module m\n  integer :: q\ncontains\n  subroutine s()\n    integer :: w, &\n" + pad + "& q\n  end subroutine s\nend module m\n"
    gen["cont3.f90"] = "subroutine t(x)\n  implicit none\n  integer :: x\n  integer, intent(in) :: y1, &\n" + pad + pad + "y2\nend subroutine t\n"
    gen["cont4.f90"] = "program u\n  use, &\n" + pad + "nomodule_xyz\n  type(nosuchtype) :: &\n" + pad + "v\nend program u\n"
    # every bundled intrinsic module and each of its members, USEd and named
    mods = json.load(open(os.path.join(REPO, "fortls", "parsers", "internal", "intrinsic.modules.json")))
    body = ["program imods"]
    for mn in mods:
        body.append("  use %s" % mn)
    body += ["  use, intrinsic :: iso_c_binding, only: c_int, c_ptr", "  implicit none", "  integer(int32) :: k", "  type(c_ptr) :: cp"]
    for mn, mv in mods.items():
        for ch in (mv.get("children") or [])[: (6 if tier == "quick" else 10 ** 6)]:
            nm = ch.get("name") if isinstance(ch, dict) else None
            if nm and re.fullmatch(r"[A-Za-z_]\w*", nm):
                body.append("  k = %s" % nm)
    body.append("end program imods")
    gen["imods.f90"] = "\n".join(body) + "\n"
    # preprocessed sources: macros that expand to much longer (and shorter) text in front of diagnosed and queried names
    gen["pp1.F90"] = ("#define DTYPE real(kind=selected_real_kind(15, 307))\n#define SHORT i\n#define LONGCALL(a) call very_long_subroutine_name_for_padding_purposes(a, a, a)\n"
                      "module ppm\n  implicit none\n  DTYPE :: x\n  DTYPE :: x\n  DTYPE, parameter :: SHORT = 1, SHORT = 2\ncontains\n"
                      "  subroutine s(a, b)\n    use nomodule_abc\n    DTYPE, intent(in) :: a, nosuch_arg\n    DTYPE :: x, a\n    LONGCALL(a); x = a\n  end subroutine s\n"
                      "  DTYPE function f(q)\n    DTYPE :: q, q\n    f = q\n  end function f\nend module ppm\n"
                      "program ppp\n  use ppm; use nomodule_xyz\n  implicit none\n  DTYPE :: y; DTYPE :: y\n  LONGCALL(y); y = f(y)\n  DTYPE :: late_decl\nend program ppp\n")
    # documentation comments with braces / format-like text reach the hover of procedures, generic interfaces, variables
    gen["docbrace.f90"] = ("module dbm\n  implicit none\n  !> the set {(x,y) : x > 0}, {} and {0}, and an open { brace\n  integer :: dvar !< trailing {doc}\n"
                           "  interface area\n    module procedure area_sq\n  end interface area\ncontains\n  !> Computes \\f$ \\sqrt{\\sum x_i^2} \\f$ for {x_i}\n"
                           "  function area_sq(x) result(a)\n    real, intent(in) :: x !< side {len}\n    real :: a\n    a = x * x\n  end function area_sq\n"
                           "  subroutine user()\n    real :: y\n    y = area(2.0)\n    y = area_sq(2.0) + dvar\n  end subroutine user\nend module dbm\n")
    # INCLUDE: the included file is longer than the including one and both carry diagnosable declarations
    gen["incmain.f90"] = ("module incm\n  implicit none\n  integer :: ntot\ncontains\n  subroutine step()\n    use nomodule_inc\n    include 'incdecl.f90'\n    ntot = ndup\n  end subroutine step\nend module incm\n")
    gen["incdecl.f90"] = "! c1\n! c2\n! c3\n! c4\n! c5\n! c6\n! c7\n! c8\n! c9\n! c10\ninteger :: ntot\ninteger :: ndup\ninteger :: ndup\n"
    gen["incone.f90"] = "program incone\n  implicit none\n\n\n\n\n\n\n  include 'incshort.f90'\n  kshort = 1\nend program incone\n"
    gen["incshort.f90"] = "integer :: kshort\n"
    # a construct left open in front of another program unit; declarations outside any program unit
    gen["openiface.f90"] = ("module oa\n  interface\n    subroutine foo(x)\n      real :: x\n    end subroutine foo\nend module oa\nmodule ob\n  integer :: k\ncontains\n  subroutine bar()\n    k = 1\n  end subroutine bar\nend module ob\n")
    gen["outside.f90"] = "module om\nend module om\ninteger, p\nreal, dim\ntype(\ncall \nuse \n"
    gen["outside2.f90"] = "real, dim"
    d = adapter.mkws(gen)
    try:
        for g in ("docbrace.f90", "incmain.f90", "incdecl.f90", "incone.f90", "incshort.f90", "openiface.f90", "outside.f90", "outside2.f90"):
            jobs.append({"root": d, "file": g, "colstep": 1, "methods": METHODS})
        jobs.append({"root": d, "file": "intr.f90", "colstep": 4 if tier == "quick" else 1, "methods": METHODS})
        jobs.append({"root": d, "file": "imods.f90", "colstep": 2 if tier == "quick" else 1, "methods": METHODS})
        jobs.append({"root": d, "file": "pp1.F90", "colstep": 1, "methods": METHODS})
        for g in gen:
            if g.startswith("cont"):
                jobs.append({"root": d, "file": g, "colstep": 1, "methods": METHODS})
        results = []
        for i, status, val in par.pmap(sweep, jobs, item_timeout=900 if tier == "quick" else 3600):
            if status == "done":
                results.append(val)
            else:
                ck.violation({"sweep:" + status, "file:" + jobs[i]["file"]}, {"kind": "sweep", "status": status, "detail": val, "job": {k: v for k, v in jobs[i].items() if k != "text"}})
    finally:
        adapter.rmws(d)
    ck.note("intrinsic_names_swept", nintr)
    # merge signatures over all files
    merged = {}
    nreq = 0
    diag_traces = []
    for res in results:
        nreq += res["requests"]
        for k, v in res["sigs"].items():
            if k not in merged:
                merged[k] = v
            else:
                merged[k]["n"] += v["n"]
        if res["diag"]:
            diag_traces.append({"events": [{"k": "note", "id": "none", "cls": "sync"}, {"k": "nout", "json": True, "ranges": res["diag"]}, {"k": "end", "unread": 0}],
                                "req": {"file": res["file"], "method": "textDocument/publishDiagnostics"}})
    keys = sorted(merged)
    traces = []
    for k in keys:
        v = merged[k]
        ev = v["ev"]
        evs = [{"k": "req", "id": "i:1", "cls": "known"}]
        if ev["k"] == "resp":
            evs.append(ev)
        evs.append({"k": "end", "unread": 0})
        traces.append({"events": evs, "req": v["req"], "n": v["n"]})
    traces += diag_traces
    ck.note("requests", nreq)
    ck.note("distinct_outcome_signatures", len(keys))
    ck.evaluations += nreq
    bad = []
    batch = 3000
    for off in range(0, len(traces), batch):
        chunk = traces[off:off + batch]
        reached, rr = tlc.validate_traces("LspServerTrace", "LspServerTrace.cfg",
                                          {"strict": True, "traces": [strip(t["events"]) for t in chunk]}, timeout=1800)
        ck.add_tlc("LspServerTrace(strict)", rr)
        for i, t in enumerate(chunk, 1):
            if reached.get(i, 0) == len(t["events"]) + 1:
                ck.traces += 1
                ck.distinct_extra += 1
            else:
                bad.append((t, reached.get(i, 0)))
    for t, got in bad:
        ev = t["events"][got - 1] if 1 <= got <= len(t["events"]) else {}
        tags = {"method:" + str(t["req"].get("method"))}
        if ev.get("k") == "resp" and ev.get("tag") != "result":
            tags |= {"tag:" + ev.get("tag", "?"), "msg:" + ev.get("message", "")}
        elif ev.get("k") in ("resp", "nout"):
            tags.add("range:outsideDocument" if ev.get("json", True) else "payload:notJson")
        elif ev.get("k") == "end":
            tags.add("noResponse")
        if t["req"].get("mutated"):
            tags.add("doc:mutated")
        if t["req"].get("on_include_statement"):
            tags.add("cursor:includeStatement")
        ck.violation(tags, {"kind": "exchange", "request": t["req"], "events": t["events"], "occurrences": t.get("n", 1)})
    for t in traces[:: max(1, len(traces) // 4)][:4]:
        ck.sample({"request": t["req"], "events": t["events"]})
    # binding self-test
    good = next((t for t in traces if any(e.get("ranges") for e in t["events"])), None)
    if good:
        import copy
        t2 = copy.deepcopy(good)
        for e in t2["events"]:
            if e.get("ranges"):
                e["ranges"][0][3] = e["ranges"][0][6] + 1  # end character one past the line
                e["ranges"][0][1] = 0
        reached, _ = tlc.validate_traces("LspServerTrace", "LspServerTrace.cfg", {"strict": True, "traces": [strip(t2["events"])]})
        if reached.get(1, 0) == len(t2["events"]) + 1:
            ck.machinery("binding self-test: out-of-line range accepted")
        ck.note("binding_selftest", "range ending one past its line rejected at event %s" % reached.get(1))
    return ck.finish()


def replay(path):
    rec = json.load(open(path))
    rq = rec["request"]
    if "params" not in rq:
        print(json.dumps(rec, indent=1))
        return 1
    s, c = get_server(SRC if not rq["file"].startswith("intr") else os.path.dirname(adapter.path_from_uri(rq["params"]["textDocument"]["uri"])))
    adapter.notify(s, c, "textDocument/didOpen", {"textDocument": rq["params"]["textDocument"]})
    del c.out[:]
    s.handle({"jsonrpc": "2.0", "id": 1, "method": rq["method"], "params": rq["params"]})
    print(c.out)
    return 1 if any(o["t"] == "err" for o in c.out) else 0
