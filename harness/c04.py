"""C04: outline and workspace symbols mirror the program's block structure."""
from __future__ import annotations

import json
import os
import random

from . import adapter, fscopes, par, tlc
from .common import Check


def variant_lines(lines, rnd):
    """Seeded spacing variants of END statements and keyword case (C04: 'arbitrary spacing')."""
    out = []
    for l in lines:
        s = l.strip()
        ind = l[: len(l) - len(l.lstrip())]
        if s.startswith("end ") and rnd.random() < 0.5:
            parts = s.split()
            k = rnd.randrange(3)
            if k == 0:
                s = "end" + parts[1] + (" " + " ".join(parts[2:]) if len(parts) > 2 else "")
            elif k == 1:
                s = "END  " + parts[1].upper() + ("   " + " ".join(parts[2:]) if len(parts) > 2 else "")
            else:
                s = "End " + parts[1].capitalize() + (" " + " ".join(parts[2:]) if len(parts) > 2 else "")
        out.append(ind + s)
    return out


def check_program(job):
    st, seed = job
    rnd = random.Random(seed)
    lines = variant_lines(fscopes.render(st["prog"]), rnd)
    # spacing variant: indentation by TAB characters; the editor sends the text itself (didOpen with text)
    tabbed = rnd.random() < 0.2
    if tabbed:
        lines = ["\t" * ((len(l) - len(l.lstrip(" "))) // 2) + l.lstrip(" ") for l in lines]
    d = adapter.mkws({"p.f90": "\n".join(lines) + "\n"})
    bad = []
    try:
        s, c = adapter.mkserver(d)
        adapter.did_open(s, c, d, "p.f90", text=("\n".join(lines) + "\n") if tabbed else None)
        res = adapter.result_of(adapter.request(s, c, "textDocument/documentSymbol", {"textDocument": {"uri": adapter.uri(d, "p.f90")}}))
        if not isinstance(res, list):
            return [({"outline:noResult"}, {"lines": lines, "result": res})]
        for e in fscopes.expected_outline(st):
            hits = [r for r in res if r.get("name", "").lower() == e["name"].lower()
                    and r["location"]["range"]["start"]["line"] == e["sline"]]
            same_name = [r for r in res if r.get("name", "").lower() == e["name"].lower()]
            if len(same_name) > 1:
                # a type may legitimately share its name with a generic interface: tell them apart by the opening line
                at_line = [r for r in same_name if r["location"]["range"]["start"]["line"] == e["sline"]]
                if len(at_line) != 1:
                    bad.append(({"outline:duplicate", "class:" + e["class"]}, {"entry": e, "got": same_name}))
                    continue
                same_name = at_line
            if not same_name:
                bad.append(({"outline:missing", "class:" + e["class"]}, {"entry": e}))
                continue
            r = same_name[0]
            if r["kind"] not in e["kinds"]:
                bad.append(({"outline:kind", "class:" + e["class"]}, {"entry": e, "got": r}))
            if (r.get("containerName") or None) != (e["container"] or None) and not (
                    e["container"] and (r.get("containerName") or "").lower() == e["container"].lower()):
                bad.append(({"outline:container", "class:" + e["class"]}, {"entry": e, "got": r}))
            rg = r["location"]["range"]
            if rg["start"]["line"] != e["sline"] or (e["eline"] is not None and rg["end"]["line"] != e["eline"]):
                bad.append(({"outline:lines", "class:" + e["class"]}, {"entry": e, "got": r}))
        # workspace/symbol
        exp = fscopes.expected_workspace(st)
        names = sorted({n for n, _k in exp})
        queries = {""}
        for n in names[:4]:
            for i in range(len(n)):
                queries.add(n[i:i + 2])
                queries.add(n[i:i + 1].upper())
        queries |= {"zzq", "MOD", "Su"}
        queries = set(sorted(queries)[:12])
        # "all query strings": characters that mean something to a pattern language must be taken literally
        first = names[0] if names else "mod1"
        queries |= {".", first[:1] + "." + first[2:3], "^" + first[:2], first[-1:] + "$", "(", "[a-z]", "*", first[:2] + "|zz", "\\d"}
        for q in sorted(queries):
            ws = adapter.result_of(adapter.request(s, c, "workspace/symbol", {"query": q}))
            if not isinstance(ws, list):
                bad.append(({"wsym:noResult"}, {"query": q, "result": ws}))
                continue
            got = [w["name"].lower() for w in ws]
            # "exactly the indexed units and members": every returned name is a name written in the program
            src_low = "\n".join(lines).lower()
            phantom = [g for g in got if g not in src_low]
            if phantom:
                bad.append(({"wsym:phantomName"}, {"query": q, "phantom": phantom, "observed": got}))
            want = sorted(n.lower() for n, _k in exp if q.lower() in n.lower())
            # members of program units are don't-care: ignore names that are not required-class names
            reqnames = {n.lower() for n, _k in exp}
            got_req = [g for g in got if g in reqnames]
            if sorted(got_req) != want:
                bad.append(({"wsym:set"}, {"query": q, "expected": want, "observed": got}))
            if [w["name"] for w in ws] != sorted(w["name"] for w in ws):
                bad.append(({"wsym:unsorted"}, {"query": q, "observed": [w["name"] for w in ws]}))
    finally:
        adapter.rmws(d)
    return [(t | ({"indent:tab"} if tabbed else set()), dict(x, lines=lines)) for t, x in bad]


def keyword_names_program():
    """A module whose variables all have names that BEGIN with a statement keyword, assigned to at the start of
    statements, followed by further procedures: the outline must not be disturbed by any of them."""
    names = ["%s_q" % k.rstrip("_") for k in fscopes.KWNAMES[1:]] + ["blocks", "interface_flux", "imports", "end_time", "endpoint", "block_size", "interfaces",
                                                                      "import_count", "enddo_x", "endif_x", "contains1", "implicit1", "typed", "used", "dotted", "iffy", "selected", "wherever"]
    names = sorted(set(names))
    lines = ["module kwm", "  implicit none"]
    lines += ["  real :: %s(4)" % n for n in names]
    lines += ["contains", "  subroutine kws(n)", "    integer, intent(in) :: n"]
    first = len(lines)
    lines += ["    %s(n) = 0.0" % n for n in names]
    lines += ["  end subroutine kws", "  subroutine after()", "  end subroutine after", "end module kwm"]
    return names, lines, first


def check_keyword_names(_job=None):
    names, lines, first = keyword_names_program()
    d = adapter.mkws({"k.f90": "\n".join(lines) + "\n"})
    bad = []
    try:
        s, c = adapter.mkserver(d)
        adapter.did_open(s, c, d, "k.f90")
        res = adapter.result_of(adapter.request(s, c, "textDocument/documentSymbol", {"textDocument": {"uri": adapter.uri(d, "k.f90")}}))
        got = {(r["name"].lower(), (r.get("containerName") or "").lower(), r["location"]["range"]["start"]["line"], r["location"]["range"]["end"]["line"]) for r in (res or [])}
        n = len(lines)
        want = {("kwm", "", 0, n - 1), ("kws", "kwm", first - 2, n - 4), ("after", "kwm", n - 3, n - 2)}
        for w in sorted(want):
            if w not in got:
                culprit = None
                # which assignment disturbs the outline? re-index with one assignment at a time
                bad.append(({"outline:keywordLikeName", "entry:" + w[0]}, {"expected": w, "observed": sorted(g for g in got if g[0] in ("kwm", "kws", "after")), "lines": lines}))
        extra = sorted(g[0] for g in got if g[0] not in {x.lower() for x in names} | {"kwm", "kws", "after", "n"})
        if extra:
            bad.append(({"outline:phantomEntry"}, {"extra": extra, "lines": lines}))
        diags, exc = s.get_diagnostics(adapter.uri(d, "k.f90"))
        errs = [x for x in (diags or []) if x.get("severity") == 1]
        if exc is not None or errs:
            bad.append(({"keywordLikeName:errorPublished"}, {"diagnostics": errs[:5], "exception": repr(exc), "lines": lines}))
        if bad:
            # name the culprits: index the program with ONE assignment at a time
            culprits = []
            for nm_ in names:
                one = lines[:first] + ["    %s(n) = 0.0" % nm_] + lines[first + len(names):]
                d2 = adapter.mkws({"k.f90": "\n".join(one) + "\n"})
                try:
                    s2, c2 = adapter.mkserver(d2)
                    r2 = adapter.result_of(adapter.request(s2, c2, "textDocument/documentSymbol", {"textDocument": {"uri": adapter.uri(d2, "k.f90")}}))
                    g2 = {(r["name"].lower(), r["location"]["range"]["end"]["line"]) for r in (r2 or [])}
                    dg, _e = s2.get_diagnostics(adapter.uri(d2, "k.f90"))
                    if ("after", len(one) - 2) not in g2 or ("kws", len(one) - 4) not in g2 or any(x.get("severity") == 1 for x in (dg or [])):
                        culprits.append(nm_)
                finally:
                    adapter.rmws(d2)
            for t, x in bad:
                x["culprits"] = culprits
                t |= {"name:" + cu for cu in culprits[:6]}
    finally:
        adapter.rmws(d)
    return bad


# single statements that look like construct openers: the header has nested parentheses, strings holding parentheses or a
# continuation, and is followed by the controlled statement on the same line - none of them opens a scope
ONELINERS = [
    ("where:nested", ["where (abs(a) > maxval(b)) a = 0.0"]),
    ("where:plain", ["where (a > 0.0) a = 0.0"]),
    ("where:nested2", ["where ((abs(a(:)) > (maxval(b)))) a = 0.0"]),
    ("where:continued", ["where (abs(a) > &", "       maxval(b)) a = 0.0"]),
    ("if:nested", ["if (abs(a(n)) > max(1.0, b(1))) a(n) = 0.0"]),
    ("if:string", ["if (len_trim('(') > min(1, n)) a(n) = 0.0"]),
    ("if:call", ["if (any(a > (b(1)))) call after()"]),
    ("forall:nested", ["forall (k = 1:size(a(:))) a(k) = 0.0"]),
    ("forall:mask", ["forall (k = 1:4, abs(b(k)) > (0.0)) a(k) = 0.0"]),
    ("do:oneline-if-inside", ["do k = 1, size(a)", "  if (abs(a(k)) > (0.0)) a(k) = 0.0", "end do"]),
]


def check_oneliners(_job=None):
    bad = []
    for tag, stmts in ONELINERS + [("all", [x for _t, st in ONELINERS for x in st])]:
        lines = ["module olm", "  implicit none", "  real :: a(4), b(4)", "contains", "  subroutine ols(n)", "    integer, intent(in) :: n", "    integer :: k"]
        lines += ["    " + x for x in stmts]
        lines += ["  end subroutine ols", "  subroutine after()", "  end subroutine after", "end module olm"]
        d = adapter.mkws({"o.f90": "\n".join(lines) + "\n"})
        try:
            s, c = adapter.mkserver(d)
            adapter.did_open(s, c, d, "o.f90")
            res = adapter.result_of(adapter.request(s, c, "textDocument/documentSymbol", {"textDocument": {"uri": adapter.uri(d, "o.f90")}}))
            got = {(r["name"].lower(), (r.get("containerName") or "").lower(), r["location"]["range"]["start"]["line"], r["location"]["range"]["end"]["line"]) for r in (res or [])}
            n = len(lines)
            want = {("olm", "", 0, n - 1), ("ols", "olm", 4, n - 4), ("after", "olm", n - 3, n - 2)}
            miss = sorted(want - got)
            if miss:
                bad.append(({"outline:oneLineStatement", "stmt:" + tag} | {"entry:" + w[0] for w in miss},
                            {"expected": sorted(want), "observed": sorted(g for g in got if g[0] in ("olm", "ols", "after")), "lines": lines}))
            ws = adapter.result_of(adapter.request(s, c, "workspace/symbol", {"query": "after"}))
            if "after" not in {w["name"].lower() for w in (ws or [])}:
                bad.append(({"wsym:set", "outline:oneLineStatement", "stmt:" + tag}, {"query": "after", "observed": [w["name"] for w in (ws or [])], "lines": lines}))
            diags, exc = s.get_diagnostics(adapter.uri(d, "o.f90"))
            errs = [x for x in (diags or []) if x.get("severity") == 1]
            if exc is not None or errs:
                bad.append(({"oneLineStatement:errorPublished", "stmt:" + tag}, {"diagnostics": errs[:5], "exception": repr(exc), "lines": lines}))
        finally:
            adapter.rmws(d)
    return bad


def main(tier, seed):
    ck = Check("C04", tier, seed)
    ck.assumptions = [
        "programs come from the grammar of FortranScopes.tla (NextValid): units, procedures with CONTAINS nesting, derived types with components and nopass bindings, named/abstract interfaces with one body, BLOCK/DO/IF/SELECT/ASSOCIATE/WHERE",
        "entries for constructs the property does not mention (blocks, interface bodies, members of program units in workspace/symbol) are don't-care",
        "SymbolKind is checked against an admissible set per class (procedure: Function|Method, type: Class|Struct, ...)",
    ]
    r = tlc.mc("FortranScopes", "FortranScopes_MC.cfg", required_actions=["OpenUnit", "OpenType", "OpenProc", "End", "ContainsStmt"], timeout=1200)
    ck.add_tlc("FortranScopes_MC", r)
    if not r.ok:
        ck.machinery("FortranScopes_MC violated %s" % r.violated)
        return ck.finish()
    progs = []
    info = {}
    for st in tlc.dump_states("FortranScopes", "FortranScopes_Gen_%s.cfg" % tier, info=info, timeout=3000,
                              prefilter=lambda t: "stack = <<>>" in t):
        if st["prog"]:
            progs.append(st)
    ck.add_tlc("FortranScopes_Gen", info["result"])
    nsim = 300 if tier == "quick" else 3000
    nlong = 0
    for beh in tlc.simulate("FortranScopes", "FortranScopes_Sim.cfg", num=nsim, depth=31, seed=seed + 11, workers=8, timeout=1500):
        # longest complete prefix of the behaviour
        for _a, st in reversed(beh):
            if st["stack"] == [] and st["prog"]:
                progs.append(st)
                nlong += 1
                break
    rnd = random.Random(seed)
    if tier == "quick" and len(progs) > 4000:
        keep = rnd.sample(range(len(progs)), 4000)
        progs = [progs[i] for i in sorted(keep)]
    ck.note("complete_programs", len(progs))
    ck.note("simulated_long_programs", nlong)
    jobs = [(p, seed + i) for i, p in enumerate(progs)]
    for i, status, val in par.pmap(check_program, jobs, item_timeout=120):
        ck.count(key=json.dumps(progs[i]["prog"], sort_keys=True))
        if status != "done":
            ck.violation({"replay:" + status}, {"kind": "program", "state": progs[i], "seed": jobs[i][1], "detail": val})
            continue
        ck.traces += 1
        for tags, detail in val:
            detail.update(kind="program", state=progs[i], seed=jobs[i][1])
            ck.violation(tags, detail)
    # names beginning with statement keywords
    for i, status, val in par.pmap(check_keyword_names, [0], item_timeout=600):
        ck.count(key="keywordNames")
        if status != "done":
            ck.violation({"replay:" + status, "keywordNames"}, {"kind": "keywordNames", "detail": val})
            continue
        ck.traces += 1
        for tags, detail in val:
            detail.update(kind="keywordNames")
            ck.violation(tags, detail)
    # single statements that look like construct openers
    for i, status, val in par.pmap(check_oneliners, [0], item_timeout=600):
        ck.count(key="oneLiners")
        if status != "done":
            ck.violation({"replay:" + status, "oneLiners"}, {"kind": "oneLiners", "detail": val})
            continue
        ck.traces += 1
        ck.note("one_line_statement_forms", len(ONELINERS))
        for tags, detail in val:
            detail.update(kind="oneLiners")
            ck.violation(tags, detail)
    for p in progs[:: max(1, len(progs) // 3)][:3]:
        ck.sample({"source": fscopes.render(p["prog"]), "required_outline": [{k: (sorted(v) if isinstance(v, set) else v) for k, v in e.items()} for e in fscopes.expected_outline(p)]})
    return ck.finish()


def replay(path):
    rec0 = json.load(open(path))
    if rec0.get("kind") == "oneLiners":
        res = check_oneliners()
        for t, x in res:
            print(sorted(t), json.dumps({k: v for k, v in x.items() if k != "lines"}, default=str)[:800])
        return 1 if res else 0
    if rec0.get("kind") == "keywordNames":
        res = check_keyword_names()
        for t, x in res:
            print(sorted(t), json.dumps({k: v for k, v in x.items() if k != "lines"}, default=str)[:800])
        return 1 if res else 0
    rec = json.load(open(path))
    res = check_program((rec["state"], rec["seed"]))
    for t, dct in res:
        print(sorted(t), json.dumps(dct, default=str)[:500])
    return 1 if res else 0
