"""C19: command line and configuration file are interchangeable; the file wins (Config.tla)."""
from __future__ import annotations

import json
import os
import random
import zlib

from . import adapter, par, tlc
from .common import Check

# option table: name -> (kind, v1, v2).  For store_true flags the command line can only say True (v1);
# the file can say true (v1) or false (v2).
BOOL = ["notify_init", "incremental_sync", "sort_keywords", "autocomplete_no_prefix", "autocomplete_no_snippets",
        "autocomplete_name_only", "lowercase_intrinsics", "use_signature_help", "hover_signature", "disable_diagnostics",
        "symbol_skip_mem", "enable_code_actions"]
OPTS = {b: ("bool", True, False) for b in BOOL}
OPTS.update({
    "nthreads": ("int", 1, 2), "recursion_limit": ("int", 1500, 2000), "max_line_length": ("int", 80, 100),
    "max_comment_line_length": ("int", 70, 90), "hover_language": ("str", "fortran", "f08"),
    "source_dirs": ("dirs", ["d1"], ["."]), "excl_paths": ("dirs", ["d1"], ["d2"]), "include_dirs": ("dirs", ["d1"], ["d2"]),
    "incl_suffixes": ("set", [".inc"], [".h", ".FF"]), "excl_suffixes": ("set", ["_skip.f90"], ["_tmp.f90", "_x.f90"]),
    "pp_suffixes": ("list", [".fpp"], [".F", ".FF"]), "pp_defs": ("json", {"A": "1"}, {"B": "2", "C": ""}),
})
DEFAULT = {"nthreads": 1, "recursion_limit": 1000, "max_line_length": -1, "max_comment_line_length": -1, "hover_language": "fortran90",
           "source_dirs": "ROOTDIRS", "excl_paths": [], "include_dirs": [], "incl_suffixes": [], "excl_suffixes": [], "pp_suffixes": [], "pp_defs": {}}
NAMES = sorted(OPTS)


FNAME = {"fortls": ".fortls", "fortlsrc": ".fortlsrc", "fortlsjson": ".fortls.json", "custom": "my_fortls_options.json"}
EMPTY = {"dirs": [], "set": [], "list": [], "json": {}, "int": 0, "str": ""}


def value_of(o, which):
    kind, v1, v2 = OPTS[o]
    if which == "vEmpty":
        return EMPTY.get(kind)
    return v1 if which == "v1" else v2


def cli_args(o, which):
    kind, v1, v2 = OPTS[o]
    if which == "vEmpty":
        return None    # an empty value cannot be distinguished from "not given" on the command line
    v = v1 if which == "v1" else v2
    if kind == "bool":
        return "--%s" % o if which == "v1" else None   # the command line cannot say false
    if kind in ("int", "str"):
        return "--%s %s" % (o, v)
    if kind == "json":
        return "--%s %s" % (o, json.dumps(v, separators=(",", ":")))
    return "--%s %s" % (o, " ".join(v))


def norm(o, val, root):
    kind = OPTS[o][0]
    if kind in ("dirs", "set", "list") and not isinstance(val, (list, set, tuple, frozenset, type(None))):
        return "<%s %r>" % (type(val).__name__, val)
    if kind == "dirs":
        return sorted(os.path.relpath(p, root) if os.path.isabs(p) else p for p in (val or []))
    if kind == "set":
        return sorted(val or [])
    if kind == "list":
        return sorted(val or [])
    return val


def expected(o, tag, root):
    kind, v1, v2 = OPTS[o]
    if tag == "default":
        if kind == "bool":
            return False
        d = DEFAULT[o]
        return d
    v = value_of(o, tag)
    if kind in ("dirs", "set", "list"):
        return sorted(v)
    return v


def check(st):
    names = st["_names"]
    root = adapter.mkws({"d1/a.f90": "module ma\nend module ma\n", "d2/b.f90": "module mb\nend module mb\n", "top.f90": "program t\nend program t\n"})
    try:
        args = []
        involved = [o for o in st["cli"] if st["cli"][o] != "absent" or st["file"][o] != "absent"]
        skip = False
        for o in st["cli"]:
            if st["cli"][o] != "absent":
                a = cli_args(names[o], st["cli"][o])
                if a is None:
                    skip = True   # "--flag=false" does not exist on the command line
                else:
                    args.append(a)
        if skip:
            return "skip"
        kind = st["fileKind"]
        cfg = {}
        for o in st["file"]:
            if st["file"][o] != "absent":
                if st["file"][o] == "vEmpty" and OPTS[names[o]][0] in ("bool", "int"):
                    return "skip"   # no empty value exists for flags and integers
                cfg[names[o]] = value_of(names[o], st["file"][o])
        lay = st.get("layout") or {"name": "fortls", "explicit": False, "decoy": "none"}
        fname = FNAME[lay["name"]]
        fpath = os.path.join(root, fname)
        if lay["explicit"]:
            args.append("-c " + fname)
        if lay["decoy"] != "none":
            # a second, default-named file that gives every involved option a different value
            other = {names[o]: value_of(names[o], "v2" if st["file"][o] == "v1" else "v1") for o in st["file"] if st["file"][o] != "absent"}
            json.dump(other, open(os.path.join(root, FNAME[lay["decoy"]]), "w"))
        if kind == "ok":
            json.dump(cfg, open(fpath, "w"))
        elif kind == "invalidJson":
            open(fpath, "w").write('{"nthreads": 2, ')
        elif kind == "topLevelList":
            json.dump([cfg], open(fpath, "w"))
        elif kind == "topLevelScalar":
            open(fpath, "w").write("42")
        elif kind == "wrongValueType":
            bad = dict(cfg)
            tgt = names[involved[0]] if involved else "nthreads"
            bad[tgt] = 5 if OPTS[tgt][0] in ("dirs", "set", "list", "json", "str") else {"x": [1]}
            json.dump(bad, open(fpath, "w"))
        elif kind == "missingExplicit":
            args.append("-c missing_config.json")
        s, c = adapter.mkserver(root, " ".join(args), init=False, base="--disable_autoupdate --nthreads 1 ")
        out = adapter.request(s, c, "initialize", {"rootPath": root}, rid=1)
        bad = []
        resp = [e for e in out if e["t"] in ("resp", "err")]
        msgs = [e for e in out if e["t"] == "note" and e["method"] == "window/showMessage"]
        tags0 = {"file:" + kind}
        if lay["explicit"] or lay["decoy"] != "none":
            tags0 |= {"layout:%s%s+%s" % (lay["name"], "(-c)" if lay["explicit"] else "", lay["decoy"])}
        if not resp or resp[0]["t"] != "resp":
            bad.append((tags0 | {"init:failed"}, {"response": resp[:1]}))
        if kind not in ("none", "ok") and not msgs:
            bad.append((tags0 | {"malformed:noMessage"}, {"messages": msgs}))
        usable = kind == "ok"
        for o in involved:
            name = names[o]
            f, cl = st["file"][o], st["cli"][o]
            tag = st["eff"][o]        # the specification's effective value: v1 / v2 / vEmpty / default
            exp = expected(name, tag, root)
            got = norm(name, getattr(s, name, "<no attribute>"), root)
            if name == "source_dirs" and tag in ("v1", "v2") and not any(names[x] in ("excl_paths", "incl_suffixes", "excl_suffixes") for x in involved):
                # the observable effect: exactly the files lying directly in the effective directories are indexed
                want = sorted(fn for fn in ("d1/a.f90", "d2/b.f90", "top.f90") if (os.path.dirname(fn) or ".") in exp)
                have = sorted(os.path.relpath(p, root) for p in s.workspace)
                if have != want:
                    bad.append((tags0 | {"option:source_dirs", "effect:indexedFiles", "cli:" + cl, "file.value:" + f}, {"option": name, "effective": exp, "expected_files": want, "indexed_files": have}))
            if name == "source_dirs" and tag == "default":
                continue  # default = discovered directories (C18's business)
            if name == "source_dirs" and any(names[x] == "excl_paths" for x in involved):
                continue  # excluded paths are removed from the source directories by design (C18)
            if name == "excl_paths" or name == "include_dirs" or name == "source_dirs":
                exp = sorted(exp) if isinstance(exp, list) else exp
            if got != exp:
                how = "file" if (usable and f != "absent") else ("cli" if cl != "absent" else "default")
                bad.append((tags0 | {"option:" + name, "effective:" + how, "cli:" + cl, "file.value:" + f}, {"option": name, "expected": exp, "observed": got}))
        # observable effect of incremental_sync: two ranged changes in one notification are both applied
        if any(names[o] == "incremental_sync" for o in involved) and kind in ("ok", "none") and resp and resp[0]["t"] == "resp":
            o = [x for x in involved if names[x] == "incremental_sync"][0]
            f, cl = st["file"][o], st["cli"][o]
            tag = st["eff"][o]
            eff = expected("incremental_sync", tag, root)
            caps = resp[0]["result"].get("capabilities", {}).get("textDocumentSync")
            if eff and caps != 2 or (not eff and caps != 1):
                bad.append((tags0 | {"option:incremental_sync", "effect:capability"}, {"expected_incremental": eff, "textDocumentSync": caps}))
            if eff:
                adapter.did_open(s, c, root, "top.f90")
                adapter.notify(s, c, "textDocument/didChange", {"textDocument": {"uri": adapter.uri(root, "top.f90")}, "contentChanges": [
                    {"range": {"start": {"line": 0, "character": 0}, "end": {"line": 0, "character": 0}}, "text": "! one\n"},
                    {"range": {"start": {"line": 0, "character": 0}, "end": {"line": 0, "character": 0}}, "text": "! two\n"}]})
                got_lines = list(s.workspace[os.path.join(root, "top.f90")].contents_split[:2])
                if got_lines != ["! two", "! one"]:
                    bad.append((tags0 | {"option:incremental_sync", "effect:changesApplied"}, {"expected": ["! two", "! one"], "observed": got_lines}))
        # options nobody mentioned must be at their defaults too (pairs interfere through the loaders)
        for name in ("pp_suffixes", "pp_defs", "incl_suffixes", "hover_language", "nthreads"):
            if name in [names[o] for o in involved] or kind not in ("ok", "none"):
                continue
            exp = expected(name, "default", root)
            got = norm(name, getattr(s, name, "<no attribute>"), root)
            if got != exp and not (name == "pp_suffixes" and got in (None, []) and exp in (None, [])):
                bad.append((tags0 | {"option:" + name, "effective:untouchedDefault"}, {"option": name, "expected": exp, "observed": got}))
        return [(t, dict(x, args=args, config=cfg, file_kind=kind)) for t, x in bad]
    finally:
        adapter.rmws(root)


def main(tier, seed):
    ck = Check("C19", tier, seed)
    rnd = random.Random(seed)
    ck.assumptions = [
        "options: the %d documented non-debug options that the configuration file understands; the three abstract options of Config.tla are bound to concrete option triples by a seeded choice (all pairs covered in thorough)" % len(NAMES),
        "a store_true flag cannot be given the value false on the command line; those combinations are skipped",
        "effective values are read from the server's attributes after initialize (sets/lists/paths normalised)",
        "debug_log, config, disable_autoupdate are not varied (they write files / use the network)",
    ]
    r = tlc.mc("Config", "Config_MC.cfg", required_actions=["Initialize"], timeout=600)
    ck.add_tlc("Config_MC", r)
    if not r.ok:
        ck.machinery("Config_MC violated %s" % r.violated)
        return ck.finish()
    info = {}
    states = list(tlc.dump_states("Config", "Config_MC.cfg", info=info, timeout=900, prefilter=lambda t: "done = TRUE" in t))
    ck.add_tlc("Config_Gen", info["result"])
    jobs = []
    reps = 2 if tier == "quick" else 30
    for st in states:
        for _ in range(reps):
            tri = rnd.sample(NAMES, 3)
            j = dict(st)
            j["_names"] = {"o1": tri[0], "o2": tri[1], "o3": tri[2]}
            jobs.append(j)
    ck.note("abstract_states", len(states))
    ck.note("concrete_configurations", len(jobs))
    skipped = 0
    for i, status, val in par.pmap(check, jobs, item_timeout=120):
        if status != "done":
            ck.violation({"replay:" + status}, {"kind": "config", "state": jobs[i], "detail": val})
            continue
        if val == "skip":
            skipped += 1
            continue
        ck.count(key=json.dumps(jobs[i], sort_keys=True, default=str))
        ck.traces += 1
        for tags, detail in val:
            detail.update(kind="config", state=jobs[i])
            ck.violation(tags, detail)
    ck.note("skipped_inexpressible", skipped)
    for j in jobs[:2]:
        ck.sample({"options": j["_names"], "cli": j["cli"], "file": j["file"], "file_kind": j["fileKind"], "expected_effective": j["eff"]})
    return ck.finish()


def replay(path):
    rec = json.load(open(path))
    res = check(rec["state"])
    print(json.dumps(res, default=str)[:2000])
    return 1 if res and res != "skip" else 0
