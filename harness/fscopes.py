"""Renderer and expectations for FortranScopes.tla behaviours."""
from __future__ import annotations

PFX = {"submodule": "smod", "o": "op", "pp": "pp", "iface_op": "op", "a": "a", "module": "mod", "program": "prg", "sub": "sub", "fun": "fun", "t": "typ", "g": "gen", "v": "v", "b": "b",
       "x": "x", "nomod": "nomod", "type": "typ", "iface_named": "gen", "ibody": "ibd"}
ENDKW = {"ldo": "do", "submodule": "submodule", "iface_op": "interface", "module": "module", "program": "program", "sub": "subroutine", "fun": "function", "ibody_sub": "subroutine",
         "ibody_fun": "function", "type": "type", "iface_named": "interface", "iface_abstract": "interface",
         "block": "block", "do": "do", "if": "if", "select": "select", "associate": "associate", "where": "where"}
OPEN_CONSTRUCT = {"block": "block", "do": "do", "ldo": "do %d", "if": "if (.true.) then", "select": "select case (1)",
                  "associate": "associate (q => 1)", "where": "where ([1] > 0)"}
# LSP SymbolKind sets admissible per class (the property says "the right kind", not which protocol number)
KINDS = {"module": {2}, "submodule": {2}, "program": {2}, "sub": {12, 6}, "fun": {12, 6}, "type": {5, 23}, "iface_named": {11},
         "component": {13, 8, 7}, "binding": {6, 12}, "var": {13}}


# variable names that BEGIN with a keyword of the statement grammar (still ordinary names)
KWNAMES = ["v", "blocks", "interface_flux", "imports", "end_time", "endpoint", "contains_x", "type_x", "use_count", "program_id", "module_idx",
           "do_it", "if_flag", "select_k", "where_x", "associate_n", "procedure_k", "function_v", "subroutine_v", "implicit_v", "private_v",
           "public_v", "enum_v", "block_size", "data_x", "critical_v", "forall_x", "import_count", "interfaces", "submodule_v", "elsewhere_x",
           "include_x", "call_count", "result_v", "only_v", "generic_v", "final_v", "class_v", "double_v", "character_v", "real_v", "external_v"]


def nm(n):
    if not n:
        return ""
    if n[0] == "v":
        return "%s%d" % (KWNAMES[n[1] % len(KWNAMES)], n[1])
    return "%s%d" % (PFX.get(n[0], n[0]), n[1])


DECL_FORMS = ["integer :: %s", "character(len=3) :: %s", "double precision :: %s", "complex :: %s", "real :: %s",
              "real(kind=8) :: %s(3) = 0.0", "character(len=8) :: %s(2) = 'ab'", "integer(4) :: %s(2) = [1, 2]", "logical :: %s = .true."]
ASSIGN = ["%s = 1", "%s = 'a'", "%s = 1", "%s = 1", "%s = 1", "%s(1) = 0.0", "%s(1) = 'a'", "%s(1) = 1", "%s = .false."]


def exec_text(prog, i):
    """An executable statement: an assignment to the nearest variable declared before it in the same scope
    (so that names beginning with keywords occur at the start of statements), else CONTINUE."""
    st = prog[i]
    for j in range(i - 1, -1, -1):
        pj = prog[j]
        if pj["op"] == "open" and pj["depth"] == st["depth"] - 1:
            # the opener of the enclosing scope / construct: constructs share their host's variables
            if pj["kind"] in OPEN_CONSTRUCT and pj["kind"] != "block":
                st = pj
                continue
            break
        if pj["op"] == "decl" and pj["kind"] == "var" and pj["depth"] == st["depth"]:
            return ASSIGN[pj["ln"] % len(ASSIGN)] % nm(pj["name"])
    return "continue"


def first_module_proc(prog, i):
    """Name of the first module procedure of the module enclosing statement i (binding target)."""
    # find enclosing depth-0 opener
    j = i
    while j >= 0 and not (prog[j]["op"] == "open" and prog[j]["depth"] == 0):
        j -= 1
    for k in range(max(j, 0), len(prog)):
        st = prog[k]
        if k > j and st["depth"] == 0:
            break
        if st["op"] == "open" and st["depth"] == 1 and st["kind"] in ("sub", "fun"):
            return nm(st["name"])
    return "bp"


def stmt_text(prog, i, ibody_kinds):
    st = prog[i]
    op, kind = st["op"], st["kind"]
    if op == "open":
        n = nm(st["name"])
        if kind == "module":
            return "module " + n
        if kind == "program":
            return "program " + n
        if kind == "submodule":
            if st.get("root"):
                return "submodule (%s:%s) %s" % (nm(st["root"]), nm(st["parent"]), n)
            return "submodule (%s) %s" % (nm(st["parent"]), n)
        arg = nm(st["arg"]) if st.get("arg") else ""
        if kind == "sub":
            return "subroutine %s(%s)" % (n, arg)
        if kind == "fun":
            return "integer function %s(%s)" % (n, arg)
        if kind == "ibody":
            pk = st.get("pk", "sub")
            ibody_kinds[st["ln"]] = pk
            nn = "%s%d" % (PFX[pk], st["name"][1]) if st["name"] else "ibd"
            return ("subroutine %s()" % nn) if pk == "sub" else ("integer function %s()" % nn)
        if kind == "type":
            return "type :: " + (nm(("g", st["name"][1])) if st["name"][0] == "g" else n)
        if kind == "iface_named":
            return "interface " + n
        if kind == "iface_abstract":
            return "abstract interface"
        if kind == "iface_op":
            return "interface operator(.op%s.)" % "abcdefghij"[st["name"][1] % 10]
        if kind == "ldo":
            return "do %d" % (10 * st["ln"])
        return OPEN_CONSTRUCT[kind]
    if op == "use":
        return "use " + nm(st["name"])
    if op == "implicit":
        return "implicit none"
    if op == "decl":
        if kind == "intentvar":
            return "integer, intent(in) :: " + nm(st["name"])
        if kind == "procptr":
            tn = st["tname"]
            return "procedure(%s%d), pointer :: %s" % (PFX[ibody_kinds.get(tn[1], "sub")], tn[1], nm(st["name"]))
        if kind == "typedvar":
            return "type(%s) :: %s" % (nm(st["tname"]), nm(st["name"]))
        # plain declarations rotate through intrinsic types (some start with the fixed-form comment letters c / d)
        return DECL_FORMS[st["ln"] % len(DECL_FORMS)] % nm(st["name"])
    if op in ("contains", "typecontains"):
        return "contains"
    if op == "binding":
        return "procedure, nopass :: %s => %s" % (nm(st["name"]), first_module_proc(prog, i))
    if op == "exec":
        if kind == "longexec":
            return "print *, '%s'" % ("x" * 150)
        return exec_text(prog, i)
    if op == "import":
        return "import"
    if op == "private":
        return "private"
    if op == "garbled":
        return {"open": "subroutine (", "decl": "integer ::", "use": "use ,", "end": "end sub"}.get(kind, "&")
    if op == "end":
        form = st.get("form", "kind")
        if kind == "ldo" and form != "bare":
            # the terminal statement of a labelled DO: "<label> continue"; the label is that of the matching DO
            depth = 0
            for j in range(i - 1, -1, -1):
                if prog[j]["op"] == "end" and prog[j]["depth"] == st["depth"]:
                    depth += 1
                elif prog[j]["op"] == "open" and prog[j]["depth"] == st["depth"] - 1:
                    if depth == 0:
                        return "%d continue" % (10 * prog[j]["ln"])
                    depth -= 1
            return "end do"
        if form == "bare":
            return "end"
        k = kind
        if k == "ibody":
            k = "ibody_" + ibody_kinds.get(_open_line(prog, i), "sub")
        kw = ENDKW.get(k, k)
        if form == "kindName" and st.get("name"):
            n = st["name"]
            name = nm(n)
            if kind == "ibody":
                name = "%s%d" % (PFX[ibody_kinds.get(n[1], "sub")], n[1])
            if kind == "iface_op":
                name = "operator(.op%s.)" % "abcdefghij"[n[1] % 10]
            return "end %s %s" % (kw, name)
        return "end " + kw
    raise ValueError(st)


def _open_line(prog, i):
    st = prog[i]
    return st["name"][1] if st.get("name") else None


def ibody_name(st, kinds):
    n = st["name"]
    return "%s%d" % (PFX[kinds.get(n[1], "sub")], n[1])


def render(prog, indent=True):
    kinds = {}
    lines = []
    for i, st in enumerate(prog):
        t = stmt_text(prog, i, kinds)
        d = st["depth"] - (1 if st["op"] == "end" and st["depth"] > 0 else 0)
        if st["op"] in ("contains", "typecontains") and d > 0:
            d -= 1
        lines.append(("  " * max(d, 0) if indent else "") + t)
    return lines


def expected_outline(st):
    """Required documentSymbol entries: list of dict(name, kinds, container, sline, eline or None)."""
    req = []
    for c in st["closed"]:
        if c["depth"] <= 2 and c["kind"] in ("module", "submodule", "program", "sub", "fun", "type", "iface_named"):
            req.append({"name": nm(c["name"]), "kinds": KINDS[c["kind"]], "container": nm(c["container"]) if c["depth"] == 2 else None,
                        "sline": c["sline"] - 1, "eline": c["eline"] - 1, "class": c["kind"]})
    # components and bindings of types declared directly inside a program unit
    types = {c["sline"]: c for c in st["closed"] if c["kind"] == "type" and c["depth"] == 2}
    for s in st["prog"]:
        if s["op"] in ("decl", "binding") and s["kind"] in ("component", "binding") and s["depth"] == 2:
            encl = [c for c in types.values() if c["sline"] < s["ln"] < c["eline"]]
            if encl:
                req.append({"name": nm(s["name"]), "kinds": KINDS[s["kind"]], "container": nm(encl[0]["name"]),
                            "sline": s["ln"] - 1, "eline": None, "class": s["kind"]})
    return req


def expected_workspace(st):
    """Units and module members: list of (name, class)."""
    out = []
    mods = {}
    for c in st["closed"]:
        if c["depth"] == 1:
            out.append((nm(c["name"]), c["kind"]))
            if c["kind"] == "module":
                mods[nm(c["name"])] = c
    for c in st["closed"]:
        if c["depth"] == 2 and nm(c["container"]) in mods and c["kind"] in ("sub", "fun", "type", "iface_named"):
            out.append((nm(c["name"]), c["kind"]))
    for s in st["prog"]:
        if s["op"] == "decl" and s["kind"] == "var" and s["depth"] == 1:
            for m in mods.values():
                if m["sline"] < s["ln"] < m["eline"]:
                    out.append((nm(s["name"]), "var"))
    return out
