"""C13: the index is invariant under meaning-preserving re-layout of the source.
C14 reuses this module with fixed-form layouts."""
from __future__ import annotations

import json
import os
import random

from . import adapter, fscopes, layout, par, tlc
from .common import Check
from .c07 import classify

OPK_FREE = '{"blank", "comment", "split", "join", "eol", "case", "trail", "tcomment", "flush", "icomment"}'


_LAYCACHE = {}


def layouts_for(n, maxops, opkinds, nsim=None, seed=0, fixed_only=False):
    """Layout.tla behaviours for a program of n statements (cfg written to scratch at run time)."""
    key = (n, maxops, opkinds, nsim, seed)
    if key not in _LAYCACHE:
        _LAYCACHE[key] = _layouts_for(n, maxops, opkinds, nsim, seed)
    return _LAYCACHE[key]


def _layouts_for(n, maxops, opkinds, nsim=None, seed=0):
    cfgp = os.path.join(tlc.scratch(), "Layout_N%d_%d_%s.cfg" % (n, maxops, abs(hash(opkinds)) % 10 ** 6))
    with open(cfgp, "w") as fh:
        fh.write("CONSTANTS N = %d MaxOps = %d OpKinds = %s\nSPECIFICATION Spec\nINVARIANT Monotone\nINVARIANT MapIsLineMap\n" % (n, maxops, opkinds))
    info = {}
    if nsim:
        sts = [b[-1][1] for b in tlc.simulate("Layout", cfgp, num=nsim, depth=maxops + 1, seed=seed, workers=4)]
        return sts, None
    sts = [s for s in tlc.dump_states("Layout", cfgp, info=info) if s["ops"]]
    return sts, info["result"]


def dump(text, fname="p.f90", args="--max_line_length 120"):
    d = adapter.mkws({fname: text.encode()})
    try:
        s, c = adapter.mkserver(d, args)
        ev = adapter.did_open(s, c, d, fname)
        diags = []
        for e in ev:
            if e["t"] == "note" and e["method"] == "textDocument/publishDiagnostics":
                diags = e["params"]["diagnostics"]
        syms = adapter.result_of(adapter.request(s, c, "textDocument/documentSymbol", {"textDocument": {"uri": adapter.uri(d, fname)}})) or []
        fo = s.workspace.get(os.path.join(d, fname))
        # what every entity IS (type, attributes, value, the procedure a binding or pointer is linked to): its hover
        # text keyed by qualified name, letter case and blanks removed
        hov = {}
        if fo is not None and fo.ast is not None:
            import re as _re
            objs = list(fo.ast.variable_list) + list(fo.ast.scope_list)
            for o in objs:
                try:
                    h = o.get_hover(long=True)
                    txt = h[0] if isinstance(h, tuple) else h
                except Exception as ex:  # noqa
                    txt = "EXC:" + type(ex).__name__
                if txt:
                    hov.setdefault(o.FQSN.lower(), _re.sub(r"\s+", "", str(txt)).lower())
        return {"hover": hov, "symbols": [(y["name"].lower(), y["kind"], (y.get("containerName") or "").lower(),
                             y["location"]["range"]["start"]["line"], y["location"]["range"]["end"]["line"]) for y in syms],
                "diags": [(classify(x["message"]), x.get("severity"), x["range"]["start"]["line"]) for x in diags],
                "fixed": bool(fo.fixed) if fo is not None else None}
    finally:
        adapter.rmws(d)


DECL_KW = ("integer", "real", "double", "complex", "logical", "character", "type(", "type (", "class(", "class (", "procedure(", "procedure (", "external", "enumerator")


def free_undetectable(phys):
    """The input offers none of the three cues fortls's content heuristic uses to recognise free form
    (known finding C14-free-form-undetectable): a line with 1-4 leading blanks before a letter, a letter other
    than c / d in column 1, a declaration keyword starting before column 6, a line ending in '&'."""
    import re
    for l in phys:
        if l.startswith("#"):
            continue
        if re.match(r" {1,4}[A-Za-z]", l):
            return False
        if re.match(r"[abe-zABE-Z_]", l):
            return False   # a statement starting in column 1 with a letter that is no comment flag (cue added by the repair)
        lead = len(l) - len(l.lstrip(" "))
        if lead < 6 and re.match(r"(integer|real|double *precision|complex|double *complex|character|logical|procedure|external|class|type)",
                                 l.lstrip(" "), re.I):
            return False   # a complete type keyword starting before column 6 (the keyword must not be split over lines)
        if not re.match(r"[!cCdD*]", l):
            code = l.split("!")[0].strip()
            if code.endswith("&"):
                return False
    return True


def dump_after_switch(first_text, second_text, fname="p.f90", args="--max_line_length 120"):
    """Open a document holding first_text, then replace the whole buffer by second_text with ONE ranged multi-line
    change (what an editor sends for "paste over everything"); return the dump of the resulting index."""
    d = adapter.mkws({fname: first_text.encode()})
    try:
        s, c = adapter.mkserver(d, args)
        adapter.did_open(s, c, d, fname)
        fo = s.workspace.get(os.path.join(d, fname))
        old = list(fo.contents_split)
        rng = {"start": {"line": 0, "character": 0}, "end": {"line": len(old) - 1, "character": len(old[-1])}}
        adapter.notify(s, c, "textDocument/didChange", {"textDocument": {"uri": adapter.uri(d, fname)}, "contentChanges": [{"range": rng, "text": second_text}]})
        syms = adapter.result_of(adapter.request(s, c, "textDocument/documentSymbol", {"textDocument": {"uri": adapter.uri(d, fname)}})) or []
        fo = s.workspace.get(os.path.join(d, fname))
        return {"symbols": sorted((y["name"].lower(), y["kind"], (y.get("containerName") or "").lower(),
                                   y["location"]["range"]["start"]["line"], y["location"]["range"]["end"]["line"]) for y in syms),
                "fixed": bool(fo.fixed)}
    finally:
        adapter.rmws(d)


def check(job):
    prog_state, lay, fixed = job
    stmts = fscopes.render(prog_state["prog"])
    unit_starts = {i for i, s in enumerate(prog_state["prog"]) if s["op"] == "open" and s["depth"] == 0}
    try:
        text, phys = layout.apply(stmts, lay, unit_starts)
    except layout.NotApplicable as ex:
        return ("skip", str(ex))
    base = dump("\n".join(stmts) + "\n")
    new = dump(text, "p.f" if fixed else "p.f90")
    lmap = lay["lmap"]  # statement (1-based) -> physical line (1-based)
    bad = []

    def m(l0):  # original 0-based line == statement index - 1
        return lmap[l0] - 1 if 0 <= l0 < len(lmap) else -1

    want_syms = sorted((n, k, c, m(a), m(b)) for n, k, c, a, b in base["symbols"])
    got_syms = sorted(new["symbols"])
    if want_syms != got_syms:
        bad.append(({"diff:symbols"}, {"expected": want_syms, "observed": got_syms}))
    # a diagnostic of a statement that spans several physical lines may sit on any of them
    span = lay["span"]

    def lines_of(l0):
        return set(range(m(l0), m(l0) + (span[l0] if 0 <= l0 < len(span) else 1)))
    want_d = sorted((c, s, m(l)) for c, s, l in base["diags"] if c != "OverlongLine")
    got_d = sorted((c, s, l) for c, s, l in new["diags"] if c != "OverlongLine")
    rest = list(got_d)
    okd = len(want_d) == len(got_d)
    for c, s, l in base["diags"]:
        if c == "OverlongLine":
            continue
        hit = [g for g in rest if g[0] == c and g[1] == s and g[2] in lines_of(l)]
        if hit:
            rest.remove(hit[0])
        else:
            okd = False
    if not okd:
        bad.append(({"diff:diagnostics"} | {"extra:" + x[0] for x in got_d if x not in want_d} | {"lost:" + x[0] for x in want_d if x not in got_d},
                    {"expected": want_d, "observed": got_d}))
    if new["fixed"] != fixed:
        bad.append(({"form:misdetected", "expected:" + ("fixed" if fixed else "free")}, {"fixed_flag": new["fixed"]}))
    elif not bad and base["hover"] != new["hover"]:
        # same symbols and diagnostics, but an entity IS something else (type, attributes, value, link target)
        keys = sorted(k for k in set(base["hover"]) | set(new["hover"]) if base["hover"].get(k) != new["hover"].get(k))
        bad.append(({"diff:entities"}, {"differing": keys[:10], "sample": {k: {"before": base["hover"].get(k), "after": new["hover"].get(k)} for k in keys[:3]}}))
    if fixed:
        # the same twin reached by editing: a free-form buffer replaced by the fixed-form text (and back)
        sw = dump_after_switch("\n".join(stmts) + "\n", text)
        if sw["fixed"] is not True or sw["symbols"] != sorted(new["symbols"]):
            bad.append(({"form:staleAfterEdit", "switch:freeToFixed"}, {"fixed_flag": sw["fixed"], "expected_symbols": sorted(new["symbols"]), "observed_symbols": sw["symbols"]}))
        sw2 = dump_after_switch(text, "\n".join(stmts) + "\n")
        if (not free_undetectable(stmts)) and (sw2["fixed"] is not False or sw2["symbols"] != sorted(base["symbols"])):
            bad.append(({"form:staleAfterEdit", "switch:fixedToFree"}, {"fixed_flag": sw2["fixed"], "expected_symbols": sorted(base["symbols"]), "observed_symbols": sw2["symbols"]}))
    # spec cross-check: the original dump must be what the spec expects (ties to C04/C07)
    tags_ops = {"op:" + o["k"] for o in lay["ops"]}
    # ... or the reference rendering itself offers no free-form cue (then its dump is the misclassified one)
    if (not fixed and free_undetectable(phys)) or free_undetectable(stmts):
        tags_ops.add("form:freeUndetectable")
    joins = [o["at"] for o in lay["ops"] if o["k"] == "join"]
    for j in joins:
        a, b = prog_state["prog"][j - 2], prog_state["prog"][j - 1]
        tags_ops.add("join:%s+%s" % (a["op"] if a["op"] != "open" else a["kind"], b["op"] if b["op"] != "open" else b["kind"]))
        if b["op"] == "implicit" and a["op"] in ("use", "import"):
            tags_ops.add("join:useOrImport+implicit")
        if a["op"] == "contains" and b["op"] == "open" and b["kind"] in ("sub", "fun"):
            tags_ops.add("join:contains+proc")
    return ("done", [(t | tags_ops, dict(dct, text=text, original=stmts, ops=lay["ops"])) for t, dct in bad])


def gather_programs(ck, tier, rnd, want):
    progs = []
    info = {}
    for st in tlc.dump_states("FortranScopes", "FortranScopes_Gen_%s.cfg" % ("quick" if tier == "quick" else "quick"), info=info, timeout=3000,
                              prefilter=lambda t: "stack = <<>>" in t):
        if len(st["prog"]) >= 3:
            progs.append(st)
    ck.add_tlc("FortranScopes_Gen", info["result"])
    info = {}
    dprogs = []
    for st in tlc.dump_states("FortranScopes", "FortranScopes_GenDefect_quick.cfg", info=info, timeout=3000,
                              prefilter=lambda t: "stack = <<>>" in t and "defects = 1" in t):
        dprogs.append(st)
    ck.add_tlc("FortranScopes_GenDefect", info["result"])
    for beh in tlc.simulate("FortranScopes", "FortranScopes_Sim.cfg", num=want // 4, depth=16, seed=ck.seed + 31, workers=8, timeout=900):
        for _a, st in reversed(beh):
            if st["stack"] == [] and 3 <= len(st["prog"]) <= 12:
                progs.append(st)
                break
    info = {}
    sprogs = [st for st in tlc.dump_states("FortranScopes", "FortranScopes_GenSubmod.cfg", info=info, timeout=1800,
                                           prefilter=lambda t: "stack = <<>>" in t and '"submodule"' in t and '"typedvar"' in t)]
    ck.add_tlc("FortranScopes_GenSubmod", info["result"])
    rnd.shuffle(progs)
    rnd.shuffle(dprogs)
    rnd.shuffle(sprogs)
    return progs[: want * 2 // 3] + dprogs[: want // 3] + sprogs[: max(20, want // 10)]


def run(ck, tier, rnd, fixed, scale=1.0, opk_free=None):
    r = tlc.mc("Layout", "Layout_MC.cfg", timeout=600)
    ck.add_tlc("Layout_MC", r)
    if not r.ok:
        ck.machinery("Layout_MC violated %s" % r.violated)
        return
    want = int((400 if tier == "quick" else 4000) * scale)
    progs = gather_programs(ck, tier, rnd, want)
    lay_cache = {}
    jobs = []
    opk = '{"blank", "comment", "split", "fixed", "tcomment", "icomment"}' if fixed else (opk_free or OPK_FREE)
    for p in progs:
        n = len(p["prog"])
        if n not in lay_cache:
            sts, res = layouts_for(n, 2 if not fixed else 3, opk)
            if res:
                ck.add_tlc("Layout_N%d" % n, res)
            if fixed:
                sts = [s for s in sts if s["form"] == "fixed"]
            # compositions of three operations by simulation
            more, _ = layouts_for(n, 3 if not fixed else 4, opk, nsim=120, seed=ck.seed + n)
            if fixed:
                more = [s for s in more if s["form"] == "fixed"]
            lay_cache[n] = sts + more
        lays = lay_cache[n]
        if not lays:
            continue
        k = 10 if tier == "quick" else 40
        for lay in rnd.sample(lays, min(k, len(lays))):
            jobs.append((p, lay, fixed))
    skipped = 0
    for i, status, val in par.pmap(check, jobs, item_timeout=180):
        if status != "done":
            ck.violation({"replay:" + status}, {"kind": "layout", "state": jobs[i][0], "layout": jobs[i][1], "fixed": fixed, "detail": val})
            continue
        if val[0] == "skip":
            skipped += 1
            continue
        ck.count(key=(json.dumps(jobs[i][0]["prog"], sort_keys=True), json.dumps(jobs[i][1]["ops"], sort_keys=True)))
        ck.traces += 1
        for tags, detail in val[1]:
            detail.update(kind="layout", state=jobs[i][0], layout=jobs[i][1], fixed=fixed)
            ck.violation(tags, detail)
    ck.note("layout_jobs", len(jobs))
    ck.note("not_applicable_layouts_skipped", skipped)
    for j in jobs[:: max(1, len(jobs) // 3)][:3]:
        try:
            text, _ = layout.apply(fscopes.render(j[0]["prog"]), j[1], {i for i, s in enumerate(j[0]["prog"]) if s["op"] == "open" and s["depth"] == 0})
            ck.sample({"ops": j[1]["ops"], "line_map": j[1]["lmap"], "text": text})
        except layout.NotApplicable:
            pass


def sample_source_job(job):
    """A sample source re-laid-out line-wise (every physical line is a unit): blank / comment lines, EOL kind,
    trailing blanks, letter case.  Dump compared through the spec's LineMap."""
    rel, text, lay = job
    lines = text.split("\n")
    if lines and lines[-1] == "":
        lines = lines[:-1]
    n = len(lines)
    before = [[] for _ in range(n)]
    joined = [False] * n
    tcom = set()
    for op in lay["ops"]:
        if op["k"] in ("blank", "comment"):
            before[op["at"] - 1].append("" if op["k"] == "blank" else "! layout comment")
        elif op["k"] == "join":
            joined[op["at"] - 1] = True
        elif op["k"] == "tcomment":
            tcom.add(op["at"] - 1)
    fixed_src = rel.lower().endswith((".f", ".for", ".f77"))

    def simple(i):
        """physical line i is one complete statement that may be joined with `;` / take a trailing comment"""
        if not (0 <= i < n):
            return False
        l = lines[i]
        t = l.strip()
        return bool(t) and not t.startswith(("!", "#", "&")) and "!" not in l and "&" not in l and ";" not in l and not t[0].isdigit() \
            and not t.lower().startswith("include") and not (i > 0 and lines[i - 1].rstrip().endswith("&"))
    if (any(joined) or tcom) and fixed_src:
        return "skip"
    for i in range(n):
        if joined[i] and (i == 0 or before[i] or not simple(i) or not simple(i - 1) or joined[i - 1] or (i - 1) in tcom):
            return "skip"
        if i in tcom and not simple(i):
            return "skip"
    phys = []
    for i, l in enumerate(lines):
        for b in before[i]:
            phys.append(("C layout comment" if fixed_src and b else b))
        if i in tcom:
            l = l.rstrip() + "  ! layout comment"
        if joined[i]:
            phys[-1] = phys[-1].rstrip() + "; " + l.strip()
        else:
            phys.append(l)
    out = []
    # macro names are case-sensitive: a source with preprocessor directives keeps its letter case
    has_pp = any(l.lstrip().startswith("#") for l in lines)
    for l in phys:
        if l.startswith("#") or lay["case"] == "asis" or has_pp:
            out.append(l)
        else:
            # comments keep their text (doc comments are content); only code outside strings changes case
            code = l
            cpos = None
            q = None
            for k, ch in enumerate(l):
                if q:
                    if ch == q:
                        q = None
                elif ch in "'\"":
                    q = ch
                elif ch == "!":
                    cpos = k
                    break
            if fixed_src and l[:1] in "cC*!dD":
                out.append(l)
                continue
            head = l if cpos is None else l[:cpos]
            tail = "" if cpos is None else l[cpos:]
            out.append(layout.change_case(head, lay["case"]) + tail)
    if lay["trail"]:
        out = [l + "   " for l in out]
    new_text = layout.EOLS[lay["eol"]].join(out) + layout.EOLS[lay["eol"]]
    fname = "s" + os.path.splitext(rel)[1]
    base = dump(text, fname, "")
    new = dump(new_text, fname, "")
    lmap = lay["lmap"]

    def m(l0):
        return lmap[l0] - 1 if 0 <= l0 < len(lmap) else l0 + (lmap[-1] - len(lmap) if lmap else 0)
    bad = []
    want_syms = sorted((nm, k, c, m(a), m(b)) for nm, k, c, a, b in base["symbols"])
    if want_syms != sorted(new["symbols"]):
        bad.append(({"diff:symbols", "source:sample"}, {"expected": want_syms[:20], "observed": sorted(new["symbols"])[:20]}))
    want_d = sorted((c, s, m(l)) for c, s, l in base["diags"])
    if want_d != sorted(new["diags"]):
        bad.append(({"diff:diagnostics", "source:sample"}, {"expected": want_d[:20], "observed": sorted(new["diags"])[:20]}))
    if base["fixed"] != new["fixed"]:
        und = {"form:freeUndetectable"} if (not fixed_src and new["fixed"] and free_undetectable(out)) else set()
        bad.append(({"form:changed", "source:sample"} | und, {"before": base["fixed"], "after": new["fixed"]}))
    elif base["hover"] != new["hover"]:
        keys = sorted(k for k in set(base["hover"]) | set(new["hover"]) if base["hover"].get(k) != new["hover"].get(k))
        bad.append(({"diff:entities", "source:sample"}, {"differing": keys[:10], "sample": {k: {"before": base["hover"].get(k), "after": new["hover"].get(k)} for k in keys[:3]}}))
    tags = {"op:" + o["k"] for o in lay["ops"]}
    return [(t | tags, dict(x, file=rel, ops=lay["ops"])) for t, x in bad]


def sample_sources_part(ck, tier, rnd):
    from .common import REPO
    import re
    src = os.path.join(REPO, "test", "test_source")
    files = []
    for root, _d, fs in sorted(os.walk(src)):
        for fn in sorted(fs):
            if re.search(r"\.(f|for|f90|f95|f03|f08|F90|F)$", fn):
                p = os.path.join(root, fn)
                try:
                    t = open(p, encoding="utf-8").read().replace("\r\n", "\n").replace("\t", " ")
                except (OSError, UnicodeDecodeError):
                    continue
                if 3 <= t.count("\n") <= 80:
                    files.append((os.path.relpath(p, src), t))
    rnd.shuffle(files)
    files = files[: (30 if tier == "quick" else len(files))]
    jobs = []
    # the Layout.tla simulations (one per distinct line count and operation set) run side by side
    from concurrent.futures import ThreadPoolExecutor
    ns = sorted({len(t.split("\n")) - (1 if t.endswith("\n") else 0) for _r, t in files})
    with ThreadPoolExecutor(max_workers=8) as ex:
        list(ex.map(lambda n: layouts_for(n, 3, '{"blank", "comment", "eol", "case", "trail"}', nsim=16 if tier == "quick" else 60, seed=ck.seed), ns))
        list(ex.map(lambda n: layouts_for(n, 2, '{"join", "tcomment", "case"}', nsim=60 if tier == "quick" else 400, seed=ck.seed + 1), ns))
    for rel, t in files:
        n = len(t.split("\n")) - (1 if t.endswith("\n") else 0)
        lays, _ = layouts_for(n, 3, '{"blank", "comment", "eol", "case", "trail"}', nsim=16 if tier == "quick" else 60, seed=ck.seed)
        for lay in lays[: (3 if tier == "quick" else 20)]:
            if lay["ops"]:
                jobs.append((rel, t, lay))
        # statement-level operations applied line-wise where a physical line is one complete statement:
        # `;` joins and trailing comments (layouts that hit other lines are skipped)
        lays, _ = layouts_for(n, 2, '{"join", "tcomment", "case"}', nsim=60 if tier == "quick" else 400, seed=ck.seed + 1)
        for lay in lays:
            if any(o["k"] in ("join", "tcomment") for o in lay["ops"]):
                jobs.append((rel, t, lay))
    nskip = 0
    for i, status, val in par.pmap(sample_source_job, jobs, item_timeout=180):
        if status == "done" and val == "skip":
            nskip += 1
            continue
        ck.count(key=("sample", jobs[i][0], json.dumps(jobs[i][2]["ops"], sort_keys=True)))
        if status != "done":
            ck.violation({"replay:" + status, "source:sample"}, {"kind": "sample", "file": jobs[i][0], "detail": val})
            continue
        ck.traces += 1
        for tags, detail in val:
            detail["kind"] = "sample"
            ck.violation(tags, detail)
    ck.note("sample_source_layouts", len(jobs) - nskip)
    ck.note("sample_source_layouts_skipped_not_applicable", nskip)


def main(tier, seed):
    ck = Check("C13", tier, seed)
    ck.assumptions = [
        "programs from FortranScopes.tla (valid and single-defect); layouts from Layout.tla: blank/comment lines, & continuation with and without leading &, ; joining, LF/CRLF/CR, letter case, trailing blanks; compositions of up to 3",
        "statements are split only at a blank between tokens (not inside a lexical token); joins never cross a program-unit boundary",
        "the dump compared is documentSymbol (name, kind, container, first/last line) plus diagnostics (class, severity, line), lines mapped through the spec's LineMap",
    ]
    run(ck, tier, random.Random(seed), fixed=False)
    sample_sources_part(ck, tier, random.Random(seed + 2))
    return ck.finish()


def replay(path):
    rec = json.load(open(path))
    st, val = check((rec["state"], rec["layout"], rec.get("fixed", False)))
    print(st, json.dumps(val, default=str)[:1500])
    return 1 if st == "done" and val else 0
