"""C05 via NameRes.tla (see harness/nameres.py)."""
import json

from . import nameres

ASSUME = [
    "universes: modules m1, m2 (m2 may USE m1), program p (may USE both) with internal procedure q; names x, y and the rename lx; explicit and default accessibility; ONLY lists and renames; all standard-conforming combinations (Valid) are initial states of NameRes.tla",
    "the binding of every identifier token comes from the spec state (res); tokens inside rename clauses (lx => x) are don't-care",
    "not modelled here: INCLUDE, % chains / EXTENDS (see DESIGN.md), generic resolution",
]


def main(tier, seed):
    return nameres.run("C05", nameres.check_c05, tier, seed, ASSUME).finish()


def replay(path):
    rec = json.load(open(path))
    res = nameres.check_c05((nameres.state_from_py(rec["state"]), rec["seed"]))
    for t, d in res:
        print(sorted(t), json.dumps({k: v for k, v in d.items() if k != "files"}, default=str)[:600])
    return 1 if res else 0
