"""Replay of UseGraph.tla universes: USE association along a diamond with ONLY lists (C05)."""
from __future__ import annotations

import os

from . import adapter, par, tlc

ONLY = {"all": "", "alpha": ", only: alpha", "beta": ", only: beta", "both": ", only: alpha, beta"}


def render(st):
    files = {
        "store.f90": "module store\n  implicit none\n  integer :: alpha = 1\n  integer :: beta = 2\nend module store\n",
        "hub.f90": "module hub\n  use store%s\n  implicit none\nend module hub\n" % ONLY[st["hubF"]],
        "ma.f90": "module ma\n  use hub%s\n  implicit none\nend module ma\n" % ONLY[st["maF"]],
        "mb.f90": "module mb\n  use hub%s\n  implicit none\nend module mb\n" % ONLY[st["mbF"]],
    }
    uses = ["  use ma%s" % ONLY[st["pA"]], "  use mb%s" % ONLY[st["pB"]]]
    if not st["maFirst"]:
        uses.reverse()
    body = ["program main"] + uses + ["  implicit none"]
    refs = []
    for n in ("alpha", "beta"):
        if n in st["visible"]:
            body.append("  %s = %s + 1" % (n, n))
            refs.append((n, len(body) - 1, 2))
    body.append("end program main")
    files["main.f90"] = "\n".join(body) + "\n"
    return files, refs


def check(st):
    files, refs = render(st)
    d = adapter.mkws(files)
    bad = []
    try:
        s, c = adapter.mkserver(d)
        for f in files:
            adapter.did_open(s, c, d, f)
        for n, ln, col in refs:
            r = adapter.result_of(adapter.request(s, c, "textDocument/definition", adapter.posparams(d, "main.f90", ln, col + 1)))
            got = None
            if isinstance(r, dict) and "uri" in r:
                got = (os.path.basename(adapter.path_from_uri(r["uri"])), r["range"]["start"]["line"])
            exp = ("store.f90", 2 if n == "alpha" else 3)
            if got != exp:
                bad.append(({"usegraph:definition", "name:" + n, "hub:" + st["hubF"], "ma:" + st["maF"], "mb:" + st["mbF"], "p.ma:" + st["pA"], "p.mb:" + st["pB"]},
                            {"name": n, "expected": exp, "observed": got, "files": files}))
    finally:
        adapter.rmws(d)
    return bad


def run(ck, tier):
    r = tlc.mc("UseGraph", "UseGraph_MC.cfg", timeout=300)
    ck.add_tlc("UseGraph_MC", r)
    if not r.ok:
        ck.machinery("UseGraph_MC violated %s" % r.violated)
        return
    info = {}
    states = list(tlc.dump_states("UseGraph", "UseGraph_MC.cfg", info=info))
    ck.add_tlc("UseGraph_Gen", info["result"])
    if tier == "quick":
        states = states[::2]
    for i, status, val in par.pmap(check, states, item_timeout=120):
        ck.count(key=("usegraph", repr(sorted((k, repr(v)) for k, v in states[i].items()))))
        if status != "done":
            ck.violation({"replay:" + status, "usegraph"}, {"kind": "usegraph", "state": states[i], "detail": val})
            continue
        ck.traces += 1
        for tags, detail in val:
            detail.update(kind="usegraph", state=states[i])
            ck.violation(tags, detail)
    ck.note("usegraph_universes", len(states))
