"""Replay of UseGraph.tla universes: USE association along a diamond with ONLY lists (C05)."""
from __future__ import annotations

import os

from . import adapter, par, tlc

ONLY = {"all": "", "alpha": ", only: alpha", "beta": ", only: beta", "both": ", only: alpha, beta"}


def _acc(st, mod, offered):
    """PRIVATE by default plus an explicit PUBLIC statement for every name the module offers (no change for clients)."""
    if st.get("priv") != mod or not offered:
        return ""
    return "  private\n  public :: %s\n" % ", ".join(sorted(offered))


def _pass(f, names):
    return set(names) if f in ("all", "both") else set(names) & {f}


def render(st):
    vis_hub = _pass(st["hubF"], {"alpha", "beta"})
    vis_ma = _pass(st["maF"], vis_hub)
    files = {
        "store.f90": "module store\n  implicit none\n  integer :: alpha = 1\n  integer :: beta = 2\nend module store\n",
        "hub.f90": "module hub\n  use store%s\n  implicit none\n%send module hub\n" % (ONLY[st["hubF"]], _acc(st, "hub", vis_hub)),
        "ma.f90": "module ma\n  use hub%s\n  implicit none\n%send module ma\n" % (ONLY[st["maF"]], _acc(st, "ma", vis_ma)),
        "mb.f90": "module mb\n  use hub%s\n  implicit none\nend module mb\n" % ONLY[st["mbF"]],
    }
    only_a = ONLY[st["pA"]].replace("alpha", "la => alpha") if st.get("ren") else ONLY[st["pA"]]
    uses = ["  use ma%s" % only_a, "  use mb%s" % ONLY[st["pB"]]]
    if not st["maFirst"]:
        uses.reverse()
    body = ["program main"] + uses + ["  implicit none"]
    refs = []
    for n in ("alpha", "beta", "la"):
        if n in st["visible"]:
            body.append("  %s = %s + 1" % (n, n))
            refs.append((n, len(body) - 1, 2))
    body.append("end program main")
    files["main.f90"] = "\n".join(body) + "\n"
    return files, refs


def check(st):
    files, refs = render(st)
    d = adapter.mkws(files)
    bad = []
    try:
        s, c = adapter.mkserver(d)
        for f in files:
            adapter.did_open(s, c, d, f)
        for n, ln, col in refs:
            r = adapter.result_of(adapter.request(s, c, "textDocument/definition", adapter.posparams(d, "main.f90", ln, col + 1)))
            got = None
            if isinstance(r, dict) and "uri" in r:
                got = (os.path.basename(adapter.path_from_uri(r["uri"])), r["range"]["start"]["line"])
            exp = ("store.f90", 3 if n == "beta" else 2)
            if got != exp:
                # the rename on the path through ma meets an unrestricted second path (use mb) to the same module: the listed
                # finding C05-only-rename-lost-on-second-path (merged use-tree entry keeps one rename map)
                known = {"feature:renameAndSecondPathToSameModule"} if st.get("ren") and n == "la" and st["pB"] == "all" else set()
                bad.append((known | {"usegraph:definition", "name:" + n, "hub:" + st["hubF"], "ma:" + st["maF"], "mb:" + st["mbF"], "p.ma:" + st["pA"], "p.mb:" + st["pB"], "priv:" + str(st.get("priv")), "ren:" + str(st.get("ren"))},
                            {"name": n, "expected": exp, "observed": got, "files": files}))
    finally:
        adapter.rmws(d)
    return bad


def run(ck, tier):
    r = tlc.mc("UseGraph", "UseGraph_MC.cfg", timeout=300)
    ck.add_tlc("UseGraph_MC", r)
    if not r.ok:
        ck.machinery("UseGraph_MC violated %s" % r.violated)
        return
    info = {}
    states = list(tlc.dump_states("UseGraph", "UseGraph_MC.cfg", info=info))
    ck.add_tlc("UseGraph_Gen", info["result"])
    if tier == "quick":
        # half of the universes, chosen by a checksum of the state (a stride would drop one value of an alternating variable)
        import zlib
        states = [st for st in states if zlib.crc32(repr(sorted((k, repr(v)) for k, v in st.items())).encode()) % 2 == 0]
    for i, status, val in par.pmap(check, states, item_timeout=120):
        ck.count(key=("usegraph", repr(sorted((k, repr(v)) for k, v in states[i].items()))))
        if status != "done":
            ck.violation({"replay:" + status, "usegraph"}, {"kind": "usegraph", "state": states[i], "detail": val})
            continue
        ck.traces += 1
        for tags, detail in val:
            detail.update(kind="usegraph", state=states[i])
            ck.violation(tags, detail)
    ck.note("usegraph_universes", len(states))
