"""C01: one response per request, in order; server outlives handler failure.

LspServer.tla is model-checked (and its three named deviations must produce
counterexamples); every session TLC enumerates (LspServer_Gen) / simulates
(LspServer_Sim) is rendered to concrete JSON-RPC messages, run through the real
LangServer.run() loop over the real connection class, and the recorded
consume/write event trace is validated by TLC against LspServerTrace.tla.
"""
from __future__ import annotations

import copy
import json
import os
import random

from . import adapter, par, session, tlc
from .common import Check

FILES = {
    "a.f90": """module amod
  implicit none
  type :: t1
    integer :: c1
    real :: c2
  contains
    procedure :: bp => bp_impl
  end type t1
  integer, parameter :: n = 3
contains
  subroutine bp_impl(self, x)
    class(t1), intent(inout) :: self
    integer, intent(in) :: x
    self%c1 = x + n
  end subroutine bp_impl
  integer function fsum(a, b) result(r)
    integer, intent(in) :: a, b
    r = a + b
  end function fsum
end module amod
""",
    "b.f90": """program bprog
  use amod, only: t1, fsum, n
  implicit none
  type(t1) :: v
  integer :: k
  k = fsum(n, 2)
  call v%bp(k)
  v%c1 = k
  print *, v%c1, "text"
end program bprog
""",
    "c.f90": """module cmod
  integer, pointer :: p => p
  type, extends(tz) :: ty
  end type
contains
  subroutine s(a)
    integer :: a
    associate (q => q)
    end associate
""",
}
IDS = {"i1": 1, "i2": 2, "sA": "A"}


def td(d, f):
    return {"uri": adapter.uri(d, f)}


def render(cls, rid, d, rnd):
    """One concrete message for an abstract class."""
    f = rnd.choice(["a.f90", "b.f90", "b.f90", "c.f90"])
    nl = FILES[f].count("\n")
    line = rnd.randrange(nl)
    ch = rnd.randrange(0, 30)
    pos = {"line": line, "character": ch}
    if cls == "init":
        return {"jsonrpc": "2.0", "id": rid, "method": "initialize", "params": {"rootPath": d}}
    if cls == "shutdown":
        return rnd.choice([{"jsonrpc": "2.0", "id": rid, "method": "shutdown", "params": None},
                           {"jsonrpc": "2.0", "id": rid, "method": "shutdown"}])
    if cls == "known":
        m = rnd.choice(session.KNOWN_REQ)
        p = {"textDocument": td(d, f), "position": pos}
        if m == "workspace/symbol":
            p = {"query": rnd.choice(["", "a", "T1", "zz", "caf\u00e9", "\ud800q"])}
        elif m == "textDocument/documentSymbol":
            p = {"textDocument": td(d, f)}
        elif m == "textDocument/rename":
            p["newName"] = rnd.choice(["zz", "zz", "z\u00e9", "\udc00z"])
        elif m == "textDocument/references":
            p["context"] = {"includeDeclaration": True}
        elif m == "textDocument/codeAction":
            p = {"textDocument": td(d, f), "range": {"start": pos, "end": pos}, "context": {"diagnostics": []}}
        return {"jsonrpc": "2.0", "id": rid, "method": m, "params": p, "_cls": "known"}
    if cls == "malformed":
        m = rnd.choice(session.KNOWN_REQ)
        shape = rnd.randrange(9)
        msg = {"jsonrpc": "2.0", "id": rid, "method": m, "_cls": "malformed"}
        if shape == 0:
            pass  # params member absent
        elif shape == 1:
            msg["params"] = {}
        elif shape == 2:
            msg["params"] = None
        elif shape == 3:
            msg["params"] = {"textDocument": td(d, f), "position": {"line": "x", "character": None}}
        elif shape == 4:
            msg["params"] = {"textDocument": td(d, "nofile.f90"), "position": pos, "newName": "q", "query": 3}
        elif shape == 5:
            msg["params"] = {"textDocument": td(d, f), "position": {"line": 10 ** 6, "character": 10 ** 6}, "newName": "q"}
        elif shape == 6:
            msg["params"] = {"textDocument": td(d, f), "position": {"line": -3, "character": -1}, "newName": "q"}
        elif shape == 7:
            msg["params"] = {"textDocument": {"uri": "untitled:Untitled-1"}, "position": pos}
        else:
            msg["params"] = [1, 2, 3]
        return msg
    if cls == "unknown":
        return {"jsonrpc": "2.0", "id": rid, "method": rnd.choice(["foo/bar", "textDocument/foo", "$/unknownReq", "", "textDocument/hoverX", "workspace/executeCommand",
                                                                         "caf\u00e9/\U0001f600", "custom/\ud800probe"]),
                "params": rnd.choice([{}, None, {"textDocument": td(d, f)}])}
    if cls == "sync":
        m = rnd.choice(session.SYNC)
        p = {"textDocument": td(d, f)}
        if m == "textDocument/didChange":
            p["contentChanges"] = [{"range": {"start": {"line": line, "character": 0}, "end": {"line": line, "character": 0}},
                                    "text": rnd.choice([" ", "x", "\n", "integer :: zz\n", ""])}]
        return {"jsonrpc": "2.0", "method": m, "params": p}
    if cls == "syncbad":
        m = rnd.choice(session.SYNC)
        shape = rnd.randrange(7)
        msg = {"jsonrpc": "2.0", "method": m, "_cls": "syncbad"}
        if shape == 0:
            pass
        elif shape == 1:
            msg["params"] = {}
        elif shape == 2:
            msg["params"] = {"textDocument": td(d, "ghost.f90"), "contentChanges": [{"text": "x"}]}
        elif shape == 3:
            msg["params"] = {"textDocument": td(d, f), "contentChanges": [{"range": {"start": {"line": 9999, "character": 5}, "end": {"line": 3, "character": 0}}, "text": "q"}]}
        elif shape == 4:
            msg["params"] = {"textDocument": td(d, f), "contentChanges": []}
        elif shape == 5:
            msg["params"] = {"textDocument": td(d, f), "contentChanges": [{"range": None}]}
        else:
            msg["params"] = None
        return msg
    if cls == "other":
        return {"jsonrpc": "2.0", "method": rnd.choice(session.OTHER_NOTE), "params": rnd.choice([{}, None, {"id": 1}])}
    if cls == "unknownN":
        return {"jsonrpc": "2.0", "method": rnd.choice(["foo/note", "$/progress", "workspace/didChangeWorkspaceFolders", "textDocument/willSave", "", "n\u00f8te/\udfff"]),
                "params": {}}
    if cls == "exit":
        return {"jsonrpc": "2.0", "method": "exit"}
    raise ValueError(cls)


def render_session(hist, d, seed, with_init):
    rnd = random.Random(seed)
    msgs = []
    if with_init:
        msgs.append({"jsonrpc": "2.0", "id": 0, "method": "initialize", "params": {"rootPath": d}, "_cls": "init"})
        msgs.append({"jsonrpc": "2.0", "method": "textDocument/didOpen", "params": {"textDocument": td(d, "b.f90")}})
    exited = False
    for h in hist:
        m = render(h["cls"], IDS.get(h["id"]), d, rnd)
        m.setdefault("_cls", h["cls"])
        msgs.append(m)
        if h["cls"] == "exit":
            exited = True
    if not exited:
        # liveness-as-safety: the session must still answer a probe at the end
        msgs.append({"jsonrpc": "2.0", "id": "probe", "method": "workspace/symbol", "params": {"query": "amod"}, "_cls": "known"})
    return msgs


_WS = {}


def _run_one(job):
    hist, seed, with_init = job
    d = _WS["d"]
    msgs = render_session(hist, d, seed, with_init)
    events, _s, _c = session.run_session(msgs, geometry=False)
    return {"events": events, "msgs": [{k: v for k, v in m.items()} for m in msgs]}


def event_tags(tr, upto):
    tags = set()
    evs = tr["events"]
    if 1 <= upto <= len(evs):
        e = evs[upto - 1]
        tags.add("event:" + e["k"])
        if e["k"] == "resp":
            tags.add("tag:" + e.get("tag", "?"))
            tags.add("respid:" + e.get("id", "?"))
        if e["k"] == "end":
            tags.add("unread:%s" % ("some" if e.get("unread") else "0"))
        # what was consumed last
        for p in reversed(evs[:upto - 1]):
            if p["k"] in ("req", "note"):
                tags.add("after:" + p["cls"])
                tags.add("method:" + str(p.get("method")))
                break
    return tags


def strip(tr):
    """Events as TLC sees them (fixed field set)."""
    out = []
    for e in tr:
        if e["k"] in ("req", "note"):
            out.append({"k": e["k"], "id": e["id"], "cls": e["cls"]})
        elif e["k"] == "resp":
            out.append({"k": "resp", "id": e["id"], "tag": e["tag"], "json": e["json"], "ranges": e.get("ranges", [])})
        elif e["k"] == "nout":
            out.append({"k": "nout", "json": e["json"], "ranges": e.get("ranges", [])})
        elif e["k"] == "end":
            out.append({"k": "end", "unread": e["unread"]})
        else:
            out.append({"k": e["k"]})
    return out


def validate(ck, traces, strict=False, label="LspServerTrace", batch=4000):
    """traces: list of dict(events=..., ...).  Returns list of (index, reached)."""
    bad = []
    for off in range(0, len(traces), batch):
        chunk = traces[off:off + batch]
        reached, r = tlc.validate_traces("LspServerTrace", "LspServerTrace.cfg",
                                         {"strict": strict, "traces": [strip(t["events"]) for t in chunk]}, timeout=1800)
        ck.add_tlc(label, r)
        for i, t in enumerate(chunk, 1):
            got = reached.get(i, 0)
            if got == len(t["events"]) + 1:
                ck.traces += 1
            else:
                bad.append((off + i - 1, got))
    return bad


def main(tier, seed):
    ck = Check("C01", tier, seed)
    ck.assumptions = [
        "well-formed JSON-RPC messages only (valid JSON, valid framing, a 'method' member); batches are not generated",
        "one handled message = one atomic action (the server is single-threaded)",
        "message classes are rendered to concrete methods/params by a seeded choice; the class decides the allowed response tags",
    ]
    r = tlc.mc("LspServer", "LspServer_MC.cfg", required_actions=["Request", "Notification"], timeout=1200)
    ck.add_tlc("LspServer_MC", r)
    if not r.ok:
        ck.machinery("LspServer_MC violated %s" % r.violated)
        return ck.finish()
    for dv in ["diagAsResponse", "dieOnError", "dropOnError"]:
        rr = tlc.run("LspServer", "LspServer_Dev_%s.cfg" % dv, timeout=300)
        ck.add_tlc("LspServer_Dev_%s (expected counterexample)" % dv, rr)
        if rr.ok:
            ck.machinery("model self-test: deviation %s not detected" % dv)

    d = adapter.mkws(FILES)
    _WS["d"] = d
    try:
        jobs = []
        info = {}
        for st in tlc.dump_states("LspServer", "LspServer_Gen_%s.cfg" % tier, info=info):
            if not st["hist"]:
                continue
            for with_init in (True, False):
                jobs.append((st["hist"], seed * 1000003 + len(jobs), with_init))
        ck.add_tlc("LspServer_Gen", info["result"])
        nsim = 300 if tier == "quick" else 3000
        for beh in tlc.simulate("LspServer", "LspServer_Sim.cfg", num=nsim, depth=13, seed=seed + 7):
            hist = beh[-1][1]["hist"]
            jobs.append((hist, seed * 7919 + len(jobs), True))
        traces = [None] * len(jobs)
        for i, status, val in par.pmap(_run_one, jobs, item_timeout=120):
            if status == "done":
                traces[i] = val
            else:
                ck.violation({"session:" + status} | {"cls:" + h["cls"] for h in jobs[i][0]},
                             {"kind": "session", "status": status, "detail": val, "hist": jobs[i][0], "seed": jobs[i][1], "with_init": jobs[i][2]})
        idx = [i for i, t in enumerate(traces) if t is not None]
        bad = validate(ck, [traces[i] for i in idx])
        for k, got in bad:
            i = idx[k]
            tr = traces[i]
            ck.violation(event_tags(tr, got), {"kind": "session", "hist": jobs[i][0], "seed": jobs[i][1], "with_init": jobs[i][2],
                                               "messages": tr["msgs"], "events": tr["events"], "first_unexplained_event_index": got})
        for i in idx:
            ck.count(key=json.dumps(traces[i]["events"], sort_keys=True))
        for i in idx[:: max(1, len(idx) // 3)][:3]:
            ck.sample({"abstract_session": jobs[i][0], "events": traces[i]["events"][:12]})
        ck.note("sessions", len(jobs))
        # binding self-test: drop one response / change one id in an accepted trace
        good = next((traces[i] for i in idx if sum(1 for e in traces[i]["events"] if e["k"] == "resp") >= 2), None)
        if good:
            for mut in ("drop", "id"):
                t2 = copy.deepcopy(good)
                j = [k for k, e in enumerate(t2["events"]) if e["k"] == "resp"][1]
                if mut == "drop":
                    del t2["events"][j]
                else:
                    t2["events"][j]["id"] = "i:424242"
                ck2 = Check("C01", tier, seed)
                if not validate(ck2, [t2]):
                    ck.machinery("binding self-test: corrupted trace (%s) accepted" % mut)
            ck.note("binding_selftest", "dropped response and wrong id both rejected")
    finally:
        adapter.rmws(d)
    return ck.finish()


def replay(path):
    rec = json.load(open(path))
    d = adapter.mkws(FILES)
    _WS["d"] = d
    try:
        out = _run_one((rec["hist"], rec["seed"], rec["with_init"]))
        ck = Check("C01", "quick", 0)
        bad = validate(ck, [out])
        for e in out["events"]:
            print(e)
        print("REJECTED at event %d" % bad[0][1] if bad else "ACCEPTED")
        return 1 if bad else 0
    finally:
        adapter.rmws(d)
