CONSTANTS MaxLines = 8 MaxDepth = 3 Mode = "valid" UnitKinds = {"module", "submodule"} ConstructKinds = {}
SPECIFICATION SpecSubmod
