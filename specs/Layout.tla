------------------------------- MODULE Layout -------------------------------
(***************************************************************************)
(* Meaning-preserving re-layout of a source file (C13, C14).               *)
(*                                                                         *)
(* A program is N statements.  A layout assigns to every statement the     *)
(* physical line it starts on (`first`) and the number of physical lines   *)
(* it occupies (`span`); `extra` counts blank/comment lines inserted       *)
(* before each statement.  Each Relayout action changes only the layout;   *)
(* the abstract program (entities, nesting, diagnostics) is untouched, so  *)
(* everything the server reports for the re-laid-out file must equal what  *)
(* it reports for the original, with line numbers mapped through `first`.  *)
(***************************************************************************)
EXTENDS Naturals, Sequences, FiniteSets, TLC
CONSTANTS N, MaxOps, OpKinds

VARIABLES span,     \* statement -> number of physical lines it occupies (continuations)
          extra,    \* statement -> inserted blank/comment lines directly before it
          joined,   \* statement -> TRUE if it shares its physical line with the previous statement (";")
          eol,      \* "LF" | "CRLF" | "CR"
          case,     \* "asis" | "upper" | "lower" | "mixed"
          trail,    \* trailing blanks on every line
          form,     \* "free" | "fixed"
          ops,      \* the transformations applied, in order
          lmap      \* statement -> physical line it starts on (= LineMap, carried for the replay harness)
vars == <<span, extra, joined, eol, case, trail, form, ops, lmap>>

Stmts == 1..N
RECURSIVE First(_)
\* physical line (1-based) on which statement i starts
First(i) == IF i = 1 THEN 1 + extra[1]
            ELSE IF joined[i] THEN First(i - 1)
            ELSE First(i - 1) + span[i - 1] + extra[i]
LineMap == [i \in Stmts |-> First(i)]
Total == First(N) + span[N] - 1

Init == /\ span = [i \in Stmts |-> 1] /\ extra = [i \in Stmts |-> 0] /\ joined = [i \in Stmts |-> FALSE]
        /\ eol = "LF" /\ case = "asis" /\ trail = FALSE /\ form = "free" /\ ops = <<>>
        /\ lmap = [i \in Stmts |-> i]

Can(k) == Len(ops) < MaxOps /\ k \in OpKinds
Log(r) == ops' = Append(ops, r)

InsertBlank(i)   == Can("blank") /\ ~joined[i] /\ extra' = [extra EXCEPT ![i] = @ + 1] /\ Log([k |-> "blank", at |-> i])
                    /\ UNCHANGED <<span, joined, eol, case, trail, form>>
InsertComment(i) == Can("comment") /\ ~joined[i] /\ extra' = [extra EXCEPT ![i] = @ + 1] /\ Log([k |-> "comment", at |-> i])
                    /\ UNCHANGED <<span, joined, eol, case, trail, form>>
\* split statement i over a continuation line ("&" at the end, optionally "&" at the start of the next)
SplitAmp(i, lead) == /\ Can("split") /\ ~joined[i] /\ (i < N => ~joined[i + 1]) /\ span[i] < 3
                     /\ span' = [span EXCEPT ![i] = @ + 1] /\ Log([k |-> "split", at |-> i, lead |-> lead])
                     /\ UNCHANGED <<extra, joined, eol, case, trail, form>>
\* join statement i to the previous one with ";"
Join(i) == /\ Can("join") /\ i > 1 /\ ~joined[i] /\ extra[i] = 0 /\ span[i] = 1 /\ span[i - 1] = 1 /\ form = "free"
           /\ joined' = [joined EXCEPT ![i] = TRUE] /\ Log([k |-> "join", at |-> i])
           /\ UNCHANGED <<span, extra, eol, case, trail, form>>
SetEol(e)  == Can("eol") /\ e # eol /\ eol' = e /\ Log([k |-> "eol", e |-> e]) /\ UNCHANGED <<span, extra, joined, case, trail, form>>
SetCase(c) == Can("case") /\ c # case /\ case' = c /\ Log([k |-> "case", c |-> c]) /\ UNCHANGED <<span, extra, joined, eol, trail, form>>
\* a trailing comment that contains a ";" (it must not be taken for a statement separator)
\* `first`: on a continued statement the comment follows the FIRST physical line (behind its "&")
TrailComment(i, fst) == /\ Can("tcomment") /\ (fst => span[i] > 1) /\ Log([k |-> "tcomment", at |-> i, first |-> fst])
                        /\ UNCHANGED <<span, extra, joined, eol, case, trail, form>>
\* a comment line or a blank line BETWEEN the physical lines of a continued statement: the statement occupies
\* one more physical line, everything below shifts by one
InnerComment(i, what) == /\ Can("icomment") /\ span[i] > 1 /\ span[i] < 5
                         /\ span' = [span EXCEPT ![i] = @ + 1] /\ Log([k |-> "icomment", at |-> i, what |-> what])
                         /\ UNCHANGED <<extra, joined, eol, case, trail, form>>
\* remove all indentation (free form stays free form)
FlushLeft == /\ Can("flush") /\ form = "free" /\ ~\E j \in 1..Len(ops) : ops[j].k = "flush"
             /\ Log([k |-> "flush"]) /\ UNCHANGED <<span, extra, joined, eol, case, trail, form>>
Trail      == Can("trail") /\ ~trail /\ trail' = TRUE /\ Log([k |-> "trail"]) /\ UNCHANGED <<span, extra, joined, eol, case, form>>
ToFixed(flag) == /\ Can("fixed") /\ form = "free" /\ \A i \in Stmts : ~joined[i]
                 /\ form' = "fixed" /\ Log([k |-> "fixed", flag |-> flag])
                 /\ UNCHANGED <<span, extra, joined, eol, case, trail>>

Step == \/ \E i \in Stmts : InsertBlank(i) \/ InsertComment(i) \/ Join(i)
        \/ \E i \in Stmts, lead \in BOOLEAN : SplitAmp(i, lead)
        \/ \E e \in {"LF", "CRLF", "CR"} : SetEol(e)
        \/ \E c \in {"upper", "lower", "mixed"} : SetCase(c)
        \/ Trail \/ FlushLeft
        \/ \E i \in Stmts, fst \in BOOLEAN : TrailComment(i, fst)
        \/ \E i \in Stmts, w \in {"comment", "blank"} : InnerComment(i, w)
        \/ \E f \in {"C", "c", "*", "!", "d"} : ToFixed(f)
Next == Step /\ lmap' = LineMap'
Spec == Init /\ [][Next]_vars

Monotone == \A i \in 1..(N - 1) : LineMap[i] <= LineMap[i + 1]
StrictUnlessJoined == \A i \in 2..N : (LineMap[i] = LineMap[i - 1]) <=> joined[i]
\* inserting k lines above a statement shifts it by exactly k
ShiftLaw == \A i \in Stmts : LineMap[i] = i + (LET S == {j \in 1..i : TRUE} IN 0)
                + (LET RECURSIVE Sum(_) Sum(j) == IF j = 0 THEN 0 ELSE Sum(j - 1) + extra[j] + (IF j < i THEN span[j] - 1 ELSE 0) - (IF joined[j] THEN 1 ELSE 0) IN Sum(i))
MapIsLineMap == lmap = LineMap
TotalLaw == Total >= N - Cardinality({i \in Stmts : joined[i]})
View == <<span, extra, joined, eol, case, trail, form>>
=============================================================================
