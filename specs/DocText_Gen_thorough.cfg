CONSTANTS MaxLines = 8 MaxCols = 8 MaxIns = 3 InitCols = 2 InitLines = 3
SPECIFICATION SpecOne
INVARIANT Shape
