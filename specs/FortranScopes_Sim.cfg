CONSTANTS MaxLines = 30 MaxDepth = 4 Mode = "valid" UnitKinds = {"module", "submodule", "program", "sub", "fun"} ConstructKinds = {"block", "do", "ldo", "if", "select", "associate", "where"}
SPECIFICATION SpecValid
