------------------------------ MODULE Preproc ------------------------------
(***************************************************************************)
(* The C-style preprocessor pass of fortls (C08, C17, part of C03).        *)
(*                                                                         *)
(* A behaviour builds a source file line by line; each action is one       *)
(* physical line (a directive or a code line).  Two layers:                *)
(*                                                                         *)
(*  reference layer   `frames`: the conditional stack of a C preprocessor  *)
(*                    ([live, taken, parentLive, seenElse]), `defs`: the   *)
(*                    macro table, `live`: whether code at this point is   *)
(*                    active.                                              *)
(*  implementation-   `stack`, `group`: a transcription of the two lists   *)
(*  shaped layer      pp_stack / pp_stack_group of preprocess_file with    *)
(*                    their sentinel encoding (start = 0 stands for -1:    *)
(*                    "this region is active"), `skips`: the closed skip   *)
(*                    regions, `idefs`: its macro table (defines are only  *)
(*                    taken while no open region is being skipped).        *)
(*                                                                         *)
(* TLC checks ImplAgrees: in every reachable state the implementation-     *)
(* shaped layer considers the current point live iff the reference does,   *)
(* and the two macro tables coincide.  `effects` is the set of side        *)
(* effects preprocessing has had on the outside world; no action adds one  *)
(* (C17).                                                                  *)
(***************************************************************************)
EXTENDS Naturals, Sequences, SequencesExt, FiniteSets, TLC

CONSTANTS Names,      \* macro names, e.g. {"A", "B"}
          Vals,       \* macro values: "empty", "v0", "v1", "v2" (numeric 0..2), others = opaque text
          MaxLines, MaxDepth,
          ExprDepth,  \* nesting of #if expressions
          AllowBare,  \* allow "#if X" / comparisons on non-numeric macros (C17 mode, no reference claim)
          RelSet,     \* comparison operators used in #if expressions
          AtomKinds,  \* which atom kinds #if expressions use: subset of {"def","defsp","cmp","lit"}
          StaleGroup  \* named deviation: #endif of an active region forgets to pop the elif group

Undef == "undef"
Num(v) == CASE v = "v0" -> 0 [] v = "v1" -> 1 [] v = "v2" -> 2 [] OTHER -> 0
\* "fn" is a function-like macro (#define A(x) x+1): its bare name is not a macro invocation, so in
\* an #if expression it is an ordinary identifier and counts as 0 (C 6.10.1p4)
IsNum(v) == v \in {"v0", "v1", "v2", "fn", Undef}

(* ---- #if expressions ------------------------------------------------- *)
Rels == RelSet
Atoms == [op : {"def", "defsp"} \cap AtomKinds, n : Names]                  \* defined(X) / defined X
           \cup [op : {"cmp"} \cap AtomKinds, n : Names, rel : Rels, k : 0..1]
           \cup [op : {"lit"} \cap AtomKinds, k : 0..1]
           \cup (IF AllowBare THEN [op : {"bare"}, n : Names] ELSE {})
E1 == Atoms \cup [op : {"not"}, a : Atoms] \cup [op : {"paren"}, a : Atoms]
E2 == E1 \cup [op : {"and", "or"}, a : Atoms, b : Atoms] \cup [op : {"not", "paren"}, a : [op : {"and", "or"}, a : Atoms, b : Atoms]]
Exprs == IF ExprDepth = 0 THEN Atoms ELSE IF ExprDepth = 1 THEN E1 ELSE E2

\* the numeric value a macro name has inside #if: its body is rescanned, so a macro whose body is the
\* other macro ("ref") has that macro's value; on a cycle the name is left alone (an identifier: 0)
OtherName(n) == CHOOSE o \in Names : o # n
NumOf(n, d) == IF d[n] = "ref" THEN (IF d[OtherName(n)] = "ref" THEN 0 ELSE Num(d[OtherName(n)])) ELSE Num(d[n])
IsNumOf(n, d) == IF d[n] = "ref" THEN Cardinality(Names) = 2 /\ (d[OtherName(n)] = "ref" \/ IsNum(d[OtherName(n)])) ELSE IsNum(d[n])

Cmp(x, rel, k) == CASE rel = "==" -> x = k [] rel = "!=" -> x # k
                    [] rel = "<" -> x < k   [] rel = ">" -> x > k
                    [] rel = "<=" -> x <= k [] rel = ">=" -> x >= k

RECURSIVE Eval(_, _)
Eval(e, d) ==
  CASE e.op \in {"def", "defsp"} -> d[e.n] # Undef
    [] e.op = "lit"  -> e.k # 0
    [] e.op = "bare" -> NumOf(e.n, d) # 0
    [] e.op = "cmp"  -> Cmp(NumOf(e.n, d), e.rel, e.k)
    [] e.op = "not"   -> ~Eval(e.a, d)
    [] e.op = "paren" -> Eval(e.a, d)
    [] e.op = "and"   -> Eval(e.a, d) /\ Eval(e.b, d)
    [] e.op = "or"    -> Eval(e.a, d) \/ Eval(e.b, d)

\* a C preprocessor can evaluate e only if every compared / bare macro is numeric or undefined
RECURSIVE Evaluable(_, _)
Evaluable(e, d) ==
  CASE e.op \in {"def", "defsp", "lit"} -> TRUE
    [] e.op \in {"cmp", "bare"} -> AllowBare \/ IsNumOf(e.n, d)
    [] e.op \in {"not", "paren"} -> Evaluable(e.a, d)
    [] e.op \in {"and", "or"} -> Evaluable(e.a, d) /\ Evaluable(e.b, d)

\* does the condition consult a macro whose body is another macro?
RECURSIVE UsesRef(_, _)
UsesRef(e, d) ==
  CASE e.op \in {"def", "defsp", "lit"} -> FALSE
    [] e.op \in {"cmp", "bare"} -> d[e.n] = "ref"
    [] e.op \in {"not", "paren"} -> UsesRef(e.a, d)
    [] e.op \in {"and", "or"} -> UsesRef(e.a, d) \/ UsesRef(e.b, d)

VARIABLES defs,     \* reference macro table: Names -> Vals \cup {Undef}
          frames,   \* reference conditional stack
          idefs,    \* implementation-shaped macro table
          stack,    \* pp_stack: sequence of [start, end]; start = 0 encodes -1 (active)
          group,    \* pp_stack_group: sequence of [depth, taken]
          skips,    \* closed skip regions [s, e] (inclusive line numbers)
          file,     \* the lines so far (history = the generated file)
          init0,    \* the initial macro table (pp_defs), kept for the renderer
          effects   \* side effects on the outside world (must stay empty)
vars == <<defs, frames, idefs, stack, group, skips, file, init0, effects>>

LineNo == Len(file) + 1
Live   == \A i \in 1..Len(frames) : frames[i].live
ImplLive == \A i \in 1..Len(stack) : stack[i].s = 0

Init == /\ defs \in [Names -> {Undef, "empty", "v1"}]      \* pp_defs given in the configuration
        /\ idefs = defs /\ init0 = defs
        /\ frames = <<>> /\ stack = <<>> /\ group = <<>> /\ skips = {} /\ file = <<>> /\ effects = {}

Emit(rec) == /\ Len(file) < MaxLines
             /\ file' = Append(file, rec @@ [live |-> Live, ln |-> LineNo])
             /\ init0' = init0

(* ---- opening directives ---------------------------------------------- *)
Open(cond, rec) ==
  /\ Len(frames) < MaxDepth
  /\ frames' = Append(frames, [live |-> Live /\ cond, taken |-> cond, seenElse |-> FALSE])
  \* implementation: evaluates the condition regardless of the enclosing region
  /\ stack' = Append(stack, [s |-> IF cond THEN 0 ELSE LineNo, e |-> 0])
  /\ Emit(rec)
  /\ UNCHANGED <<defs, idefs, group, skips, effects>>

If(e)     == Evaluable(e, defs) /\ Open(Eval(e, defs), [k |-> "if", e |-> e, viaRef |-> UsesRef(e, defs)])
Ifdef(n)  == Open(defs[n] # Undef, [k |-> "ifdef", n |-> n])
Ifndef(n) == Open(defs[n] = Undef, [k |-> "ifndef", n |-> n])

(* ---- #elif ------------------------------------------------------------ *)
Top == frames[Len(frames)]
ParentLive == \A i \in 1..(Len(frames) - 1) : frames[i].live

Elif(e) ==
  /\ Len(frames) > 0 /\ ~Top.seenElse /\ Evaluable(e, defs)
  /\ LET c  == Eval(e, defs)
         nl == ParentLive /\ ~Top.taken /\ c
     IN frames' = [frames EXCEPT ![Len(frames)] = [live |-> nl, taken |-> Top.taken \/ c, seenElse |-> FALSE]]
  \* implementation-shaped
  /\ LET d   == Len(stack)
         top == stack[d]
         g0  == IF group = <<>> \/ group[Len(group)].depth # d
                THEN Append(group, [depth |-> d, taken |-> top.s = 0]) ELSE group
         gt  == g0[Len(g0)].taken
         c   == Eval(e, defs)
     IN IF gt
        THEN /\ stack' = [stack EXCEPT ![d] = [s |-> IF top.s = 0 THEN LineNo ELSE top.s, e |-> top.e]]
             /\ group' = g0 /\ skips' = skips
        ELSE IF c
        THEN /\ skips' = skips \cup {[s |-> top.s, e |-> LineNo]}
             /\ stack' = [stack EXCEPT ![d] = [s |-> 0, e |-> 0]]
             /\ group' = [g0 EXCEPT ![Len(g0)] = [depth |-> d, taken |-> TRUE]]
        ELSE /\ stack' = stack /\ group' = g0 /\ skips' = skips
  /\ Emit([k |-> "elif", e |-> e, viaRef |-> UsesRef(e, defs)])
  /\ UNCHANGED <<defs, idefs, effects>>

(* ---- #else ------------------------------------------------------------ *)
Else ==
  /\ Len(frames) > 0 /\ ~Top.seenElse
  /\ frames' = [frames EXCEPT ![Len(frames)] = [live |-> ParentLive /\ ~Top.taken, taken |-> TRUE, seenElse |-> TRUE]]
  /\ LET d == Len(stack)
         top == stack[d]
         gt == group # <<>> /\ group[Len(group)].depth = d /\ group[Len(group)].taken
     IN IF top.s = 0
        THEN stack' = [stack EXCEPT ![d] = [s |-> LineNo, e |-> top.e]] /\ skips' = skips
        ELSE IF gt
        THEN stack' = stack /\ skips' = skips
        ELSE /\ skips' = skips \cup {[s |-> top.s, e |-> LineNo]}
             /\ stack' = [stack EXCEPT ![d] = [s |-> 0, e |-> 0]]
  /\ Emit([k |-> "else"])
  /\ UNCHANGED <<defs, idefs, group, effects>>

(* ---- #endif ----------------------------------------------------------- *)
Endif ==
  /\ Len(frames) > 0
  /\ frames' = SubSeq(frames, 1, Len(frames) - 1)
  /\ LET d == Len(stack)
         top == stack[d]
         hasg == group # <<>> /\ group[Len(group)].depth = d
     IN /\ group' = IF hasg /\ ~(StaleGroup /\ top.s = 0) THEN SubSeq(group, 1, Len(group) - 1) ELSE group
        /\ stack' = SubSeq(stack, 1, d - 1)
        /\ skips' = IF top.s = 0 THEN skips ELSE skips \cup {[s |-> top.s, e |-> LineNo]}
  /\ Emit([k |-> "endif"])
  /\ UNCHANGED <<defs, idefs, effects>>

(* ---- #define / #undef -------------------------------------------------- *)
\* redefinition of an already defined macro is not generated (a cpp diagnoses it)
Define(n, v) ==
  /\ defs[n] = Undef \/ ~Live
  /\ defs'  = IF Live THEN [defs EXCEPT ![n] = v] ELSE defs
  /\ idefs' = IF ImplLive /\ idefs[n] = Undef THEN [idefs EXCEPT ![n] = v] ELSE idefs
  /\ Emit([k |-> "define", n |-> n, v |-> v])
  /\ UNCHANGED <<frames, stack, group, skips, effects>>

UndefLine(n) ==
  /\ defs'  = IF Live THEN [defs EXCEPT ![n] = Undef] ELSE defs
  /\ idefs' = IF ImplLive THEN [idefs EXCEPT ![n] = Undef] ELSE idefs
  /\ Emit([k |-> "undef", n |-> n])
  /\ UNCHANGED <<frames, stack, group, skips, effects>>

(* ---- code lines -------------------------------------------------------- *)
\* a declaration; `use` names a macro mentioned on the line ("none" = plain)
\* the text a use of macro n expands to: a value, or a macro name left in place.
\* A body "ref" is the name of the other macro; expansion rescans the result (C 6.10.3.4)
\* and a macro is not re-expanded inside its own expansion.
Expansion(n) ==
  IF defs[n] \in {Undef, "fn"} THEN [t |-> "name", x |-> n]      \* bare name of a function-like macro stays
  ELSE IF defs[n] # "ref" THEN [t |-> "val", x |-> defs[n]]
  ELSE LET o == OtherName(n) IN
       IF defs[o] \in {Undef, "fn"} THEN [t |-> "name", x |-> o]
       ELSE IF defs[o] = "ref" THEN [t |-> "name", x |-> n]
       ELSE [t |-> "val", x |-> defs[o]]

\* `form`: how the macro name is written on the line: "bare" (A), "call" (A(2)), "call2" (A(2)+A(3)).
\* An invocation of a function-like macro is replaced by its body with the argument substituted; an
\* object-like macro followed by "(" is replaced by its body, the parenthesis stays; the renderer
\* derives the expected text of the call forms from `val`.
Forms == IF "fn" \in Vals THEN {"bare", "call", "call2"} ELSE {"bare"}
Code(u, f) ==
  /\ u = "none" => f = "bare"
  /\ (u # "none" /\ defs[u] = "ref") => (Cardinality(Names) = 2 /\ f = "bare")
  /\ Emit([k |-> "code", use |-> u, form |-> f, val |-> IF u = "none" THEN "none" ELSE defs[u],
           exp |-> IF u = "none" THEN [t |-> "none", x |-> "none"] ELSE Expansion(u)])
  /\ UNCHANGED <<defs, idefs, frames, stack, group, skips, effects>>

(* ---- #include ---------------------------------------------------------- *)
\* Headers with fixed contents (the renderer writes them next to the file):
\*   "hdef"  : #define B 1            (no effect unless "B" is a model name and B is undefined)
\*   "hloop" : includes itself twice  (no effect; a cpp stops at its nesting limit)
\*   "hping" : includes "hpong" twice, which includes "hping" twice and then defines B
\* An #include in an inactive region is not processed.
Headers == IF "fn" \in Vals THEN {"hdef", "hloop", "hping"} ELSE {}
HeaderDefs(h, d, on) ==
  IF on /\ h \in {"hdef", "hping"} /\ "B" \in Names /\ d["B"] = Undef THEN [d EXCEPT !["B"] = "v1"] ELSE d
Include(h) ==
  /\ defs'  = HeaderDefs(h, defs, Live)
  /\ idefs' = HeaderDefs(h, idefs, ImplLive)
  /\ Emit([k |-> "include", h |-> h])
  /\ UNCHANGED <<frames, stack, group, skips, effects>>

DoIf     == \E e \in Exprs : If(e)
DoIfdef  == \E n \in Names : Ifdef(n)
DoIfndef == \E n \in Names : Ifndef(n)
DoElif   == \E e \in Exprs : Elif(e)
DoDefine == \E n \in Names, v \in Vals : Define(n, v)
DoUndef  == \E n \in Names : UndefLine(n)
DoCode   == \E u \in Names \cup {"none"}, f \in Forms : Code(u, f)
DoInclude == \E h \in Headers : Include(h)
Next == DoIf \/ DoIfdef \/ DoIfndef \/ DoElif \/ Else \/ Endif \/ DoDefine \/ DoUndef \/ DoCode \/ DoInclude
Spec == Init /\ [][Next]_vars

\* skeleton generator: conditionals and one kind of code line only, from one initial table
SkelNext == DoIf \/ DoElif \/ Else \/ Endif \/ Code("none", "bare")
SkelSpec == (Init /\ \A n \in Names : defs[n] = Undef) /\ [][SkelNext]_vars

\* macro-table generator: definitions, undefinitions, includes and uses only (a macro changes its
\* kind between uses; headers that include each other)
MacroNext == DoDefine \/ DoUndef \/ DoCode \/ DoInclude
MacroSpec == Init /\ [][MacroNext]_vars

(* ---- properties -------------------------------------------------------- *)
ImplAgrees == /\ ImplLive = Live
              /\ idefs = defs
              /\ Len(stack) = Len(frames)
NoEffects == effects = {}
SkipsWellFormed == \A r \in skips : 0 < r.s /\ r.s <= r.e /\ r.e <= Len(file)
GroupDepthsSane == \A i \in 1..Len(group) : group[i].depth <= Len(stack) + 1
\* every code line recorded as live lies in no closed skip region, and once all
\* conditionals are closed every dead code line lies in one
LiveLinesNotSkipped == \A i \in 1..Len(file) : (file[i].k = "code" /\ file[i].live) =>
                          ~\E r \in skips : r.s <= i /\ i <= r.e
DeadLinesSkippedWhenClosed == frames = <<>> =>
     \A i \in 1..Len(file) : (file[i].k = "code" /\ ~file[i].live) => \E r \in skips : r.s <= i /\ i <= r.e

View == <<defs, frames, idefs, stack, group>>
Complete == frames = <<>>
=============================================================================
