CONSTANTS Files = {"a", "b", "c", "d"} Workers = {"w1", "w2"} Deviation = "none"
  Deps <- Back4
SPECIFICATION Spec
INVARIANT FinalIndexIsComplete
INVARIANT EachFileMergedOnce
INVARIANT LinkOnlyAfterLastMerge
