CONSTANTS MaxL = 4 MaxT = 2 Deviation = "noVisitedSet" Bound = 20
SPECIFICATION Spec
INVARIANT WalkIsBounded
INVARIANT VisitsEveryNodeOnce
