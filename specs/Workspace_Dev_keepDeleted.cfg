CONSTANTS Files = {"a", "b", "c"} Variants = {1, 2, 3, 4} MaxLen = 8 Deviation = "keepDeleted"
SPECIFICATION Spec
VIEW View
INVARIANT AnswersDependOnFilesOnly

