----------------------------- MODULE Discovery -----------------------------
(***************************************************************************)
(* Which files are indexed at start-up (C18).  Every initial state is a    *)
(* (directory tree, settings) pair; the spec computes the reference set    *)
(* ExpectedIndexed from the property statement:                            *)
(*   files with a default Fortran suffix or a configured additional one,   *)
(*   lying directly in a source directory (unset: every directory under    *)
(*   the root holding such a file; set: the configured directories after   *)
(*   glob expansion), minus directories/files matched by the exclusion     *)
(*   paths, minus files with an excluded suffix.                           *)
(* The actions mirror the stages of the implementation (resolve globs,     *)
(* choose source directories, list files) so that the stage results are    *)
(* part of the state; TLC checks the staged computation equals the one-    *)
(* shot set comprehension.                                                 *)
(***************************************************************************)
EXTENDS Naturals, FiniteSets, TLC
Dirs     == {"root", "sub", "deep", "ex", "hid"}   \* deep = sub/deep, hid = sub/.hid (a hidden directory)
Default  == {"f90", "F90", "f", "FoR", "fpp"}      \* .f90 .F90 .f .FoR .fpp
Suffixes == Default \cup {"f9", "bak", "inc", "INC", "txt"}   \* .f9 .f90.bak .inc .INC .txt : look-alikes and others
\* a configured additional suffix is matched as written: ".INC" is not the configured ".inc"
Profiles == {{}, {"f90"}, {"f90", "F90", "FoR", "f9", "bak", "txt"}, {"inc", "INC", "txt"}, {"fpp", "f"}}

VARIABLES tree,      \* dir -> set of suffix classes present (one file per class)
          srcCfg,    \* "unset" | "sub" | "subRec" (sub/**) | "glob" (s*)
          exclCfg,   \* "none" | "ex" | "exRec" (ex/**) | "sub" | "subRec" (sub/**) | "file" (sub/<f90 file>)
          inclSuf,   \* additional suffixes: {} or {"inc"}
          exclSuf,   \* excluded suffixes: {} or {"F90"}
          channel,   \* "cli" | "file"
          stage, exclDirs, exclFiles, srcDirs, indexed
vars == <<tree, srcCfg, exclCfg, inclSuf, exclSuf, channel, stage, exclDirs, exclFiles, srcDirs, indexed>>

Files == {<<d, s>> : d \in Dirs, s \in Suffixes}
Present == {f \in Files : f[2] \in tree[f[1]]}
Accepted(s) == s \in Default \cup inclSuf
Below(d) == CASE d = "root" -> Dirs [] d = "sub" -> {"sub", "deep", "hid"} [] d = "deep" -> {"deep"} [] d = "ex" -> {"ex"} [] d = "hid" -> {"hid"}

XDirs == CASE exclCfg = "ex" -> {"ex"} [] exclCfg = "exRec" -> {"ex"} [] exclCfg = "sub" -> {"sub"}
           [] exclCfg = "subRec" -> {"sub", "deep", "hid"} [] OTHER -> {}
XFiles == CASE exclCfg = "file" -> {<<"sub", "f90">>}
            [] exclCfg = "subRec" -> {f \in Present : f[1] \in {"sub", "deep", "hid"}}
            [] exclCfg = "exRec" -> {f \in Present : f[1] = "ex"}
            [] OTHER -> {}
SDirs == (CASE srcCfg = "unset" -> {d \in Dirs : \E s \in tree[d] : Accepted(s)}
            [] srcCfg = "sub" -> {"sub"} [] srcCfg = "glob" -> {"sub"} [] srcCfg = "dot" -> {"root"}
            [] srcCfg = "subRec" -> {"sub", "deep", "hid"}) \ XDirs
ExpectedIndexed == {f \in Present : f[1] \in SDirs /\ Accepted(f[2]) /\ f[2] \notin exclSuf /\ f \notin XFiles}

Init == /\ tree \in {t \in [Dirs -> Profiles] : t["hid"] \in {{}, {"f90"}}}
        /\ srcCfg \in {"unset", "sub", "subRec", "glob", "dot"}   \* "dot": the root itself, configured explicitly (".")
        /\ exclCfg \in {"none", "ex", "exRec", "sub", "subRec", "file"}
        /\ inclSuf \in {{}, {"inc"}} /\ exclSuf \in {{}, {"F90"}}
        /\ channel \in {"cli", "file"}
        /\ stage = "start" /\ exclDirs = {} /\ exclFiles = {} /\ srcDirs = {} /\ indexed = {}

ResolveGlobs == /\ stage = "start" /\ stage' = "globs"
                /\ exclDirs' = XDirs /\ exclFiles' = XFiles
                /\ srcDirs' = IF srcCfg = "unset" THEN {"root"} ELSE
                                (CASE srcCfg = "sub" -> {"sub"} [] srcCfg = "glob" -> {"sub"} [] srcCfg = "dot" -> {"root"} [] srcCfg = "subRec" -> {"sub", "deep", "hid"}) \ XDirs
                /\ UNCHANGED <<tree, srcCfg, exclCfg, inclSuf, exclSuf, channel, indexed>>
WalkDirs == /\ stage = "globs" /\ stage' = "dirs"
            /\ srcDirs' = IF srcCfg = "unset"
                          THEN {d \in Dirs : (\E s \in tree[d] : Accepted(s)) /\ d \notin exclDirs}
                          ELSE srcDirs
            /\ UNCHANGED <<tree, srcCfg, exclCfg, inclSuf, exclSuf, channel, exclDirs, exclFiles, indexed>>
ListFiles == /\ stage = "dirs" /\ stage' = "done"
             /\ indexed' = {f \in Present : f[1] \in srcDirs /\ Accepted(f[2]) /\ f \notin exclFiles /\ f[2] \notin exclSuf}
             /\ UNCHANGED <<tree, srcCfg, exclCfg, inclSuf, exclSuf, channel, exclDirs, exclFiles, srcDirs>>
Next == ResolveGlobs \/ WalkDirs \/ ListFiles
Spec == Init /\ [][Next]_vars

StagedEqualsReference == stage = "done" => indexed = ExpectedIndexed
LookAlikesNeverIndexed == stage = "done" => \A f \in indexed : f[2] \notin {"f9", "bak", "txt", "INC"}
NothingOutsideSourceDirs == stage = "done" => \A f \in indexed : f[1] \in SDirs
=============================================================================
