------------------------------ MODULE Deferred ------------------------------
(***************************************************************************)
(* Abstract types with deferred bindings (the C07 defect class             *)
(* "unimplemented deferred binding").  A universe is a chain of derived    *)
(* types t1 <- t2 <- ... <- tD.  t1 is ABSTRACT and declares NB deferred   *)
(* bindings d_1..d_NB (with an abstract interface).  Every further type    *)
(* extends its predecessor, is abstract or concrete, and implements a      *)
(* subset of the bindings (`procedure :: d_k => impl_i_k`).  Reference     *)
(* semantics (F2018 7.5.7.3): a NON-abstract type must not inherit a       *)
(* binding that is still deferred, so                                      *)
(*   Missing(i) = bindings not implemented at any level 2..i               *)
(*   the program is standard-conforming iff no concrete type has           *)
(*   Missing(i) # {}; otherwise one error per (concrete type, missing      *)
(*   binding) is due at that type's END TYPE line.                         *)
(* `split` puts every type into its own module and file, `baseLast` makes  *)
(* the file of the base type the last to be enumerated (links resolved in  *)
(* the other order).                                                       *)
(***************************************************************************)
EXTENDS Naturals, FiniteSets, TLC
CONSTANTS MaxD, MaxNB
VARIABLES D, nb, abstract, impl, split, baseLast, expDiag
vars == <<D, nb, abstract, impl, split, baseLast, expDiag>>

Implemented(i, im) == UNION {im[j] : j \in 2..i}
Missing(i, n, im) == (1..n) \ Implemented(i, im)

Init == /\ D \in 2..MaxD /\ nb \in 1..MaxNB
        /\ abstract \in [1..MaxD -> BOOLEAN] /\ abstract[1]
        /\ impl \in [1..MaxD -> SUBSET (1..MaxNB)] /\ impl[1] = {}
        /\ \A i \in 1..MaxD : impl[i] \subseteq 1..nb
        /\ \A i \in (D + 1)..MaxD : abstract[i] /\ impl[i] = {}     \* unused levels: canonical
        /\ split \in BOOLEAN /\ baseLast \in BOOLEAN
        /\ (~split => ~baseLast)
        /\ expDiag = UNION {{<<i, k>> : k \in Missing(i, nb, impl)} : i \in {j \in 2..D : ~abstract[j]}}
Next == UNCHANGED vars
Spec == Init /\ [][Next]_vars

AbstractNeverDiagnosed == \A e \in expDiag : ~abstract[e[1]]
CompleteIsSilent == \A i \in 2..D : (Implemented(i, impl) = 1..nb) => ~\E e \in expDiag : e[1] = i
MissingIsInherited == \A i \in 2..(D - 1) : Missing(i + 1, nb, impl) \subseteq Missing(i, nb, impl)
Valid == expDiag = {}
=============================================================================
