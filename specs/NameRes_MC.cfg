SPECIFICATION Spec
INVARIANT PrivateNeverOutside
INVARIANT LocalShadows
INVARIANT HostAssociation
INVARIANT DefaultPrivateBlocksReexport
INVARIANT RenameHidesOriginal
INVARIANT CallableNeverAVariable
INVARIANT OnlyListsAreExports
