CONSTANTS MaxLines = 8 MaxDepth = 4 Mode = "valid" UnitKinds = {"module", "program", "sub", "fun"} ConstructKinds = {"block", "do", "if", "select", "associate", "where"}
SPECIFICATION SpecValid
