CONSTANTS MaxLines = 10 MaxDepth = 3 Mode = "valid" UnitKinds = {"module", "program"} ConstructKinds = {}
SPECIFICATION SpecProcs
