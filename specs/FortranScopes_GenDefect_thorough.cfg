CONSTANTS MaxLines = 7 MaxDepth = 3 Mode = "defect" UnitKinds = {"module", "submodule", "program", "sub", "fun"} ConstructKinds = {"block", "if", "do", "select"}
SPECIFICATION SpecDefect
