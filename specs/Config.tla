------------------------------- MODULE Config -------------------------------
(***************************************************************************)
(* Command line versus configuration file (C19).  An initial state fixes,  *)
(* for at most two options, what the command line and the file say; the    *)
(* Initialize action computes the effective value by the reference rule:   *)
(*   file value if the file is well-formed and mentions the option,        *)
(*   else the command-line value, else the default;                        *)
(* a missing / unreadable / malformed file yields a user-visible message,  *)
(* leaves every option at its command-line value, and initialization still *)
(* completes.                                                              *)
(***************************************************************************)
EXTENDS Naturals, FiniteSets, TLC
CONSTANTS Opts
Vals == {"absent", "v1", "v2", "vEmpty"}    \* vEmpty: the option is given an empty / falsy value (still "given")
FileKinds == {"none", "ok", "invalidJson", "topLevelList", "topLevelScalar", "wrongValueType", "missingExplicit"}

VARIABLES cli, file, fileKind, eff, message, initOk, done
vars == <<cli, file, fileKind, eff, message, initOk, done>>

Quiet == [o \in Opts |-> "absent"]
Init == /\ \E o1, o2 \in Opts : \E a1, a2, b1, b2 \in Vals :
             /\ cli  = [Quiet EXCEPT ![o1] = a1, ![o2] = a2]
             /\ file = [Quiet EXCEPT ![o1] = b1, ![o2] = b2]
        /\ fileKind \in FileKinds
        /\ (fileKind = "none" => file = Quiet)
        /\ eff = Quiet /\ message = FALSE /\ initOk = FALSE /\ done = FALSE

FileUsable == fileKind = "ok"
Effective(o) == IF FileUsable /\ file[o] # "absent" THEN file[o]
                ELSE IF cli[o] # "absent" THEN cli[o] ELSE "default"
Initialize == /\ ~done /\ done' = TRUE
              /\ eff' = [o \in Opts |-> Effective(o)]
              /\ message' = (fileKind \notin {"none", "ok"})
              /\ initOk' = TRUE
              /\ UNCHANGED <<cli, file, fileKind>>
Next == Initialize
Spec == Init /\ [][Next]_vars

FileWins == done => \A o \in Opts : (FileUsable /\ file[o] # "absent") => eff[o] = file[o]
AbsentKeepsCli == done => \A o \in Opts : (~FileUsable \/ file[o] = "absent") =>
                     eff[o] = (IF cli[o] # "absent" THEN cli[o] ELSE "default")
MalformedIsReported == done => ((fileKind \notin {"none", "ok"}) => (message /\ initOk))
InitAlwaysCompletes == done => initOk
=============================================================================
