------------------------------- MODULE Config -------------------------------
(***************************************************************************)
(* Command line versus configuration file (C19).  An initial state fixes,  *)
(* for at most two options, what the command line and the file say; the    *)
(* Initialize action computes the effective value by the reference rule:   *)
(*   file value if the file is well-formed and mentions the option,        *)
(*   else the command-line value, else the default;                        *)
(* a missing / unreadable / malformed file yields a user-visible message,  *)
(* leaves every option at its command-line value, and initialization still *)
(* completes.                                                              *)
(***************************************************************************)
EXTENDS Naturals, FiniteSets, TLC
CONSTANTS Opts
Vals == {"absent", "v1", "v2", "vEmpty"}    \* vEmpty: the option is given an empty / falsy value (still "given")
FileKinds == {"none", "ok", "invalidJson", "topLevelList", "topLevelScalar", "wrongValueType", "missingExplicit"}

\* Where the file's values live.  `name`: the file holding them (".fortlsrc", ".fortls.json", ".fortls" are the
\* default names, searched in that order; "custom" is any other name); `explicit`: the name is requested with
\* -c/--config; `decoy`: a second, default-named file is present too and gives every involved option a
\* DIFFERENT value.  The requested file wins when it is requested explicitly; otherwise the search order decides.
Layouts == {[name |-> "fortls",     explicit |-> FALSE, decoy |-> "none"],
            [name |-> "fortlsjson", explicit |-> TRUE,  decoy |-> "fortlsrc"],
            [name |-> "fortls",     explicit |-> TRUE,  decoy |-> "fortlsrc"],
            [name |-> "custom",     explicit |-> TRUE,  decoy |-> "fortls"],
            [name |-> "fortlsjson", explicit |-> FALSE, decoy |-> "fortls"],
            [name |-> "fortls",     explicit |-> FALSE, decoy |-> "fortlsrc"]}
Order(n) == CASE n = "fortlsrc" -> 1 [] n = "fortlsjson" -> 2 [] n = "fortls" -> 3 [] OTHER -> 4

VARIABLES cli, file, fileKind, layout, eff, message, initOk, done
vars == <<cli, file, fileKind, layout, eff, message, initOk, done>>

Quiet == [o \in Opts |-> "absent"]
Init == /\ \E o1, o2 \in Opts : \E a1, a2, b1, b2 \in Vals :
             /\ cli  = [Quiet EXCEPT ![o1] = a1, ![o2] = a2]
             /\ file = [Quiet EXCEPT ![o1] = b1, ![o2] = b2]
        /\ fileKind \in FileKinds
        /\ (fileKind = "none" => file = Quiet)
        /\ layout \in (IF fileKind = "ok" THEN Layouts ELSE {[name |-> "fortls", explicit |-> FALSE, decoy |-> "none"]})
        /\ eff = Quiet /\ message = FALSE /\ initOk = FALSE /\ done = FALSE

FileUsable == fileKind = "ok"
MainWins == layout.explicit \/ layout.decoy = "none" \/ Order(layout.name) < Order(layout.decoy)
Conflict(v) == IF v = "absent" THEN "absent" ELSE IF v = "v1" THEN "v2" ELSE "v1"
\* what "the configuration file" says about o: the winning file's value
FileVal(o) == IF MainWins THEN file[o] ELSE Conflict(file[o])
Effective(o) == IF FileUsable /\ FileVal(o) # "absent" THEN FileVal(o)
                ELSE IF cli[o] # "absent" THEN cli[o] ELSE "default"
Initialize == /\ ~done /\ done' = TRUE
              /\ eff' = [o \in Opts |-> Effective(o)]
              /\ message' = (fileKind \notin {"none", "ok"})
              /\ initOk' = TRUE
              /\ UNCHANGED <<cli, file, fileKind, layout>>
Next == Initialize
Spec == Init /\ [][Next]_vars

FileWins == done => \A o \in Opts : (FileUsable /\ FileVal(o) # "absent") => eff[o] = FileVal(o)
RequestedFileWins == done => \A o \in Opts : (FileUsable /\ layout.explicit /\ file[o] # "absent") => eff[o] = file[o]
AbsentKeepsCli == done => \A o \in Opts : (~FileUsable \/ FileVal(o) = "absent") =>
                     eff[o] = (IF cli[o] # "absent" THEN cli[o] ELSE "default")
MalformedIsReported == done => ((fileKind \notin {"none", "ok"}) => (message /\ initOk))
InitAlwaysCompletes == done => initOk
=============================================================================
