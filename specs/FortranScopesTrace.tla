------------------------- MODULE FortranScopesTrace -------------------------
(* Trace specification for the parser's scope stack (C03/C04): events recorded *)
(* around FortranAST.add_scope / end_scope while the real parser runs.  The    *)
(* spec steps the stack discipline of FortranScopes' robust mode: a push adds  *)
(* an open scope, a pop closes the innermost open one (or is an orphan END on  *)
(* an empty stack), first line <= last line, and at end of file nothing that   *)
(* was pushed is left without an end line.                                     *)
EXTENDS Naturals, Sequences, TLC, Json, IOUtils, TLCExt
Data   == JsonDeserialize(IOEnv.TRACE_FILE)
Traces == Data.traces
NT     == Len(Traces)
VARIABLES tid, l, stack, nclosed
tv == <<tid, l, stack, nclosed>>
ASSUME TLCSet(1, [t \in 1..NT |-> 0])
TInit == tid \in 1..NT /\ l = 1 /\ stack = <<>> /\ nclosed = 0
PushEv(e) == /\ e.k = "push" /\ e.depth = Len(stack)
             /\ (stack # <<>> => stack[Len(stack)] <= e.line)
             /\ stack' = Append(stack, e.line) /\ nclosed' = nclosed
PopEv(e)  == /\ e.k = "pop" /\ Len(stack) > 0 /\ e.depth = Len(stack)
             /\ stack[Len(stack)] <= e.line /\ e.sline = stack[Len(stack)]
             /\ stack' = SubSeq(stack, 1, Len(stack) - 1) /\ nclosed' = nclosed + 1
\* an END with nothing to close: empty stack, or only the implicit main program (a file that starts
\* without a PROGRAM statement) is open - fortls keeps that scope open until end of file
OrphanEv(e) == e.k = "orphan" /\ (stack = <<>> \/ (e.implicitOnly /\ Len(stack) = 1)) /\ UNCHANGED <<stack, nclosed>>
EofEv(e)  == /\ e.k = "eof" /\ e.unended = 0 /\ e.nscopes = nclosed + Len(stack) /\ e.ok
             /\ UNCHANGED <<stack, nclosed>>
TNext == /\ l <= Len(Traces[tid])
         /\ LET e == Traces[tid][l] IN PushEv(e) \/ PopEv(e) \/ OrphanEv(e) \/ EofEv(e)
         /\ l' = l + 1 /\ UNCHANGED tid
TSpec == TInit /\ [][TNext]_tv
Mark == TLCSet(1, [TLCGet(1) EXCEPT ![tid] = IF l > @ THEN l ELSE @])
Post == PrintT(<<"REACHED", TLCGet(1)>>)
=============================================================================
