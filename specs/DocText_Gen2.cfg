CONSTANTS MaxLines = 6 MaxCols = 6 MaxIns = 2 InitCols = 2 InitLines = 2
SPECIFICATION SpecTwo
INVARIANT Shape
PROPERTY ReopenShowsDisk
