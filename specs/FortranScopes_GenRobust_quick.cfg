CONSTANTS MaxLines = 3 MaxDepth = 3 Mode = "robust" UnitKinds = {"module", "submodule", "program", "sub", "fun"} ConstructKinds = {"block", "do", "ldo", "if", "select", "associate", "where"}
SPECIFICATION SpecRobust
