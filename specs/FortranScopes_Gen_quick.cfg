CONSTANTS MaxLines = 6 MaxDepth = 3 Mode = "valid" UnitKinds = {"module", "program", "sub", "fun"} ConstructKinds = {"block", "do", "if", "select", "associate", "where"}
SPECIFICATION SpecValid
