CONSTANTS MaxLines = 6 MaxDepth = 3 Mode = "valid" UnitKinds = {"module", "submodule", "program", "sub", "fun"} ConstructKinds = {"block", "do", "ldo", "if", "select", "associate", "where"}
SPECIFICATION SpecValid
