CONSTANTS MaxLines = 24 MaxDepth = 4 Mode = "defect" UnitKinds = {"module", "submodule", "program", "sub", "fun"} ConstructKinds = {"block", "do", "ldo", "if", "select", "associate", "where"}
SPECIFICATION SpecDefect
