CONSTANTS MaxMsgs = 2 MaxChars = 2 MaxCuts = 100 Reader = "ref" CountChars = FALSE
SPECIFICATION Spec
VIEW View
INVARIANT DecodedIsPrefix
INVARIANT NeverDead
INVARIANT AllDecodedAtEnd
INVARIANT ReaderNeverOverruns
