CONSTANTS Ids = {"i1", "i2", "sA"} MaxLen = 3 Deviation = "diagAsResponse"
SPECIFICATION Spec
INVARIANT OneResponsePerRequestInOrder
INVARIANT ResponseIdsWereReceived
INVARIANT UnknownIsMethodNotFound
INVARIANT ServesUntilExit
PROPERTY NotificationsAreSilent
