CONSTANTS MaxLines = 5 MaxCols = 5 MaxIns = 3 InitCols = 2 InitLines = 2
SPECIFICATION Spec
INVARIANT Shape
