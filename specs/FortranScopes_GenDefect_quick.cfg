CONSTANTS MaxLines = 6 MaxDepth = 3 Mode = "defect" UnitKinds = {"module", "program", "sub"} ConstructKinds = {"block", "if", "do"}
SPECIFICATION SpecDefect
