-------------------------------- MODULE Uri --------------------------------
(* File-URI encoding of paths (part of C16).  A path is a sequence of       *)
(* segments, a segment a non-empty sequence of character classes.  The      *)
(* reference encoder (RFC 3986) keeps unreserved characters and percent-    *)
(* encodes everything else; the decoder inverts it.  TLC checks the round   *)
(* trip and that no reserved character survives encoding; the enumerated    *)
(* paths are replayed into fortls's path_to_uri / path_from_uri.            *)
EXTENDS Naturals, Sequences, SequencesExt, TLC
CONSTANTS MaxSegs, MaxLen
\* "combining": a base letter followed by a combining mark (not in any Unicode normal form a precomposed
\* letter is in), "compat": a compatibility character (U+212B, U+F900) - any normalisation changes the path
Classes    == {"plain", "upper", "digit", "blank", "percent", "hash", "question", "plus", "amp", "nonascii", "astral",
               "combining", "compat", "cjkcompat", "rawbyte"}
\* "rawbyte": a byte that is not valid UTF-8 (a Latin-1 file name); a path is a sequence of bytes
Unreserved == {"plain", "upper", "digit"}
Segs  == UNION {[1..n -> Classes] : n \in 1..MaxLen}
Paths == UNION {[1..n -> Segs] : n \in 1..MaxSegs}
VARIABLES path, enc
Enc(c) == IF c \in Unreserved THEN [k |-> "lit", c |-> c] ELSE [k |-> "esc", c |-> c]
EncodeSeg(s) == [i \in 1..Len(s) |-> Enc(s[i])]
Encode(p) == [i \in 1..Len(p) |-> EncodeSeg(p[i])]
DecodeSeg(s) == [i \in 1..Len(s) |-> s[i].c]
Decode(e) == [i \in 1..Len(e) |-> DecodeSeg(e[i])]
Init == path \in Paths /\ enc = Encode(path)
Next == UNCHANGED <<path, enc>>
Spec == Init /\ [][Next]_<<path, enc>>
RoundTrip == Decode(enc) = path
NoRawReserved == \A i \in 1..Len(enc) : \A j \in 1..Len(enc[i]) : enc[i][j].k = "lit" => enc[i][j].c \in Unreserved
\* "%" followed by two digits in the PATH must not be mistaken for an escape
PercentIsEscaped == \A i \in 1..Len(path) : \A j \in 1..Len(path[i]) : path[i][j] = "percent" => enc[i][j].k = "esc"
=============================================================================
