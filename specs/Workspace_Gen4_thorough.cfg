CONSTANTS Files = {"a", "b"} Variants = {1, 2} MaxLen = 6 Deviation = "none"
SPECIFICATION Spec
