SPECIFICATION Spec
INVARIANT InheritsEverything
INVARIANT OwnerDeclares
INVARIANT LeafSeesRoot
