CONSTANTS Files = {"a", "b", "c"} Variants = {1, 2} MaxLen = 5 Deviation = "none"
SPECIFICATION Spec
