CONSTANTS Files = {"a", "b", "c"} Variants = {1, 3, 5} MaxLen = 4 Deviation = "none"
SPECIFICATION Spec
