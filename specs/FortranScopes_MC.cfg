CONSTANTS MaxLines = 7 MaxDepth = 3 Mode = "valid" UnitKinds = {"module", "submodule", "program", "sub", "fun"} ConstructKinds = {"block", "do", "if"}
SPECIFICATION SpecValid
VIEW View
INVARIANT WellNested
INVARIANT StackOrdered
INVARIANT OpenAfterClosed
INVARIANT EveryOpenIsClosedOrOnStack
INVARIANT DefectsAtMostOne
