CONSTANTS Names = {"A"} Vals = {"v1", "fn", "txt"} MaxLines = 5 MaxDepth = 1 ExprDepth = 0 AllowBare = FALSE StaleGroup = FALSE AtomKinds = {"def", "lit"} RelSet = {"=="}
SPECIFICATION MacroSpec
