CONSTANTS Files = {"a", "b", "c"} Variants = {1, 2, 3, 4, 5} MaxLen = 12 Deviation = "none"
SPECIFICATION Spec
