----------------------------- MODULE InitIndex -----------------------------
(***************************************************************************)
(* Start-up indexing (C15): files are parsed by a pool of workers, results *)
(* are merged into the index in completion order, then cross-file links    *)
(* are resolved.  A file may depend on entities of other files (USE,       *)
(* EXTENDS, INCLUDE, submodule parent); Resolved(f) is the set of          *)
(* dependencies of f that the link step found.                             *)
(*                                                                         *)
(* Reference design: link phases run only after the last merge, over the   *)
(* complete index, so every dependency is found whatever the schedule and  *)
(* the enumeration order.  Named deviation "linkWhileMerging": a file is   *)
(* linked as soon as it is merged and sees only what was merged before it  *)
(* - TLC must then find two schedules with different final indexes.        *)
(* The second path (OpenOne) opens files one at a time on an empty index;  *)
(* each open re-links everything.                                          *)
(***************************************************************************)
EXTENDS Naturals, Sequences, FiniteSets, TLC
CONSTANTS Files, Workers, Deps, Deviation    \* Deps: file -> set of files it depends on

\* dependency graphs used by the configurations (cfg files cannot hold function literals)
Chain4 == [a |-> {}, b |-> {"a"}, c |-> {"b", "a"}, d |-> {"c"}]
Back4  == [a |-> {"d"}, b |-> {"a"}, c |-> {}, d |-> {"c"}]

VARIABLES pending, running, finished, merged, linked, resolved, path
vars == <<pending, running, finished, merged, linked, resolved, path>>
\* running: worker -> file or "idle"; finished: parsed, not merged yet; merged: sequence (merge order)

Init == /\ pending = Files /\ running = [w \in Workers |-> "idle"] /\ finished = {} /\ merged = <<>>
        /\ linked = FALSE /\ resolved = [f \in Files |-> {}] /\ path \in {"pool", "oneByOne"}

MergedSet == {merged[i] : i \in 1..Len(merged)}
Dispatch(w, f) == /\ path = "pool" /\ f \in pending /\ running[w] = "idle"
                  /\ running' = [running EXCEPT ![w] = f] /\ pending' = pending \ {f}
                  /\ UNCHANGED <<finished, merged, linked, resolved, path>>
Finish(w) == /\ running[w] # "idle"
             /\ finished' = finished \cup {running[w]} /\ running' = [running EXCEPT ![w] = "idle"]
             /\ UNCHANGED <<pending, merged, linked, resolved, path>>
Merge(f) == /\ f \in finished /\ finished' = finished \ {f} /\ merged' = Append(merged, f)
            /\ resolved' = IF Deviation = "linkWhileMerging"
                           THEN [resolved EXCEPT ![f] = Deps[f] \cap (MergedSet \cup {f})]
                           ELSE resolved
            /\ UNCHANGED <<pending, running, linked, path>>
ResolveLinks == /\ path = "pool" /\ ~linked /\ pending = {} /\ finished = {} /\ \A w \in Workers : running[w] = "idle"
                /\ linked' = TRUE
                /\ resolved' = IF Deviation = "linkWhileMerging" THEN resolved
                               ELSE [f \in Files |-> Deps[f] \cap MergedSet]
                /\ UNCHANGED <<pending, running, finished, merged, path>>
\* the one-at-a-time path: open f, parse it, re-link every file already known
OpenOne(f) == /\ path = "oneByOne" /\ f \in pending /\ pending' = pending \ {f}
              /\ merged' = Append(merged, f)
              /\ resolved' = [g \in Files |-> IF g \in MergedSet \cup {f} THEN Deps[g] \cap (MergedSet \cup {f}) ELSE {}]
              /\ linked' = (pending' = {})
              /\ UNCHANGED <<running, finished>> /\ UNCHANGED path
Next == \/ \E w \in Workers, f \in Files : Dispatch(w, f)
        \/ \E w \in Workers : Finish(w)
        \/ \E f \in Files : Merge(f) \/ OpenOne(f)
        \/ ResolveLinks
Spec == Init /\ [][Next]_vars

Done == linked /\ pending = {}
\* confluence: whatever the schedule, order and path, the final index resolves every dependency
FinalIndexIsComplete == Done => (MergedSet = Files /\ \A f \in Files : resolved[f] = Deps[f])
EachFileMergedOnce == Len(merged) = Cardinality(MergedSet)
LinkOnlyAfterLastMerge == (path = "pool" /\ linked) => MergedSet = Files
=============================================================================
