CONSTANTS Opts = {"o1", "o2", "o3"}
SPECIFICATION Spec
INVARIANT FileWins
INVARIANT AbsentKeepsCli
INVARIANT MalformedIsReported
INVARIANT InitAlwaysCompletes
INVARIANT RequestedFileWins
