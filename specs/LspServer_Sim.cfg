CONSTANTS Ids = {"i1", "i2", "sA"} MaxLen = 12 Deviation = "none"
SPECIFICATION Spec
