CONSTANTS MaxLines = 3 MaxCols = 2 MaxIns = 2 InitCols = 2 InitLines = 1
SPECIFICATION SpecMC
VIEW View
INVARIANT Shape
INVARIANT Canonical
INVARIANT SplitFlatRoundTrip
PROPERTY LineCountLaw
PROPERTY EmptyEditIsIdentity
PROPERTY WholeRangeIsFull
PROPERTY PrefixSuffixKept
PROPERTY StructuredIsCharLevel
PROPERTY ReopenShowsDisk
