CONSTANTS Names = {"A", "B"} Vals = {"v1", "fn"} MaxLines = 4 MaxDepth = 1 ExprDepth = 0 AllowBare = FALSE StaleGroup = FALSE AtomKinds = {"def", "lit"} RelSet = {"=="}
SPECIFICATION MacroSpec
