CONSTANTS MaxD = 3 MaxNB = 2
SPECIFICATION Spec
INVARIANT AbstractNeverDiagnosed
INVARIANT CompleteIsSilent
INVARIANT MissingIsInherited
