CONSTANTS MaxMsgs = 1 MaxChars = 2 MaxCuts = 3 Reader = "ref" CountChars = FALSE
SPECIFICATION GenSpec
