--------------------------- MODULE FortranScopes ---------------------------
(***************************************************************************)
(* The block structure of a Fortran source file as the line parser of      *)
(* fortls sees it (C03, C04, C07, C13, C14).                               *)
(*                                                                         *)
(* A behaviour builds a program statement by statement (one statement =    *)
(* one logical line; `prog` is the program text in abstract form).         *)
(* `stack` is the stack of open scopes, `closed` the set of finished       *)
(* scopes with their first and last line.  NextValid's guards are the      *)
(* Fortran block grammar for the supported constructs: behaviours that end *)
(* with an empty stack are complete valid programs, every other state is a *)
(* valid program truncated at a statement boundary.  NextRobust enables    *)
(* every statement in every state (stack discipline only).  Defect(...)    *)
(* actions seed exactly one diagnosable defect and record the diagnostic   *)
(* the reference semantics expects (C07).                                  *)
(***************************************************************************)
EXTENDS Naturals, Sequences, SequencesExt, FiniteSets, TLC

CONSTANTS MaxLines, MaxDepth, Mode,     \* Mode: "valid" | "robust" | "defect"
          UnitKinds, ConstructKinds     \* alphabet restriction (model size)

Units      == {"module", "program", "sub", "fun"} \cap UnitKinds     \* "submodule" is opened by OpenSubmodule
ProcKinds  == {"sub", "fun"}
SpecScopes == {"module", "submodule", "program", "sub", "fun", "ibody"}     \* have a specification part
\* "ldo" is a labelled DO: "do 10" ... "10 continue" (numeric statement label, also legal in free form)
Constructs == {"block", "do", "ldo", "if", "select", "associate", "where"} \cap ConstructKinds
IfaceKinds == {"iface_named", "iface_abstract", "iface_op"}

VARIABLES stack,    \* open scopes: [kind, name, sline, phase, flags]
          closed,   \* finished scopes
          prog,     \* statements so far (one per line)
          expDiag,  \* diagnostics the reference semantics expects
          defects   \* number of defect actions taken
vars == <<stack, closed, prog, expDiag, defects>>

Line  == Len(prog) + 1
Depth == Len(stack)
Top   == stack[Depth]
Name(prefix) == <<prefix, Line>>             \* unique by construction: prefix + line number

\* phases of a specification-part scope: 0 USE allowed, 1 IMPLICIT allowed, 2 declarations,
\* 3 executable part, 4 after CONTAINS.  Types: 2 components, 4 bindings.
Emit(st) == prog' = Append(prog, st @@ [ln |-> Line, depth |-> Depth])

Push(kind, nm, ph) ==
  stack' = Append(stack, [kind |-> kind, name |-> nm, sline |-> Line, phase |-> ph,
                          implicitNone |-> FALSE, nproc |-> 0, needProc |-> FALSE, nbody |-> 0, uses |-> {}])
SetTop(f) == stack' = [stack EXCEPT ![Depth] = f]
TopUnit == IF Depth = 0 THEN <<>> ELSE stack[1].name

Container(d) == IF d >= 2 THEN stack[1].name ELSE <<>>
Pop ==
  /\ closed' = closed \cup {[kind |-> Top.kind, name |-> Top.name, sline |-> Top.sline, eline |-> Line,
                             depth |-> Depth, container |-> Container(Depth),
                             parent |-> IF Depth >= 2 THEN stack[Depth - 1].name ELSE <<>>,
                             uses |-> Top.uses]}
  /\ stack' = IF Depth >= 2 /\ Top.kind \in ProcKinds
              THEN [SubSeq(stack, 1, Depth - 1) EXCEPT ![Depth - 1].nproc = @ + 1]
              ELSE SubSeq(stack, 1, Depth - 1)

Bounded == Line <= MaxLines
Same == UNCHANGED <<expDiag, defects>>

(* ---- statements of the valid grammar ---------------------------------- *)
OpenUnit(k) ==
  /\ Bounded /\ Depth = 0
  /\ (k = "program" => ~\E c \in closed : c.kind = "program")    \* one main program
  /\ Push(k, Name(k), 0) /\ Emit([op |-> "open", kind |-> k, name |-> Name(k)])
  /\ UNCHANGED closed /\ Same

\* SUBMODULE (parent) name: the parent's entities are accessible by host association
\* SUBMODULE (root:parent) name: the parent is itself a submodule (of a module); `root` is that module
ClosedSubmodulesOfModules == {x \in closed : x.kind = "submodule" /\ x.depth = 1 /\ \E m \in x.uses : m[1] = "module"}
OpenSubmodule(par) ==
  /\ Bounded /\ Depth = 0 /\ "submodule" \in UnitKinds
  /\ par \in {c.name : c \in {x \in closed : x.kind = "module" /\ x.depth = 1}} \cup {x.name : x \in ClosedSubmodulesOfModules}
  /\ LET root == IF par[1] = "module" THEN <<>>
                 ELSE CHOOSE m \in (CHOOSE x \in ClosedSubmodulesOfModules : x.name = par).uses : m[1] = "module"
     IN /\ stack' = Append(stack, [kind |-> "submodule", name |-> Name("submodule"), sline |-> Line, phase |-> 0,
                                    implicitNone |-> FALSE, nproc |-> 0, needProc |-> FALSE, nbody |-> 0,
                                    uses |-> IF root = <<>> THEN {par} ELSE {par, root}])
        /\ Emit([op |-> "open", kind |-> "submodule", name |-> Name("submodule"), parent |-> par, root |-> root])
  /\ UNCHANGED closed /\ Same

ClosedModules == {c.name : c \in {x \in closed : x.kind = "module" /\ x.depth = 1}}

UseStmt(m) ==
  /\ Bounded /\ Depth > 0 /\ Top.kind \in SpecScopes /\ Top.phase = 0
  /\ m \in ClosedModules
  /\ Emit([op |-> "use", kind |-> "use", name |-> m])
  /\ SetTop([Top EXCEPT !.uses = @ \cup {m}])
  /\ UNCHANGED closed /\ Same

ImplicitNone ==
  /\ Bounded /\ Depth > 0 /\ Top.kind \in SpecScopes /\ Top.phase <= 1
  /\ SetTop([Top EXCEPT !.phase = 2, !.implicitNone = TRUE])
  /\ Emit([op |-> "implicit", kind |-> "implicit", name |-> <<>>])
  /\ UNCHANGED closed /\ Same

Decl ==
  /\ Bounded /\ Depth > 0
  /\ \/ Top.kind \in SpecScopes /\ Top.phase <= 2 /\ SetTop([Top EXCEPT !.phase = 2])
     \/ Top.kind = "type" /\ Top.phase = 2 /\ UNCHANGED stack
  /\ Emit([op |-> "decl", kind |-> IF Top.kind = "type" THEN "component" ELSE "var", name |-> Name("v")])
  /\ UNCHANGED closed /\ Same

\* derived types accessible in the innermost specification scope: public types of modules USEd by an
\* enclosing scope, and types already completed in an enclosing scope of the same unit
\* USE association is transitive through modules that re-export what they use (default PUBLIC)
ModUses(m) == UNION {c.uses : c \in {x \in closed : x.kind = "module" /\ x.depth = 1 /\ x.name = m}}
Step(S) == S \cup UNION {ModUses(m) : m \in S}
Reach(S) == Step(Step(Step(Step(S))))
UsedMods == Reach(UNION {stack[i].uses : i \in 1..Depth})
TypesVisible ==
  {c.name : c \in {x \in closed : x.kind = "type" /\ x.depth = 2 /\ x.container \in UsedMods}}
  \cup {c.name : c \in {x \in closed : x.kind = "type" /\ \E i \in 1..Depth : x.depth = i + 1 /\ x.parent = stack[i].name
                                          /\ x.sline > stack[i].sline}}
DeclTyped(t) ==
  /\ Bounded /\ Depth > 0 /\ Top.kind \in SpecScopes \ {"ibody"} /\ Top.phase <= 2 /\ t \in TypesVisible
  /\ SetTop([Top EXCEPT !.phase = 2])
  /\ Emit([op |-> "decl", kind |-> "typedvar", name |-> Name("v"), tname |-> t])
  /\ UNCHANGED closed /\ Same
\* PROCEDURE(iface), POINTER :: p  - a declaration, not a procedure definition
IbodiesHere == {c.name : c \in {x \in closed : x.kind = "ibody" /\ x.depth = Depth + 2 /\ x.sline > Top.sline
                    /\ \E y \in closed : y.kind = "iface_abstract" /\ y.sline < x.sline /\ x.eline < y.eline /\ y.depth = Depth + 1}}
DeclProcPtr(ib) ==
  /\ Bounded /\ Depth > 0 /\ Top.kind \in {"module", "program", "sub", "fun"} /\ Top.phase <= 2 /\ ib \in IbodiesHere
  /\ SetTop([Top EXCEPT !.phase = 2])
  /\ Emit([op |-> "decl", kind |-> "procptr", name |-> Name("pp"), tname |-> ib])
  /\ UNCHANGED closed /\ Same

OpenType ==
  /\ Bounded /\ Depth > 0 /\ Depth < MaxDepth /\ Top.kind \in SpecScopes \ {"ibody"} /\ Top.phase <= 2
  /\ stack' = Append([stack EXCEPT ![Depth].phase = 2],
                     [kind |-> "type", name |-> Name("t"), sline |-> Line, phase |-> 2,
                      implicitNone |-> FALSE, nproc |-> 0, needProc |-> FALSE, nbody |-> 0, uses |-> {}])
  /\ Emit([op |-> "open", kind |-> "type", name |-> Name("t")])
  /\ UNCHANGED closed /\ Same

\* a derived type that has the name of a generic interface declared earlier in the same scope
\* (the structure-constructor overloading idiom: "interface circle" ... "type :: circle")
IfacesHere == {c.name : c \in {x \in closed : x.kind = "iface_named" /\ x.depth = Depth + 1 /\ x.sline > Top.sline
                   /\ ~\E y \in closed : y.kind = "type" /\ y.name = x.name}}
OpenTypeNamedLikeIface(g) ==
  /\ Bounded /\ Depth > 0 /\ Depth < MaxDepth /\ Top.kind \in {"module", "program"} /\ Top.phase <= 2 /\ g \in IfacesHere
  /\ \A i \in 1..Depth : stack[i].name # g
  /\ stack' = Append([stack EXCEPT ![Depth].phase = 2],
                     [kind |-> "type", name |-> g, sline |-> Line, phase |-> 2,
                      implicitNone |-> FALSE, nproc |-> 0, needProc |-> FALSE, nbody |-> 0, uses |-> {}])
  /\ Emit([op |-> "open", kind |-> "type", name |-> g])
  /\ UNCHANGED closed /\ Same

TypeContains ==
  /\ Bounded /\ Depth > 1 /\ Top.kind = "type" /\ Top.phase = 2
  /\ stack[Depth - 1].kind = "module"          \* bindings need module procedures to bind to
  /\ SetTop([Top EXCEPT !.phase = 4])
  /\ Emit([op |-> "contains", kind |-> "typecontains", name |-> <<>>])
  /\ UNCHANGED closed /\ Same

Binding ==
  /\ Bounded /\ Depth > 1 /\ Top.kind = "type" /\ Top.phase = 4
  /\ stack' = [stack EXCEPT ![Depth - 1].needProc = TRUE]
  /\ Emit([op |-> "binding", kind |-> "binding", name |-> Name("b")])
  /\ UNCHANGED closed /\ Same

OpenIface(k) ==
  /\ Bounded /\ Depth > 0 /\ Depth < MaxDepth /\ k \in IfaceKinds
  /\ Top.kind \in SpecScopes \ {"ibody"} /\ Top.phase <= 2
  /\ stack' = Append([stack EXCEPT ![Depth].phase = 2],
                     [kind |-> k, name |-> IF k = "iface_named" THEN Name("g") ELSE IF k = "iface_op" THEN Name("o") ELSE <<>>, sline |-> Line, phase |-> 0,
                      implicitNone |-> FALSE, nproc |-> 0, needProc |-> FALSE, nbody |-> 0, uses |-> {}])
  /\ Emit([op |-> "open", kind |-> k, name |-> IF k = "iface_named" THEN Name("g") ELSE IF k = "iface_op" THEN Name("o") ELSE <<>>])
  /\ UNCHANGED closed /\ Same

OpenIbody(pk) ==
  /\ Bounded /\ Depth > 0 /\ Depth < MaxDepth /\ Top.kind \in IfaceKinds \ {"iface_op"} /\ Top.nbody = 0
  /\ stack' = Append([stack EXCEPT ![Depth].nbody = 1],
                     [kind |-> "ibody", name |-> Name(pk), sline |-> Line, phase |-> 0,
                      implicitNone |-> FALSE, nproc |-> 0, needProc |-> FALSE, nbody |-> 0, uses |-> {}])
  /\ Emit([op |-> "open", kind |-> "ibody", name |-> Name(pk), pk |-> pk])
  /\ UNCHANGED closed /\ Same

Exec ==
  /\ Bounded /\ Depth > 0
  /\ \/ Top.kind \in {"program", "sub", "fun"} /\ Top.phase <= 3 /\ SetTop([Top EXCEPT !.phase = 3])
     \/ Top.kind \in Constructs \ {"where", "select"} /\ UNCHANGED stack
  /\ Emit([op |-> "exec", kind |-> "exec", name |-> <<>>])
  /\ UNCHANGED closed /\ Same

OpenConstruct(k) ==
  /\ Bounded /\ Depth > 0 /\ Depth < MaxDepth /\ k \in Constructs
  /\ \/ Top.kind \in {"program", "sub", "fun"} /\ Top.phase <= 3
     \/ Top.kind \in Constructs \ {"where", "select"}
  /\ stack' = Append(IF Top.kind \in Constructs THEN stack ELSE [stack EXCEPT ![Depth].phase = 3],
                     [kind |-> k, name |-> <<>>, sline |-> Line, phase |-> 3,
                      implicitNone |-> FALSE, nproc |-> 0, needProc |-> FALSE, nbody |-> 0, uses |-> {}])
  /\ Emit([op |-> "open", kind |-> k, name |-> <<>>])
  /\ UNCHANGED closed /\ Same

\* CONTAINS: module / program / a module procedure (host is a module); internal procedures cannot CONTAIN
CanContain == \/ Top.kind \in {"module", "submodule", "program"}
              \/ Top.kind \in ProcKinds /\ (Depth = 1 \/ (Depth = 2 /\ stack[1].kind = "module"))
ContainsStmt ==
  /\ Bounded /\ Depth > 0 /\ Depth < MaxDepth /\ CanContain /\ Top.phase <= 3
  /\ SetTop([Top EXCEPT !.phase = 4])
  /\ Emit([op |-> "contains", kind |-> "contains", name |-> <<>>])
  /\ UNCHANGED closed /\ Same

OpenProc(pk) ==
  /\ Bounded /\ Depth > 0 /\ Depth < MaxDepth /\ pk \in ProcKinds
  /\ Top.kind \in {"module", "submodule", "program", "sub", "fun"} /\ Top.phase = 4
  /\ Push(pk, Name(pk), 0) /\ Emit([op |-> "open", kind |-> pk, name |-> Name(pk)])
  /\ UNCHANGED closed /\ Same

\* END: bare / with keyword / with keyword and name (the renderer picks per `form`)
EndForms(k) == IF k \in {"module", "submodule", "program", "sub", "fun", "ibody"} THEN {"bare", "kind", "kindName"}
               ELSE IF k \in {"type", "iface_named", "iface_op"} THEN {"kind", "kindName"} ELSE {"kind"}
ValidEnd == /\ Top.kind = "module" => (Top.needProc => Top.nproc > 0)     \* bindings resolve
            /\ Top.kind \in {"module", "submodule", "program", "sub", "fun"} /\ Top.phase = 4 => Top.nproc > 0  \* CONTAINS is followed by a procedure
            /\ Top.kind \in IfaceKinds \ {"iface_op"} => Top.nbody > 0
End(form) ==
  /\ Bounded /\ Depth > 0 /\ form \in EndForms(Top.kind) /\ ValidEnd
  /\ Pop /\ Emit([op |-> "end", kind |-> Top.kind, name |-> Top.name, form |-> form])
  /\ Same

(* ---- robust alphabet: the same statements with no grammar guard -------- *)
AnyKinds == Units \cup {"type", "iface_named", "iface_abstract", "ibody"} \cup Constructs
ROpen(k) == /\ Bounded /\ Depth < MaxDepth + 1
            /\ Push(k, IF k \in Constructs \cup {"iface_abstract"} THEN <<>> ELSE Name(k), 0)
            /\ Emit([op |-> "open", kind |-> k, name |-> IF k \in Constructs \cup {"iface_abstract"} THEN <<>> ELSE Name(k), pk |-> "sub"])
            /\ UNCHANGED closed /\ Same
RStmt(op) == /\ Bounded
             /\ Emit([op |-> op, kind |-> op, name |-> IF op \in {"decl", "binding"} THEN Name("v") ELSE <<>>])
             /\ UNCHANGED <<stack, closed>> /\ Same
REnd(k, form) == /\ Bounded
                 /\ IF Depth > 0 THEN Pop ELSE UNCHANGED <<stack, closed>>
                 /\ Emit([op |-> "end", kind |-> k, name |-> IF Depth > 0 THEN Top.name ELSE <<>>, form |-> form, orphan |-> Depth = 0])
                 /\ Same
Garbled(k) == /\ Bounded
              /\ Emit([op |-> "garbled", kind |-> k, name |-> Name("x")])
              /\ UNCHANGED <<stack, closed>> /\ Same

(* ---- seeded defects (C07) ---------------------------------------------- *)
Diag(cls, sev, lines) == /\ expDiag' = expDiag \cup {[class |-> cls, sev |-> sev, lines |-> lines]}
                         /\ defects' = defects + 1
DeclsInTop == {prog[i].name : i \in {j \in 1..Len(prog) : prog[j].op = "decl" /\ prog[j].depth = Depth /\ prog[j].ln > Top.sline
                                        /\ ~\E c \in closed : c.sline <= prog[j].ln /\ prog[j].ln <= c.eline}}
DeclTwice(n) ==
  /\ Bounded /\ defects = 0 /\ Depth > 0 /\ Top.kind \in SpecScopes \ {"ibody"} /\ Top.phase = 2 /\ n \in DeclsInTop
  /\ Emit([op |-> "decl", kind |-> "var", name |-> n]) /\ Diag("DeclTwice", 1, {Line})
  /\ UNCHANGED <<stack, closed>>
HostDecls == IF Depth < 2 THEN {} ELSE
  {prog[i].name : i \in {j \in 1..Len(prog) : prog[j].op = "decl" /\ prog[j].kind = "var" /\ prog[j].depth = Depth - 1
                                  /\ prog[j].ln > stack[Depth - 1].sline
                                  /\ ~\E c \in closed : c.sline <= prog[j].ln /\ prog[j].ln <= c.eline}}
MaskHost(n) ==
  /\ Bounded /\ defects = 0 /\ Depth > 1 /\ Top.kind \in ProcKinds /\ Top.phase <= 2 /\ n \in HostDecls
  /\ SetTop([Top EXCEPT !.phase = 2])
  /\ Emit([op |-> "decl", kind |-> "var", name |-> n]) /\ Diag("MaskHost", 2, {Line})
  /\ UNCHANGED closed
UseUnknownModule ==
  /\ Bounded /\ defects = 0 /\ Depth > 0 /\ Top.kind \in SpecScopes /\ Top.phase = 0
  /\ Emit([op |-> "use", kind |-> "use", name |-> <<"nomod", 0>>]) /\ Diag("UseUnknownModule", 3, {Line})
  /\ UNCHANGED <<stack, closed>>
SecondContains ==
  /\ Bounded /\ defects = 0 /\ Depth > 0 /\ Top.kind \in {"module", "program"} /\ Top.phase = 4 /\ Top.nproc > 0
  /\ Emit([op |-> "contains", kind |-> "contains", name |-> <<>>]) /\ Diag("SecondContains", 1, {Line})
  /\ UNCHANGED <<stack, closed>>
Orphan(what) ==
  /\ Bounded /\ defects = 0 /\ Depth = 0 /\ what \in {"contains", "implicit", "private"}
  /\ Emit([op |-> what, kind |-> what, name |-> <<>>]) /\ Diag("Orphan_" \o what, 1, {Line})
  /\ UNCHANGED <<stack, closed>>
ImportOutsideInterface ==
  /\ Bounded /\ defects = 0 /\ Depth = 1 /\ Top.kind \in {"module", "program", "sub", "fun"} /\ Top.phase <= 1
  /\ Emit([op |-> "import", kind |-> "import", name |-> <<>>]) /\ Diag("ImportOutsideInterface", 1, {Line})
  /\ UNCHANGED <<stack, closed>>
UseAfterImplicit(m) ==
  /\ Bounded /\ defects = 0 /\ Depth > 0 /\ Top.kind \in SpecScopes /\ Top.phase = 2 /\ Top.implicitNone
  /\ prog[Len(prog)].op = "implicit" /\ m \in ClosedModules
  /\ Emit([op |-> "use", kind |-> "use", name |-> m]) /\ Diag("UseAfterImplicit", 1, {Line - 1, Line})
  /\ UNCHANGED <<stack, closed>>
ProcBeforeContains(pk) ==
  /\ Bounded /\ defects = 0 /\ Depth = 1 /\ Depth < MaxDepth /\ Top.kind \in {"module", "program"} /\ Top.phase <= 3
  /\ pk \in ProcKinds
  /\ Push(pk, Name(pk), 0) /\ Emit([op |-> "open", kind |-> pk, name |-> Name(pk)])
  /\ Diag("ProcBeforeContains", 1, {Line}) /\ UNCHANGED closed
ProcInTypeOrBlock(pk) ==
  /\ Bounded /\ defects = 0 /\ Depth > 0 /\ Depth < MaxDepth /\ Top.kind \in {"type", "block"} /\ pk \in ProcKinds
  /\ (Top.kind = "type" => Top.phase = 2)
  /\ Push(pk, Name(pk), 0) /\ Emit([op |-> "open", kind |-> pk, name |-> Name(pk)])
  /\ Diag("ProcInTypeOrBlock", 1, {Line}) /\ UNCHANGED closed
IntentNotArg ==
  /\ Bounded /\ defects = 0 /\ Depth > 0 /\ Top.kind \in ProcKinds /\ Top.phase <= 2
  /\ SetTop([Top EXCEPT !.phase = 2])
  /\ Emit([op |-> "decl", kind |-> "intentvar", name |-> Name("v")]) /\ Diag("IntentNotArg", 1, {Line})
  /\ UNCHANGED closed
\* a bare END while a block construct is still open closes the construct, not the procedure
BareEndInConstruct ==
  /\ Bounded /\ defects = 0 /\ Depth > 1 /\ Top.kind \in Constructs /\ stack[Depth - 1].kind \in {"program", "sub", "fun"}
  /\ Pop /\ Emit([op |-> "end", kind |-> stack[Depth - 1].kind, name |-> stack[Depth - 1].name, form |-> "bare", closesConstruct |-> TRUE])
  /\ Diag("BareEndInConstruct", 1, {Top.sline, Line})
\* a dummy argument that is never declared, in a host that is IMPLICIT NONE
ArgUndeclared(pk) ==
  /\ Bounded /\ defects = 0 /\ Depth > 0 /\ Depth < MaxDepth /\ pk \in ProcKinds
  /\ Top.kind \in {"module", "program"} /\ Top.phase = 4 /\ Top.implicitNone
  /\ Push(pk, Name(pk), 0) /\ Emit([op |-> "open", kind |-> pk, name |-> Name(pk), arg |-> Name("a")])
  /\ Diag("ArgUndeclared", 1, {Line}) /\ UNCHANGED closed
\* a variable of a derived type that exists in another module of the project which this unit does not USE
HiddenTypes == {c.name : c \in {x \in closed : x.kind = "type" /\ x.depth = 2 /\ x.container \in ClosedModules}}
TypeNotAccessible(t) ==
  /\ Bounded /\ defects = 0 /\ Depth = 1 /\ Top.kind \in {"module", "program", "sub", "fun"} /\ Top.phase <= 2
  /\ t \in HiddenTypes
  /\ \A c \in closed : (c.kind = "type" /\ c.name = t) => c.container \notin Reach(Top.uses)
  /\ SetTop([Top EXCEPT !.phase = 2])
  /\ Emit([op |-> "decl", kind |-> "typedvar", name |-> Name("v"), tname |-> t]) /\ Diag("TypeNotAccessible", 1, {Line})
  /\ UNCHANGED closed
OverlongLine ==
  /\ Bounded /\ defects = 0 /\ Depth > 0 /\ Top.kind \in {"program", "sub", "fun"} /\ Top.phase <= 3
  /\ SetTop([Top EXCEPT !.phase = 3])
  /\ Emit([op |-> "exec", kind |-> "longexec", name |-> <<>>]) /\ Diag("OverlongLine", 2, {Line})
  /\ UNCHANGED closed

ValidStmt ==
  \/ \E k \in Units : OpenUnit(k)
  \/ \E m \in ClosedModules \cup {x.name : x \in ClosedSubmodulesOfModules} : OpenSubmodule(m)
  \/ \E m \in ClosedModules : UseStmt(m)
  \/ ImplicitNone \/ Decl \/ OpenType \/ TypeContains \/ Binding
  \/ \E t \in TypesVisible : DeclTyped(t)
  \/ \E ib \in IbodiesHere : DeclProcPtr(ib)
  \/ \E g \in IfacesHere : OpenTypeNamedLikeIface(g)
  \/ \E k \in IfaceKinds : OpenIface(k)
  \/ \E pk \in ProcKinds : OpenIbody(pk)
  \/ Exec
  \/ \E k \in Constructs : OpenConstruct(k)
  \/ ContainsStmt
  \/ \E pk \in ProcKinds : OpenProc(pk)
  \/ \E f \in {"bare", "kind", "kindName"} : End(f)

DefectStmt ==
  \/ \E n \in DeclsInTop : DeclTwice(n)
  \/ \E n \in HostDecls : MaskHost(n)
  \/ UseUnknownModule \/ SecondContains
  \/ \E w \in {"contains", "implicit", "private"} : Orphan(w)
  \/ ImportOutsideInterface
  \/ \E m \in ClosedModules : UseAfterImplicit(m)
  \/ \E pk \in ProcKinds : ProcBeforeContains(pk)
  \/ \E pk \in ProcKinds : ProcInTypeOrBlock(pk)
  \/ IntentNotArg \/ BareEndInConstruct \/ OverlongLine
  \/ \E pk \in ProcKinds : ArgUndeclared(pk)
  \/ \E t \in HiddenTypes : TypeNotAccessible(t)

RobustStmt ==
  \/ \E k \in AnyKinds : ROpen(k)
  \/ \E op \in {"use", "implicit", "decl", "exec", "contains", "binding", "import", "private", "typecontains"} : RStmt(op)
  \/ \E k \in AnyKinds, f \in {"bare", "kind", "kindName"} : REnd(k, f)
  \/ \E k \in {"open", "decl", "use", "end"} : Garbled(k)

Init == stack = <<>> /\ closed = {} /\ prog = <<>> /\ expDiag = {} /\ defects = 0
Next == IF Mode = "valid" THEN ValidStmt
        ELSE IF Mode = "defect" THEN (ValidStmt \/ DefectStmt)
        ELSE RobustStmt
Spec == Init /\ [][Next]_vars
SpecValid  == Init /\ [][ValidStmt]_vars
SpecDefect == Init /\ [][ValidStmt \/ DefectStmt]_vars
SpecRobust == Init /\ [][RobustStmt]_vars
\* focus generator: derived-type accessibility across several scopes of one file
TypeFocus == \/ \E k \in {"module", "sub"} : OpenUnit(k)
             \/ \E m \in ClosedModules : UseStmt(m)
             \/ \E t \in TypesVisible : DeclTyped(t)
             \/ OpenType \/ End("kind")
             \/ \E t \in HiddenTypes : TypeNotAccessible(t)
SpecTypes == Init /\ [][TypeFocus]_vars
\* focus generator: PROCEDURE(iface) declarations next to CONTAINS'ed procedures
ProcFocus == \/ \E k \in {"module", "program"} : OpenUnit(k)
             \/ OpenIface("iface_abstract") \/ OpenIface("iface_named") \/ OpenIbody("sub") \/ End("kind")
             \/ \E g \in IfacesHere : OpenTypeNamedLikeIface(g)
             \/ \E ib \in IbodiesHere : DeclProcPtr(ib)
             \/ ContainsStmt \/ OpenProc("sub") \/ Decl
SpecProcs == Init /\ [][ProcFocus]_vars
\* focus generator: submodules using what their parent module declares
SubmodFocus == \/ OpenUnit("module") \/ OpenType \/ End("kind") \/ End("kindName")
               \/ \E m \in ClosedModules \cup {x.name : x \in ClosedSubmodulesOfModules} : OpenSubmodule(m)
               \/ \E t \in TypesVisible : DeclTyped(t)
               \/ ContainsStmt \/ OpenProc("sub") \/ Decl
SpecSubmod == Init /\ [][SubmodFocus]_vars

(* ---- properties --------------------------------------------------------- *)
Complete == stack = <<>> /\ prog # <<>>
WellNested ==
  /\ \A c \in closed : c.sline <= c.eline /\ c.eline <= Len(prog)
  /\ \A c, d \in closed : (c # d) =>
        \/ c.eline < d.sline \/ d.eline < c.sline                      \* disjoint
        \/ (c.sline < d.sline /\ d.eline < c.eline /\ c.depth < d.depth)  \* d inside c
        \/ (d.sline < c.sline /\ c.eline < d.eline /\ d.depth < c.depth)
StackOrdered == \A i \in 1..(Depth - 1) : stack[i].sline < stack[i + 1].sline
OpenAfterClosed == \A c \in closed : \A i \in 1..Depth : (stack[i].sline < c.sline) \/ (c.eline < stack[i].sline)
EveryOpenIsClosedOrOnStack ==
  Cardinality({i \in 1..Len(prog) : prog[i].op = "open"}) = Cardinality(closed) + Depth
DefectsAtMostOne == defects <= 1 /\ Cardinality(expDiag) = defects
View == <<stack, closed, Len(prog), expDiag, defects>>
=============================================================================
