CONSTANTS Ids = {"i1", "sA"} MaxLen = 4 Deviation = "none"
SPECIFICATION Spec
