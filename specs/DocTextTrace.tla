---------------------------- MODULE DocTextTrace ----------------------------
(* Trace specification for C02: re-executes recorded didChange events on the *)
(* reference document of DocText and compares the server's recorded state    *)
(* after every event.  Characters are integers (code points); the inserted   *)
(* texts of recorded traces never contain a lone CR, so ApplyLines is the    *)
(* exact character-level meaning (SplitPair cannot occur).                   *)
EXTENDS DocText, Json, IOUtils, TLCExt

Data   == JsonDeserialize(IOEnv.TRACE_FILE)
Traces == Data.traces
NT     == Len(Traces)

VARIABLES tid, l
tvars == <<lines, eols, pl, pe, edit, disk, nstep, tid, l>>

ASSUME TLCSet(1, [t \in 1..NT |-> 0])

TInit == /\ tid \in 1..NT
         /\ l = 1
         /\ lines = Traces[tid].init
         /\ eols = <<>> /\ pl = <<>> /\ pe = <<>> /\ edit = [k |-> "open"]
         /\ disk = [tl |-> <<>>, te |-> <<>>] /\ nstep = 0

LensOf(L) == [i \in 1..Len(L) |-> Len(L[i])]

TNext == /\ l <= Len(Traces[tid].events)
         /\ LET e == Traces[tid].events[l]
                t == [tl |-> e.tl, te |-> e.te] IN
            /\ IF e.k = "full" THEN lines' = e.tl
               ELSE /\ ValidRange(lines, e.sl + 1, e.sc, e.el + 1, e.ec)
                    /\ lines' = ApplyLines(lines, e.sl + 1, e.sc, e.el + 1, e.ec, t)
            \* the implementation's recorded post-state must be the reference one
            /\ Len(lines') = e.post_n
            /\ LensOf(lines') = e.post_lens
            /\ IF e.k = "full" THEN TRUE
               ELSE SubSeq(lines', e.sl + 1, e.sl + Len(e.tl)) = e.post_touch
         /\ l' = l + 1
         /\ UNCHANGED <<tid, eols, pl, pe, edit, disk, nstep>>

TSpec == TInit /\ [][TNext]_tvars

Mark == TLCSet(1, [TLCGet(1) EXCEPT ![tid] = IF l > @ THEN l ELSE @])
Post == PrintT(<<"REACHED", TLCGet(1)>>)
=============================================================================
