SPECIFICATION Spec
INVARIANT StagedEqualsReference
INVARIANT LookAlikesNeverIndexed
INVARIANT NothingOutsideSourceDirs
