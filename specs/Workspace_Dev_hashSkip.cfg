CONSTANTS Files = {"a", "b", "c"} Variants = {1, 2, 3} MaxLen = 8 Deviation = "hashSkip"
SPECIFICATION Spec
VIEW View
INVARIANT AnswersDependOnFilesOnly

