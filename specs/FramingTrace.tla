---------------------------- MODULE FramingTrace ----------------------------
(* Trace specification for the server's OUTPUT stream (C16, writer side).    *)
(* A recorded trace is the list of frames an independent reader cut out of   *)
(* the bytes the server wrote: announced Content-Length, the byte length of  *)
(* the JSON value that actually follows the header, whether it parsed, and   *)
(* at the end how many bytes were left over.                                 *)
EXTENDS Naturals, Sequences, TLC, Json, IOUtils, TLCExt
Data   == JsonDeserialize(IOEnv.TRACE_FILE)
Traces == Data.traces
NT     == Len(Traces)
VARIABLES tid, l, emitted
ASSUME TLCSet(1, [t \in 1..NT |-> 0])
TInit == tid \in 1..NT /\ l = 1 /\ emitted = 0
Emit(e)  == e.k = "frame" /\ e.json /\ e.cl = e.bytes /\ e.hdr_ok /\ emitted' = emitted + 1
Finish(e) == e.k = "end" /\ e.leftover = 0 /\ e.frames = emitted /\ emitted' = emitted
TNext == /\ l <= Len(Traces[tid])
         /\ (Emit(Traces[tid][l]) \/ Finish(Traces[tid][l]))
         /\ l' = l + 1 /\ UNCHANGED tid
TSpec == TInit /\ [][TNext]_<<tid, l, emitted>>
Mark == TLCSet(1, [TLCGet(1) EXCEPT ![tid] = IF l > @ THEN l ELSE @])
Post == PrintT(<<"REACHED", TLCGet(1)>>)
=============================================================================
