--------------------------- MODULE LspServerTrace ---------------------------
(***************************************************************************)
(* Trace specification binding LspServer.tla to the running server.        *)
(* A trace is the sequence of events recorded around the real connection   *)
(* object: every message the loop consumed ("req" / "note") and every      *)
(* message it wrote ("resp" / "nout"), in order, plus a final "end" event  *)
(* saying how many input frames were left unread.  The trace spec steps    *)
(* LspServer's actions: a consumed request becomes pending; the next       *)
(* response must carry its id and a tag allowed for its class; nothing     *)
(* else may be written as a response; nothing is consumed while a request  *)
(* is pending; all input is consumed unless exit was.                      *)
(* C09 rides on the same traces: every range in a response must lie in     *)
(* its document (geometry recorded next to the range).                     *)
(***************************************************************************)
EXTENDS Naturals, Integers, Sequences, TLC, Json, IOUtils, TLCExt

Data   == JsonDeserialize(IOEnv.TRACE_FILE)
Traces == Data.traces
NT     == Len(Traces)
Strict == Data.strict      \* TRUE: InternalError is not acceptable for class "known" (C09)

VARIABLES tid, l, running, pending, pcls
tvars == <<tid, l, running, pending, pcls>>

ASSUME TLCSet(1, [t \in 1..NT |-> 0])

AllowedTag(cls, tag) ==
  CASE cls = "init"      -> tag = "result"
    [] cls = "known"     -> tag = "result" \/ (~Strict /\ tag = "InternalError")
    [] cls = "malformed" -> tag \in {"result", "InternalError"}
    [] cls = "unknown"   -> tag = "MethodNotFound"
    [] cls = "shutdown"  -> tag = "result"
    [] OTHER             -> FALSE

\* a returned range [sl, sc, el, ec, nlines, len_sl, len_el] addresses an existing place
RangeOk(r) == /\ 0 <= r[1] /\ r[1] < r[5]
              /\ 0 <= r[2] /\ r[2] <= r[6]
              /\ 0 <= r[3] /\ r[3] < r[5]
              /\ 0 <= r[4] /\ r[4] <= r[7]
              /\ (r[1] < r[3] \/ (r[1] = r[3] /\ r[2] <= r[4]))

TInit == tid \in 1..NT /\ l = 1 /\ running = TRUE /\ pending = "none" /\ pcls = "none"

ConsumeRequest(e) == /\ e.k = "req" /\ running /\ pending = "none"
                     /\ pending' = e.id /\ pcls' = e.cls /\ running' = running
ConsumeNotification(e) == /\ e.k = "note" /\ running /\ pending = "none"
                          /\ running' = (e.cls # "exit") /\ UNCHANGED <<pending, pcls>>
WriteResponse(e) == /\ e.k = "resp" /\ pending # "none" /\ e.id = pending
                    /\ AllowedTag(pcls, e.tag) /\ e.json
                    /\ \A i \in 1..Len(e.ranges) : RangeOk(e.ranges[i])
                    /\ pending' = "none" /\ pcls' = "none" /\ running' = running
WriteNotification(e) == /\ e.k = "nout" /\ e.json
                        /\ \A i \in 1..Len(e.ranges) : RangeOk(e.ranges[i])
                        /\ UNCHANGED <<running, pending, pcls>>
End(e) == /\ e.k = "end" /\ pending = "none"
          /\ (running => e.unread = 0)
          /\ UNCHANGED <<running, pending, pcls>>

TNext == /\ l <= Len(Traces[tid])
         /\ LET e == Traces[tid][l] IN
              ConsumeRequest(e) \/ ConsumeNotification(e) \/ WriteResponse(e) \/ WriteNotification(e) \/ End(e)
         /\ l' = l + 1 /\ UNCHANGED tid
TSpec == TInit /\ [][TNext]_tvars
Mark == TLCSet(1, [TLCGet(1) EXCEPT ![tid] = IF l > @ THEN l ELSE @])
Post == PrintT(<<"REACHED", TLCGet(1)>>)
=============================================================================
