CONSTANTS MaxSegs = 2 MaxLen = 2
SPECIFICATION Spec
INVARIANT RoundTrip
INVARIANT NoRawReserved
INVARIANT PercentIsEscaped
