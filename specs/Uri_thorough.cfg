CONSTANTS MaxSegs = 2 MaxLen = 3
SPECIFICATION Spec
INVARIANT RoundTrip
INVARIANT NoRawReserved
INVARIANT PercentIsEscaped
