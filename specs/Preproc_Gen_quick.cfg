CONSTANTS Names = {"A", "B"} Vals = {"ref", "empty", "v1", "txt", "fn"} MaxLines = 3 MaxDepth = 2 ExprDepth = 0 AllowBare = FALSE StaleGroup = FALSE AtomKinds = {"def", "defsp", "cmp", "lit"} RelSet = {"=="}
SPECIFICATION Spec
