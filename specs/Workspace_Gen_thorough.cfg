CONSTANTS Files = {"a", "b", "c"} Variants = {1, 2, 3} MaxLen = 5 Deviation = "none"
SPECIFICATION Spec
