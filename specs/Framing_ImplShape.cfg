CONSTANTS MaxMsgs = 2 MaxChars = 1 MaxCuts = 100 Reader = "firstLineOnly" CountChars = FALSE
SPECIFICATION Spec
VIEW View
INVARIANT NeverDead
INVARIANT AllDecodedAtEnd
