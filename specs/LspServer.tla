----------------------------- MODULE LspServer -----------------------------
(***************************************************************************)
(* The message loop of the language server (C01, C09).                     *)
(*                                                                         *)
(* fortls is sequential: LangServer.run reads one message, handles it      *)
(* completely (writing its output), then reads the next.  So one handled   *)
(* message = one action.  Message classes:                                 *)
(*   requests:      init, known (a handled method with well-formed         *)
(*                  params), malformed (handled method, params missing or  *)
(*                  of the wrong type), unknown (no such method), shutdown *)
(*   notifications: sync (didOpen/Change/Save/Close), syncbad (malformed), *)
(*                  other (initialized, $/cancelRequest, ...), unknownN,   *)
(*                  exit                                                   *)
(*                                                                         *)
(* Reference behaviour: a request appends exactly one response carrying    *)
(* its id and a tag allowed for its class; a notification appends no       *)
(* response; only exit stops the loop.                                     *)
(*                                                                         *)
(* Named deviations (implementation-shaped; off in the reference runs, on  *)
(* in the model self-tests where TLC must produce a counterexample):       *)
(*   "diagAsResponse"  a sync notification whose diagnostics pass throws   *)
(*                     writes an error RESPONSE with id -1                 *)
(*   "dieOnError"      a handler failure ends the loop                     *)
(*   "dropOnError"     a handler failure writes nothing                    *)
(***************************************************************************)
EXTENDS Naturals, Sequences, SequencesExt, FiniteSets, TLC

CONSTANTS Ids, MaxLen, Deviation

ReqClasses  == {"init", "known", "malformed", "unknown", "shutdown"}
NoteClasses == {"sync", "syncbad", "other", "unknownN", "exit"}
Tags        == {"result", "MethodNotFound", "InternalError"}

Allowed(cls) == CASE cls = "init"      -> {"result"}
                  [] cls = "known"     -> {"result", "InternalError"}
                  [] cls = "malformed" -> {"result", "InternalError"}
                  [] cls = "unknown"   -> {"MethodNotFound"}
                  [] cls = "shutdown"  -> {"result"}

VARIABLES running,    \* the loop is alive
          out,        \* responses written so far: [id, tag]
          received,   \* ids of the requests consumed so far, in order
          hist        \* messages consumed so far
vars == <<running, out, received, hist>>

Init == running = TRUE /\ out = <<>> /\ received = <<>> /\ hist = <<>>

Request(id, cls) ==
  /\ running /\ Len(hist) < MaxLen
  /\ received' = Append(received, id)
  /\ hist' = Append(hist, [k |-> "req", id |-> id, cls |-> cls])
  /\ \E tag \in Allowed(cls) :
       IF tag = "InternalError" /\ Deviation = "dieOnError"
         THEN out' = Append(out, [id |-> id, tag |-> tag]) /\ running' = FALSE
       ELSE IF tag = "InternalError" /\ Deviation = "dropOnError"
         THEN out' = out /\ running' = running
       ELSE out' = Append(out, [id |-> id, tag |-> tag]) /\ running' = running

Notification(cls) ==
  /\ running /\ Len(hist) < MaxLen
  /\ hist' = Append(hist, [k |-> "note", id |-> "none", cls |-> cls])
  /\ received' = received
  /\ running' = (cls # "exit")
  /\ IF Deviation = "diagAsResponse" /\ cls = "sync"
       THEN out' \in {out, Append(out, [id |-> "minus1", tag |-> "InternalError"])}
       ELSE out' = out

Next == \/ \E id \in Ids, cls \in ReqClasses : Request(id, cls)
        \/ \E cls \in NoteClasses : Notification(cls)
Spec == Init /\ [][Next]_vars

---------------------------------------------------------------------------
OneResponsePerRequestInOrder ==
  /\ Len(out) = Len(received)
  /\ \A i \in 1..Len(out) : out[i].id = received[i]
ResponseIdsWereReceived == \A i \in 1..Len(out) : \E j \in 1..Len(received) : received[j] = out[i].id
UnknownIsMethodNotFound ==
  \A i \in 1..Len(hist) : hist[i].k = "req" /\ hist[i].cls = "unknown" =>
     LET n == Cardinality({j \in 1..i : hist[j].k = "req"}) IN n <= Len(out) => out[n].tag = "MethodNotFound"
ServesUntilExit == (~running) => (Len(hist) > 0 /\ hist[Len(hist)].cls = "exit")
NotificationsAreSilent ==
  [][\A cls \in NoteClasses : (hist' # hist /\ hist'[Len(hist')].k = "note") => out' = out]_vars
View == <<running, out, received>>
=============================================================================
