------------------------------ MODULE TypeRes ------------------------------
(***************************************************************************)
(* Member access through `%` and inheritance by EXTENDS (C05, C12).        *)
(* A universe is a chain of derived types t1 <- t2 <- ... <- tD (ti+1      *)
(* extends ti); type ti declares component c_i and type-bound procedure    *)
(* b_i.  Each type lives in its own module; `place` says which file each   *)
(* module is in and `rank` in which order the files are enumerated, so     *)
(* that the chain is linked in every order.  A program declares a variable *)
(* of the leaf type.  Reference semantics:                                 *)
(*    Members(i)  = own members of t_i plus Members(i-1)                   *)
(*    Owner(m)    = the type that declares member m                        *)
(***************************************************************************)
EXTENDS Naturals, FiniteSets, Sequences, TLC
MaxD == 3
Perms3 == {<<1, 2, 3>>, <<1, 3, 2>>, <<2, 1, 3>>, <<2, 3, 1>>, <<3, 1, 2>>, <<3, 2, 1>>}
VARIABLES D,       \* depth of the chain
          place,   \* level -> file index (1..3); several types may share a file
          rank,    \* permutation: enumeration order of the three module files
          progFirst, \* the program file is enumerated before / after the modules
          oneModule, \* all types live in ONE module which also holds PRIVATE components p_i and a procedure using them
          editRoot,  \* after indexing, the root type's component c1 is renamed to c9 by an unsaved edit
          members, owner
vars == <<D, place, rank, progFirst, oneModule, editRoot, members, owner>>

RECURSIVE Mem(_)
Mem(i) == IF i = 0 THEN {} ELSE {<<"c", i>>, <<"b", i>>} \cup Mem(i - 1)

Init == /\ D \in 1..MaxD
        /\ place \in [1..MaxD -> 1..3] /\ rank \in Perms3 /\ progFirst \in BOOLEAN
        /\ oneModule \in BOOLEAN /\ editRoot \in BOOLEAN
        /\ (oneModule => place = [i \in 1..MaxD |-> 1] /\ rank = <<1, 2, 3>>)
        /\ members = [i \in 1..MaxD |-> Mem(i)]
        /\ owner = [m \in Mem(MaxD) |-> m[2]]
Next == UNCHANGED vars
Spec == Init /\ [][Next]_vars
InheritsEverything == \A i \in 2..MaxD : members[i - 1] \subseteq members[i]
OwnerDeclares == \A m \in Mem(MaxD) : m \in members[owner[m]] /\ (owner[m] > 1 => m \notin members[owner[m] - 1])
LeafSeesRoot == <<"c", 1>> \in members[D]
=============================================================================
