------------------------------ MODULE UseGraph ------------------------------
(***************************************************************************)
(* USE association along a diamond (C05): module `store` declares the      *)
(* names, `hub` re-exports store, `ma` and `mb` both use hub, the program  *)
(* uses ma and mb.  Every edge may carry an ONLY list.  The reference      *)
(* semantics is the layered fixpoint: what a module makes visible is what  *)
(* it declares plus what its USE edges let through.                        *)
(***************************************************************************)
EXTENDS Naturals, FiniteSets, TLC
Names == {"alpha", "beta"}
Filters == {"all", "alpha", "beta", "both"}      \* no ONLY | only: alpha | only: beta | only: alpha, beta
Pass(f, S) == CASE f = "all" -> S [] f = "alpha" -> S \cap {"alpha"} [] f = "beta" -> S \cap {"beta"} [] f = "both" -> S
\* priv: which module (if any) is PRIVATE by default and re-exports every name it offers with an explicit PUBLIC
\* statement - by the standard that changes nothing about what its clients see;  ren: the program's ONLY list on
\* `ma` spells alpha as `la => alpha` (local name la)
VARIABLES hubF, maF, mbF, pA, pB, maFirst, priv, ren, visible
vars == <<hubF, maF, mbF, pA, pB, maFirst, priv, ren, visible>>
VisHub == Pass(hubF, Names)
VisMa  == Pass(maF, VisHub)
VisMb  == Pass(mbF, VisHub)
Local(n) == IF ren /\ n = "alpha" /\ pA \in {"alpha", "both"} THEN "la" ELSE n
VisPA  == {Local(n) : n \in Pass(pA, VisMa)}
VisP   == VisPA \cup Pass(pB, VisMb)
\* an ONLY list may only name what the module offers
Ok == /\ (hubF \in {"alpha", "beta", "both"} => TRUE)
      /\ (maF = "alpha" => "alpha" \in VisHub) /\ (maF = "beta" => "beta" \in VisHub) /\ (maF = "both" => VisHub = Names)
      /\ (mbF = "alpha" => "alpha" \in VisHub) /\ (mbF = "beta" => "beta" \in VisHub) /\ (mbF = "both" => VisHub = Names)
      /\ (pA = "alpha" => "alpha" \in VisMa) /\ (pA = "beta" => "beta" \in VisMa) /\ (pA = "both" => VisMa = Names)
      /\ (pB = "alpha" => "alpha" \in VisMb) /\ (pB = "beta" => "beta" \in VisMb) /\ (pB = "both" => VisMb = Names)
      /\ (ren => pA \in {"alpha", "both"})
      /\ (priv = "hub" => VisHub # {}) /\ (priv = "ma" => VisMa # {})
Init == /\ hubF \in Filters /\ maF \in Filters /\ mbF \in Filters /\ pA \in Filters /\ pB \in Filters /\ maFirst \in BOOLEAN
        /\ priv \in {"none", "hub", "ma"} /\ ren \in BOOLEAN
        /\ Ok /\ visible = VisP
Next == UNCHANGED vars
Spec == Init /\ [][Next]_vars
OnlyNarrows == \A n \in visible : (IF n = "la" THEN "alpha" ELSE n) \in VisHub
BothPathsCount == \A n \in Names : n \in visible <=> (n \in VisPA \/ n \in Pass(pB, VisMb))
RenameIsLocal == "la" \in visible <=> (ren /\ "alpha" \in VisMa)
=============================================================================
