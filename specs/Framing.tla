------------------------------ MODULE Framing ------------------------------
(***************************************************************************)
(* LSP base-protocol framing (C16): a writer that frames messages, a       *)
(* transport that delivers the byte stream in arbitrary chunks, and a      *)
(* reader that must recover exactly the messages sent.                     *)
(*                                                                         *)
(* A message body is abstracted to the UTF-8 widths (1..4) of its variable *)
(* characters, wrapped in a fixed ASCII JSON skeleton (one unit before,    *)
(* one after).  The wire is a sequence of units: every header line is two  *)
(* units (so a chunk boundary can fall inside a line), every body byte one *)
(* unit.  Content-Length counts BYTES (units), not characters.             *)
(*                                                                         *)
(* Reader = "ref": LSP base protocol: header fields in any order, unknown  *)
(* fields skipped, body read by byte length.                               *)
(* Reader = "firstLineOnly": the shape of fortls's _receive at the pinned  *)
(* commit: the length is taken from the first header line only and a       *)
(* missing length means "read to end of stream".  Kept as a named          *)
(* deviation: TLC must find the CTfirst counterexample with it (guards     *)
(* the model against vacuity).                                             *)
(***************************************************************************)
EXTENDS Naturals, Sequences, SequencesExt, FiniteSets, TLC

CONSTANTS MaxMsgs, MaxChars, MaxCuts, Reader, CountChars

Orders == {"CLfirst", "CTfirst", "CLonly"}
Widths == 1..4
Bodies == UNION {[1..n -> Widths] : n \in 0..MaxChars}
Msgs   == [order : Orders, body : Bodies]

VARIABLES sent,     \* messages the client sends, in order
          avail,    \* units delivered by the transport so far
          chunks,   \* sizes of the chunks delivered so far (history)
          pos,      \* units consumed by the reader
          phase,    \* "first" | "hdr" | "body" | "dead"
          cl,       \* announced length seen in the current header (0 = none)
          decoded   \* indices of the messages the reader has produced
vars == <<sent, avail, chunks, pos, phase, cl, decoded>>

Sum(s) == FoldLeft(LAMBDA a, b : a + b, 0, s)
BodyBytes(m) == 2 + Sum(m.body)
BodyChars(m) == 2 + Len(m.body)
\* what the writer announces: bytes (correct) or characters (a classic bug, CountChars = TRUE)
Announced(m) == IF CountChars THEN BodyChars(m) ELSE BodyBytes(m)

HeaderLines(m) == CASE m.order = "CLfirst" -> <<"CL", "CT", "BLANK">>
                    [] m.order = "CTfirst" -> <<"CT", "CL", "BLANK">>
                    [] m.order = "CLonly"  -> <<"CL", "BLANK">>

\* the units of one frame
FrameUnits(i, m) ==
  LET hl == HeaderLines(m)
      hdr == FlattenSeq([k \in 1..Len(hl) |-> << [t |-> "L", kind |-> hl[k], half |-> 1, msg |-> i],
                                                 [t |-> "L", kind |-> hl[k], half |-> 2, msg |-> i] >>])
      bod == [k \in 1..BodyBytes(m) |-> [t |-> "B", kind |-> "body", half |-> k, msg |-> i]]
  IN hdr \o bod

Wire == FlattenSeq([i \in 1..Len(sent) |-> FrameUnits(i, sent[i])])

Init == /\ sent \in UNION {[1..n -> Msgs] : n \in 1..MaxMsgs}
        /\ avail = 0 /\ chunks = <<>> /\ pos = 0 /\ phase = "first" /\ cl = 0 /\ decoded = <<>>

(* transport *)
Deliver(k) == /\ avail + k <= Len(Wire)
              /\ Len(chunks) < MaxCuts + 1
              \* the last allowed chunk must deliver everything that is left
              /\ (Len(chunks) = MaxCuts => avail + k = Len(Wire))
              /\ avail' = avail + k
              /\ chunks' = Append(chunks, k)
              /\ UNCHANGED <<sent, pos, phase, cl, decoded>>

(* reader: blocking reads, i.e. an action is enabled once its bytes are there *)
ReadLine == /\ phase \in {"first", "hdr"}
            /\ pos + 2 <= avail
            /\ Wire[pos + 1].t = "L"
            /\ LET kind == Wire[pos + 1].kind
                   m    == sent[Wire[pos + 1].msg] IN
               /\ cl' = IF kind = "CL" /\ (Reader = "ref" \/ phase = "first") THEN Announced(m) ELSE cl
               /\ phase' = IF kind = "BLANK" THEN "body" ELSE "hdr"
            /\ pos' = pos + 2
            /\ UNCHANGED <<sent, avail, chunks, decoded>>

\* a run of units is exactly the body of one message
IsBodyOf(a, b, i) == /\ b - a = BodyBytes(sent[i])
                     /\ \A u \in (a + 1)..b : Wire[u].t = "B" /\ Wire[u].msg = i

ReadBody == /\ phase = "body"
            /\ IF cl > 0
               THEN /\ pos + cl <= avail
                    /\ pos' = pos + cl
                    /\ IF \E i \in 1..Len(sent) : IsBodyOf(pos, pos + cl, i)
                       THEN /\ decoded' = Append(decoded, CHOOSE i \in 1..Len(sent) : IsBodyOf(pos, pos + cl, i))
                            /\ phase' = "first"
                       ELSE /\ decoded' = decoded /\ phase' = "dead"
               ELSE \* no length known: read(None) = read until end of stream
                    /\ avail = Len(Wire)
                    /\ pos' = Len(Wire)
                    /\ IF \E i \in 1..Len(sent) : IsBodyOf(pos, Len(Wire), i)
                       THEN /\ decoded' = Append(decoded, CHOOSE i \in 1..Len(sent) : IsBodyOf(pos, Len(Wire), i))
                            /\ phase' = "first"
                       ELSE /\ decoded' = decoded /\ phase' = "dead"
            /\ cl' = 0
            /\ UNCHANGED <<sent, avail, chunks>>

DeliverAny == \E k \in 1..Len(Wire) : Deliver(k)
Next == DeliverAny \/ ReadLine \/ ReadBody
Spec == Init /\ [][Next]_vars

---------------------------------------------------------------------------
Ids == [i \in 1..Len(sent) |-> i]
DecodedIsPrefix == IsPrefix(decoded, Ids)
NeverDead == phase # "dead"
Quiescent == avail = Len(Wire) /\ ~ENABLED ReadLine /\ ~ENABLED ReadBody
AllDecodedAtEnd == Quiescent => decoded = Ids
ReaderNeverOverruns == pos <= avail

GenNext == DeliverAny
GenSpec == Init /\ [][GenNext]_vars

\* generator: behaviours in which the reader is run only after each delivery
\* (the reader's result does not depend on when it runs, checked by the MC run)
View == <<sent, avail, pos, phase, cl, decoded>>
=============================================================================
