CONSTANTS Names = {"A", "B"} Vals = {"empty", "v0", "v1", "v2", "txt", "fn"} MaxLines = 9 MaxDepth = 3 ExprDepth = 1 AllowBare = FALSE StaleGroup = FALSE AtomKinds = {"def", "defsp", "cmp", "lit"} RelSet = {"==", "!=", "<", ">", "<=", ">="}
SPECIFICATION Spec
VIEW View
INVARIANT ImplAgrees
INVARIANT NoEffects
INVARIANT GroupDepthsSane
