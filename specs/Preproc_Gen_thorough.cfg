CONSTANTS Names = {"A", "B"} Vals = {"ref", "empty", "v0", "v1", "txt", "fn"} MaxLines = 3 MaxDepth = 2 ExprDepth = 1 AllowBare = FALSE StaleGroup = FALSE AtomKinds = {"def", "defsp", "cmp", "lit"} RelSet = {"==", ">"}
SPECIFICATION Spec
