CONSTANTS MaxMsgs = 2 MaxChars = 1 MaxCuts = 100 Reader = "ref" CountChars = TRUE
SPECIFICATION Spec
VIEW View
INVARIANT NeverDead
INVARIANT AllDecodedAtEnd
