----------------------------- MODULE Workspace -----------------------------
(***************************************************************************)
(* The workspace index under document-sync events (C10).                   *)
(*                                                                         *)
(* Files hold one of a few content variants.  The client's view:           *)
(*   disk[f]   variant on disk (0 if the file does not exist)       *)
(*   open[f]   the document is open in the editor                          *)
(*   buf[f]    variant in the editor buffer while open                     *)
(* The server's view (reference): idx[f] = the variant the index entry of  *)
(* f was built from (0 if f is not indexed).  One action per sync     *)
(* event; Query stands for any request (queries fill caches in the         *)
(* implementation, so they are part of the history).                       *)
(*                                                                         *)
(* Reference requirement: in every QUIESCENT state (every open buffer      *)
(* equals its file) the index is the one a fresh server builds from disk:  *)
(* idx = disk on existing files and nothing is indexed for absent files.   *)
(*                                                                         *)
(* Named deviations (implementation-shaped; TLC must refute them):         *)
(*  "hashSkip"    re-opening a file whose content hash equals the one the  *)
(*                server remembers skips re-indexing, even though the      *)
(*                entry was dropped when the file was deleted              *)
(*  "keepDeleted" a deleted file's entry is never dropped                  *)
(***************************************************************************)
EXTENDS Naturals, Sequences, FiniteSets, TLC
CONSTANTS Files, Variants, MaxLen, Deviation

VARIABLES disk, open, buf, idx, seen, dirty, hist
vars == <<disk, open, buf, idx, seen, dirty, hist>>
\* dirty[f]: the open document has been edited since it was last saved / opened
\* seen[f]: the variant whose hash the server remembers for f (0 if it never read f)

Init == /\ disk = [f \in Files |-> 1] /\ open = [f \in Files |-> FALSE] /\ buf = [f \in Files |-> 1]
        /\ idx = [f \in Files |-> 1] /\ seen = [f \in Files |-> 1] /\ hist = <<>>
        /\ dirty = [f \in Files |-> FALSE]

Log(e) == Len(hist) < MaxLen /\ hist' = Append(hist, e)

\* the server (re)reads f from disk
Reindex(f) == IF Deviation = "hashSkip" /\ seen[f] = disk[f] THEN idx' = idx /\ seen' = seen
              ELSE idx' = [idx EXCEPT ![f] = disk[f]] /\ seen' = [seen EXCEPT ![f] = disk[f]]

Open(f) == /\ ~open[f] /\ disk[f] # 0 /\ Log([e |-> "open", f |-> f])
           /\ open' = [open EXCEPT ![f] = TRUE] /\ buf' = [buf EXCEPT ![f] = disk[f]]
           /\ Reindex(f) /\ UNCHANGED disk /\ dirty' = [dirty EXCEPT ![f] = FALSE]
Edit(f, v) == /\ open[f] /\ v # buf[f] /\ Log([e |-> "edit", f |-> f, v |-> v])
              /\ buf' = [buf EXCEPT ![f] = v] /\ idx' = [idx EXCEPT ![f] = v] /\ seen' = [seen EXCEPT ![f] = 0]
              /\ UNCHANGED <<disk, open>> /\ dirty' = [dirty EXCEPT ![f] = TRUE]
Save(f) == /\ open[f] /\ Log([e |-> "save", f |-> f])
           /\ disk' = [disk EXCEPT ![f] = buf[f]]
           /\ idx' = [idx EXCEPT ![f] = buf[f]] /\ seen' = [seen EXCEPT ![f] = buf[f]]
           /\ UNCHANGED <<open, buf>> /\ dirty' = [dirty EXCEPT ![f] = FALSE]
\* closing without saving: the truth reverts to the file on disk
Close(f) == /\ open[f] /\ disk[f] # 0 /\ Log([e |-> "close", f |-> f])
            /\ open' = [open EXCEPT ![f] = FALSE] /\ Reindex(f) /\ UNCHANGED <<disk, buf>>
            /\ dirty' = [dirty EXCEPT ![f] = FALSE]
DeleteClose(f) == /\ disk[f] # 0 /\ Log([e |-> "delete", f |-> f])
                  /\ disk' = [disk EXCEPT ![f] = 0] /\ open' = [open EXCEPT ![f] = FALSE]
                  /\ idx' = IF Deviation = "keepDeleted" THEN idx ELSE [idx EXCEPT ![f] = 0]
                  /\ UNCHANGED <<buf, seen>> /\ dirty' = [dirty EXCEPT ![f] = FALSE]
CreateOpen(f, v) == /\ disk[f] = 0 /\ Log([e |-> "create", f |-> f, v |-> v])
                    /\ disk' = [disk EXCEPT ![f] = v] /\ open' = [open EXCEPT ![f] = TRUE] /\ buf' = [buf EXCEPT ![f] = v]
                    /\ IF Deviation = "hashSkip" /\ seen[f] = v THEN idx' = idx /\ seen' = seen
                       ELSE idx' = [idx EXCEPT ![f] = v] /\ seen' = [seen EXCEPT ![f] = v]
                    /\ dirty' = [dirty EXCEPT ![f] = FALSE]
Query == Log([e |-> "query"]) /\ UNCHANGED <<disk, open, buf, idx, seen, dirty>>

Next == \/ \E f \in Files : Open(f) \/ Save(f) \/ Close(f) \/ DeleteClose(f)
        \/ \E f \in Files, v \in Variants : Edit(f, v) \/ CreateOpen(f, v)
        \/ Query
Spec == Init /\ [][Next]_vars

\* every open document has been saved (or not touched) since its last edit
Quiescent == \A f \in Files : open[f] => (~dirty[f] /\ buf[f] = disk[f])
FreshIndex == [f \in Files |-> IF disk[f] = 0 THEN 0 ELSE disk[f]]
AnswersDependOnFilesOnly == Quiescent => idx = FreshIndex
OpenImpliesExists == \A f \in Files : open[f] => disk[f] # 0
View == <<disk, open, buf, idx, seen, dirty>>
=============================================================================
