SPECIFICATION TSpec
CONSTRAINT Mark
POSTCONDITION Post
CHECK_DEADLOCK FALSE
