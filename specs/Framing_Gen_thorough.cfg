CONSTANTS MaxMsgs = 2 MaxChars = 1 MaxCuts = 3 Reader = "ref" CountChars = FALSE
SPECIFICATION GenSpec
