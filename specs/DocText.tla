------------------------------ MODULE DocText ------------------------------
(***************************************************************************)
(* The document store of an LSP server (C02).                              *)
(*                                                                         *)
(* A document is what an LSP-conforming client holds: a sequence of lines  *)
(* plus the line break after each line but the last.  Positions are        *)
(* (line, character) with lines 1-based here (0-based on the wire) and     *)
(* characters 0-based.  One action per kind of sync event:                 *)
(*   Open / ChangeFull / ChangeRange / SplitPairEdit.                      *)
(*                                                                         *)
(* Two definitions of a ranged edit live side by side:                     *)
(*   - Apply*      : structured (lines + breaks), fast, used in actions;   *)
(*   - Char*       : "obviously right": flatten to characters, splice at   *)
(*                   offsets, re-split on CR LF | CR | LF.                 *)
(* TLC checks they agree on a small bound (StructuredIsCharLevel), except  *)
(* in the named corner SplitPair where a CR and an LF become adjacent; the *)
(* action SplitPairEdit uses the character-level meaning there.            *)
(***************************************************************************)
EXTENDS Naturals, Sequences, SequencesExt, FiniteSets, TLC

CONSTANTS MaxLines,   \* documents considered have at most this many lines
          MaxCols,    \* ... each with at most this many characters
          MaxIns,     \* weight (letters + breaks) of an inserted text
          InitLines,  \* initial documents have at most this many lines
          InitCols    \* ... each with at most this many characters

Letters == {"a", "b"}
Brk     == {"CR", "LF", "CRLF"}

VARIABLES lines, eols,      \* the client's (= reference) document
          pl, pe,           \* the document before the last action
          edit,             \* the last action with its parameters
          disk,             \* the file on disk: [tl, te] (what a re-opened document shows)
          nstep             \* number of actions taken
vars == <<lines, eols, pl, pe, edit, disk, nstep>>

---------------------------------------------------------------------------
(* Value domains                                                           *)
LinesUpTo(k) == UNION {[1..n -> Letters] : n \in 0..k}

Weight(tl, te) == Len(te) + FoldLeft(LAMBDA a, l : a + Len(l), 0, tl)

\* the (lines, breaks) representation of a string is unique only if no CR-break is
\* directly followed by an empty line and an LF-break (that string is one CRLF)
Canon(L, E) == \A i \in 1..(Len(E) - 1) : ~(E[i] = "CR" /\ L[i+1] = <<>> /\ E[i+1] = "LF")

\* every structured text [tl, te] of weight <= MaxIns
Texts == {t \in UNION {[tl : [1..n -> LinesUpTo(MaxIns - (n - 1))], te : [1..(n-1) -> Brk]] : n \in 1..(MaxIns+1)}
              : Weight(t.tl, t.te) <= MaxIns /\ Canon(t.tl, t.te)}

Docs(k) == {d \in UNION {[tl : [1..n -> LinesUpTo(InitCols)], te : [1..(n-1) -> Brk]] : n \in 1..k}
              : Canon(d.tl, d.te)}

---------------------------------------------------------------------------
(* Structured semantics of a ranged edit                                   *)
ApplyLines(L, sl, sc, el, ec, t) ==
  LET n    == Len(t.tl)
      head == SubSeq(L[sl], 1, sc)
      tail == SubSeq(L[el], ec + 1, Len(L[el]))
      mid  == IF n = 1 THEN << head \o t.tl[1] \o tail >>
              ELSE << head \o t.tl[1] >> \o SubSeq(t.tl, 2, n - 1) \o << t.tl[n] \o tail >>
  IN SubSeq(L, 1, sl - 1) \o mid \o SubSeq(L, el + 1, Len(L))

ApplyEols(E, sl, el, t) == SubSeq(E, 1, sl - 1) \o t.te \o SubSeq(E, el, Len(E))

ValidRange(L, sl, sc, el, ec) ==
  /\ sl \in 1..Len(L) /\ el \in sl..Len(L)
  /\ sc \in 0..Len(L[sl]) /\ ec \in 0..Len(L[el])
  /\ (sl < el \/ sc <= ec)

\* the corner: the edit makes a CR adjacent to an LF that were not a pair before
SplitPair(L, E, sl, sc, el, ec, t) ==
  LET n == Len(t.tl) IN
  \/ (n > 1 /\ t.te[n-1] = "CR" /\ t.tl[n] = <<>> /\ ec = Len(L[el]) /\ el < Len(L) /\ E[el] = "LF")
  \/ (n > 1 /\ t.te[1] = "LF" /\ t.tl[1] = <<>> /\ sc = 0 /\ sl > 1 /\ E[sl-1] = "CR")
  \/ (n = 1 /\ t.tl[1] = <<>> /\ sc = 0 /\ sl > 1 /\ E[sl-1] = "CR"
            /\ ec = Len(L[el]) /\ el < Len(L) /\ E[el] = "LF" /\ ~(sl = el /\ sc = ec))

---------------------------------------------------------------------------
(* Character-level semantics                                               *)
BrkChars(b) == IF b = "CRLF" THEN <<"CR", "LF">> ELSE <<b>>

RECURSIVE FlatFrom(_, _, _)
FlatFrom(L, E, i) == IF i > Len(L) THEN <<>>
                     ELSE L[i] \o (IF i <= Len(E) THEN BrkChars(E[i]) ELSE <<>>) \o FlatFrom(L, E, i + 1)
Flat(L, E) == FlatFrom(L, E, 1)

RECURSIVE OffsetOf(_, _, _, _)
OffsetOf(L, E, l, c) == IF l = 1 THEN c
                        ELSE Len(L[l-1]) + Len(BrkChars(E[l-1])) + OffsetOf(L, E, l - 1, 0) + c

\* split a character sequence on CR LF | CR | LF; returns [tl, te]
RECURSIVE SplitChars(_, _, _, _)
SplitChars(s, i, cur, acc) ==
  IF i > Len(s) THEN [tl |-> Append(acc.tl, cur), te |-> acc.te]
  ELSE IF s[i] = "CR" /\ i < Len(s) /\ s[i+1] = "LF"
       THEN SplitChars(s, i + 2, <<>>, [tl |-> Append(acc.tl, cur), te |-> Append(acc.te, "CRLF")])
  ELSE IF s[i] \in {"CR", "LF"}
       THEN SplitChars(s, i + 1, <<>>, [tl |-> Append(acc.tl, cur), te |-> Append(acc.te, s[i])])
  ELSE SplitChars(s, i + 1, Append(cur, s[i]), acc)
Split(s) == SplitChars(s, 1, <<>>, [tl |-> <<>>, te |-> <<>>])

CharApply(L, E, sl, sc, el, ec, t) ==
  LET f  == Flat(L, E)
      so == OffsetOf(L, E, sl, sc)
      eo == OffsetOf(L, E, el, ec)
  IN Split(SubSeq(f, 1, so) \o Flat(t.tl, t.te) \o SubSeq(f, eo + 1, Len(f)))

---------------------------------------------------------------------------
(* Actions                                                                 *)
Init == /\ \E d \in Docs(InitLines) : lines = d.tl /\ eols = d.te
        /\ pl = lines /\ pe = eols
        /\ edit = [k |-> "open"]
        /\ disk = [tl |-> lines, te |-> eols] /\ nstep = 0

Small == /\ Len(lines) <= MaxLines
         /\ \A i \in 1..Len(lines) : Len(lines[i]) <= MaxCols

ChangeFull ==
  \E t \in Texts :
    /\ lines' = t.tl /\ eols' = t.te
    /\ pl' = lines /\ pe' = eols
    /\ edit' = [k |-> "full", tl |-> t.tl, te |-> t.te]
    /\ disk' = disk /\ nstep' = nstep + 1

ChangeRange ==
  \E sl \in 1..Len(lines) : \E el \in sl..Len(lines) :
  \E sc \in 0..Len(lines[sl]), ec \in 0..Len(lines[el]), t \in Texts :
    /\ ValidRange(lines, sl, sc, el, ec)
    /\ ~SplitPair(lines, eols, sl, sc, el, ec, t)
    /\ lines' = ApplyLines(lines, sl, sc, el, ec, t)
    /\ eols'  = ApplyEols(eols, sl, el, t)
    /\ pl' = lines /\ pe' = eols
    /\ edit' = [k |-> "range", sl |-> sl - 1, sc |-> sc, el |-> el - 1, ec |-> ec, tl |-> t.tl, te |-> t.te]
    /\ disk' = disk /\ nstep' = nstep + 1

SplitPairEdit ==
  \E sl \in 1..Len(lines) : \E el \in sl..Len(lines) :
  \E sc \in 0..Len(lines[sl]), ec \in 0..Len(lines[el]), t \in Texts :
    /\ ValidRange(lines, sl, sc, el, ec)
    /\ SplitPair(lines, eols, sl, sc, el, ec, t)
    /\ LET r == CharApply(lines, eols, sl, sc, el, ec, t) IN lines' = r.tl /\ eols' = r.te
    /\ pl' = lines /\ pe' = eols
    /\ edit' = [k |-> "splitpair", sl |-> sl - 1, sc |-> sc, el |-> el - 1, ec |-> ec, tl |-> t.tl, te |-> t.te]
    /\ disk' = disk /\ nstep' = nstep + 1

\* the client saves: the file on disk becomes the document
Save == /\ disk' = [tl |-> lines, te |-> eols]
        /\ UNCHANGED <<lines, eols>> /\ pl' = lines /\ pe' = eols
        /\ edit' = [k |-> "save"] /\ nstep' = nstep + 1
\* the client closes the document without saving and opens it again: it shows the file on disk
Reopen == /\ lines' = disk.tl /\ eols' = disk.te
          /\ pl' = lines /\ pe' = eols
          /\ edit' = [k |-> "reopen", prev |-> edit] /\ disk' = disk /\ nstep' = nstep + 1

\* the client re-opens the document with a buffer that differs from the file on disk (an editor restoring
\* unsaved changes): the text of didOpen is the truth, not the file
OpenDirty == \E t \in Texts :
               /\ (t.tl # disk.tl \/ t.te # disk.te)
               /\ lines' = t.tl /\ eols' = t.te /\ pl' = lines /\ pe' = eols
               /\ edit' = [k |-> "opendirty", tl |-> t.tl, te |-> t.te] /\ disk' = disk /\ nstep' = nstep + 1

\* one named disjunct per action so that TLC's coverage report is per action
DoFull      == ChangeFull /\ Small'
DoRange     == ChangeRange /\ Small'
DoSplitPair == SplitPairEdit /\ Small'
DoOpenDirty == OpenDirty /\ Small'
Next == DoFull \/ DoRange \/ DoSplitPair \/ Save \/ Reopen \/ DoOpenDirty

Spec == Init /\ [][Next]_vars
\* model-checking specification: the file on disk stays the initial document (Save multiplies
\* the state space by the number of documents without adding behaviour to the edit laws)
NextMC == DoFull \/ DoRange \/ DoSplitPair \/ Reopen
SpecMC == Init /\ [][NextMC]_vars

---------------------------------------------------------------------------
(* Properties                                                              *)
Shape == Len(lines) >= 1 /\ Len(eols) = Len(lines) - 1
Canonical == Canon(lines, eols)

\* number of lines after a ranged edit (structured path)
LineCountLaw ==
  [][edit'.k = "range" =>
       Len(lines') = Len(lines) - (edit'.el - edit'.sl) + Len(edit'.tl) - 1]_vars

\* an empty edit on an empty range changes nothing
EmptyEditIsIdentity ==
  [][(edit'.k = "range" /\ edit'.tl = <<<<>>>> /\ edit'.sl = edit'.el /\ edit'.sc = edit'.ec)
       => (lines' = lines /\ eols' = eols)]_vars

\* replacing the whole document by a ranged edit equals a whole-document change
WholeRangeIsFull ==
  [][(edit'.k = "range" /\ edit'.sl = 0 /\ edit'.sc = 0 /\ edit'.el = Len(lines) - 1
        /\ edit'.ec = Len(lines[Len(lines)]))
       => (lines' = edit'.tl /\ eols' = edit'.te)]_vars

\* text outside the edited range is untouched
PrefixSuffixKept ==
  [][edit'.k = "range" =>
       /\ SubSeq(lines', 1, edit'.sl) = SubSeq(lines, 1, edit'.sl)
       /\ LET d == Len(lines') - Len(lines) IN
          \A i \in (edit'.el + 2)..Len(lines) : lines'[i + d] = lines[i]]_vars

\* the structured definition is the character-level one (checked on a tiny bound)
StructuredIsCharLevel ==
  [][edit'.k \in {"range", "splitpair"} =>
       LET r == CharApply(lines, eols, edit'.sl + 1, edit'.sc, edit'.el + 1, edit'.ec,
                          [tl |-> edit'.tl, te |-> edit'.te])
       IN r.tl = lines' /\ r.te = eols']_vars

\* flatten/split round trip for every reachable document
SplitFlatRoundTrip == LET r == Split(Flat(lines, eols)) IN r.tl = lines /\ r.te = eols

\* generator specification: every document as initial state, exactly one action
NextOne == nstep = 0 /\ (DoFull \/ DoRange \/ DoSplitPair)
SpecOne == Init /\ [][NextOne]_vars
\* generator: one edit, then close-without-saving and re-open (the edit must be forgotten)
NextTwo == \/ nstep = 0 /\ (DoFull \/ DoRange \/ DoOpenDirty)
           \/ nstep = 1 /\ Reopen
SpecTwo == Init /\ [][NextTwo]_vars
ReopenShowsDisk == [][edit'.k = "reopen" => (lines' = disk.tl /\ eols' = disk.te)]_vars
View == <<lines, eols, disk>>
=============================================================================
