CONSTANTS MaxLines = 11 MaxDepth = 2 Mode = "defect" UnitKinds = {"module", "sub"} ConstructKinds = {}
SPECIFICATION SpecTypes
