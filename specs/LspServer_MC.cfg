CONSTANTS Ids = {"i1", "i2", "sA"} MaxLen = 4 Deviation = "none"
SPECIFICATION Spec
INVARIANT OneResponsePerRequestInOrder
INVARIANT ResponseIdsWereReceived
INVARIANT UnknownIsMethodNotFound
INVARIANT ServesUntilExit
PROPERTY NotificationsAreSilent
