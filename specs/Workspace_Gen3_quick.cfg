CONSTANTS Files = {"a", "b", "c"} Variants = {1, 2} MaxLen = 4 Deviation = "none"
SPECIFICATION Spec
