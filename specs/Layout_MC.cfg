CONSTANTS N = 4 MaxOps = 4 OpKinds = {"blank", "comment", "split", "join", "eol", "case", "trail", "fixed", "tcomment", "flush", "icomment"}
SPECIFICATION Spec
VIEW View
INVARIANT Monotone
INVARIANT StrictUnlessJoined
INVARIANT ShiftLaw
INVARIANT TotalLaw
INVARIANT MapIsLineMap
