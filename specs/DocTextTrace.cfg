CONSTANTS MaxLines = 1 MaxCols = 1 MaxIns = 1 InitLines = 1 InitCols = 1
SPECIFICATION TSpec
CONSTRAINT Mark
POSTCONDITION Post
CHECK_DEADLOCK FALSE
