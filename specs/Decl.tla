-------------------------------- MODULE Decl --------------------------------
(***************************************************************************)
(* Declarations and what hover / signature help must restate (C11).        *)
(* An initial state is one entity declaration of a procedure: type, kind / *)
(* length selector, an ordered attribute list, an entity decoration        *)
(* (dimensions, initial value), a documentation placement and whether the  *)
(* entity is a dummy argument; Legal is the Fortran compatibility          *)
(* constraint.  The spec computes the declaration a conforming hover must  *)
(* be equivalent to: same type+selector, the same SET of attributes (an    *)
(* entity-level dimension is the attribute DIMENSION), same name, the      *)
(* PARAMETER value, exactly the attached documentation.                    *)
(* A second family of initial states is a call: a sequence of actual       *)
(* arguments (plain, nested parentheses, string with a comma, keyword) and *)
(* a cursor position; ActiveParam is the parameter signature help must     *)
(* mark.                                                                   *)
(***************************************************************************)
EXTENDS Naturals, Sequences, FiniteSets, TLC

Types == {"INTEGER", "REAL", "DOUBLE PRECISION", "COMPLEX", "LOGICAL", "CHARACTER", "TYPE(t)", "CLASS(t)"}
Sels  == {"none", "(4)", "(kind=8)", "*8", "(len=*)", "(len=:)", "(len=5, kind=1)", "(kind=selected_real_kind(6, 30))"}
Attrs == {"INTENT(IN)", "INTENT(OUT)", "INTENT(INOUT)", "DIMENSION(:)", "DIMENSION(3, 2)", "ALLOCATABLE", "POINTER",
          "TARGET", "OPTIONAL", "SAVE", "PARAMETER", "CONTIGUOUS", "VALUE", "VOLATILE", "ASYNCHRONOUS"}
\* values with a comma at nesting depth 1, and a character value holding a comma, parentheses and "!"
Decos == {"none", "dims(3)", "val:3", "val:3 * (2 + 1)", "val:'a(b'", "val:max(1, 2)", "val:'(a, i0)!'"}
CharVals == {"val:'a(b'", "val:'(a, i0)!'"}
Docs  == {"none", "before", "after", "trailing", "trailingComment", "beforeComment", "beforeBlank"}
\* trailingComment: "!<" doc on the declaration line, an ordinary "!" comment on the next line
\* beforeComment : "!>" block, then the declaration, then an ordinary "!" comment
Intents == {"INTENT(IN)", "INTENT(OUT)", "INTENT(INOUT)"}

VARIABLES mode, ty, sel, attrs, deco, doc, dummy, exp, call, cursor, active
vars == <<mode, ty, sel, attrs, deco, doc, dummy, exp, call, cursor, active>>

AttrSet(a) == {a[i] : i \in 1..Len(a)}
IsVal(d) == d \in {"val:3", "val:3 * (2 + 1)", "val:max(1, 2)"} \cup CharVals
Numeric(t) == t \in {"INTEGER", "REAL", "COMPLEX", "LOGICAL"}

Legal(t, s, a, d, dm) ==
  LET A == AttrSet(a) IN
  /\ Cardinality(A) = Len(a)
  /\ Cardinality(A \cap Intents) <= 1
  /\ (A \cap (Intents \cup {"OPTIONAL"}) # {} => dm)
  /\ (dm => A \cap {"SAVE", "PARAMETER"} = {} /\ ~IsVal(d))
  /\ (s \in {"(len=*)", "(len=:)", "(len=5, kind=1)"} => t = "CHARACTER")
  /\ (s \in {"(4)", "(kind=8)", "(kind=selected_real_kind(6, 30))"} => Numeric(t))
  /\ (s = "(kind=selected_real_kind(6, 30))" => t = "REAL")
  /\ (s = "*8" => t \in {"INTEGER", "REAL", "COMPLEX", "LOGICAL"})
  /\ (t \in {"TYPE(t)", "CLASS(t)", "DOUBLE PRECISION"} => s = "none")
  /\ (s = "(len=:)" => A \cap {"ALLOCATABLE", "POINTER"} # {})
  /\ (s = "(len=*)" => dm)
  /\ (t = "CLASS(t)" => dm \/ A \cap {"ALLOCATABLE", "POINTER"} # {})
  /\ ~({"POINTER", "TARGET"} \subseteq A) /\ ~({"ALLOCATABLE", "POINTER"} \subseteq A)
  /\ ~({"DIMENSION(:)", "DIMENSION(3, 2)"} \subseteq A)
  /\ ("DIMENSION(:)" \in A => dm \/ A \cap {"ALLOCATABLE", "POINTER"} # {})
  /\ ("ALLOCATABLE" \in A => "DIMENSION(3, 2)" \notin A /\ d # "dims(3)")
  /\ ("POINTER" \in A => "DIMENSION(3, 2)" \notin A /\ d # "dims(3)" /\ A \cap {"INTENT(OUT)", "INTENT(INOUT)"} = {})
  /\ ("CONTIGUOUS" \in A => "DIMENSION(:)" \in A)
  /\ (d = "dims(3)" => A \cap {"DIMENSION(:)", "DIMENSION(3, 2)"} = {})
  /\ ("PARAMETER" \in A <=> IsVal(d))
  /\ ("PARAMETER" \in A => A \cap {"ALLOCATABLE", "POINTER", "TARGET", "SAVE", "DIMENSION(:)", "DIMENSION(3, 2)"} = {} /\ t \in {"INTEGER", "CHARACTER", "REAL"})
  /\ (d \in CharVals <=> ("PARAMETER" \in A /\ t = "CHARACTER"))
  /\ (d = "val:max(1, 2)" => t = "INTEGER")
  /\ ("VALUE" \in A => dm /\ A \cap {"INTENT(OUT)", "INTENT(INOUT)", "POINTER", "ALLOCATABLE", "VOLATILE", "ASYNCHRONOUS", "DIMENSION(:)",
                                       "DIMENSION(3, 2)", "CONTIGUOUS", "TARGET"} = {}
                         /\ t # "CLASS(t)" /\ s \notin {"(len=*)", "(len=:)"} /\ d = "none")
  /\ (A \cap {"VOLATILE", "ASYNCHRONOUS"} # {} => "PARAMETER" \notin A /\ "INTENT(IN)" \notin A)
  /\ (t = "CHARACTER" /\ "PARAMETER" \in A => s \in {"(len=*)", "(len=5, kind=1)", "none"} )
  /\ ("PARAMETER" \in A /\ s = "(len=*)" => TRUE)

\* the declaration hover must be equivalent to
Expected(t, s, a, d, dc, dm) ==
  [type  |-> <<t, s>>,
   attrs |-> AttrSet(a) \cup (IF d = "dims(3)" THEN {"DIMENSION(3)"} ELSE {}),
   value |-> IF IsVal(d) THEN d ELSE "none",
   doc   |-> IF dc \in {"before", "after", "trailing", "trailingComment", "beforeComment"} THEN "own" ELSE "none"]

AttrLists == {<<>>} \cup {<<x>> : x \in Attrs} \cup {<<x, y>> : x \in Attrs, y \in Attrs}

(* ---- calls ---------------------------------------------------------------- *)
\* kwN: keyword naming parameter N;  cmp: a positional argument "p2 == 0" - a comparison whose left operand is
\* spelled like a dummy argument of the callee (not a keyword: "==" is not "=")
ArgKinds == {"plain", "nested", "string", "kw2", "kw3", "cmp"}
Calls == UNION {[1..n -> ArgKinds] : n \in 1..3}
\* keyword arguments must name a parameter not already given and follow positional ones
CallOk(c) == /\ \A i \in 1..Len(c) : (c[i] = "kw2" => i <= 2) /\ (c[i] = "kw3" => i <= 3)
             /\ \A i, j \in 1..Len(c) : (i < j /\ c[i] \in {"kw2", "kw3"}) => c[j] \in {"kw2", "kw3"}
             /\ \A i, j \in 1..Len(c) : (i # j /\ c[i] \in {"kw2", "kw3"}) => c[i] # c[j]
             /\ \A i \in 1..Len(c) : (c[i] = "kw2" => \A j \in 1..(i-1) : j # 2 \/ c[j] \in {"kw2","kw3"})
ActiveParam(c, i) == CASE c[i] = "kw2" -> 1 [] c[i] = "kw3" -> 2 [] OTHER -> i - 1

Init == \/ /\ mode = "decl"
           /\ ty \in Types /\ sel \in Sels /\ attrs \in AttrLists /\ deco \in Decos /\ doc \in Docs /\ dummy \in BOOLEAN
           /\ Legal(ty, sel, attrs, deco, dummy)
           /\ exp = Expected(ty, sel, attrs, deco, doc, dummy)
           /\ call = <<>> /\ cursor = 0 /\ active = 0
        \/ /\ mode = "call"
           /\ call \in Calls /\ CallOk(call) /\ cursor \in 1..Len(call)
           /\ active = ActiveParam(call, cursor)
           /\ ty = "INTEGER" /\ sel = "none" /\ attrs = <<>> /\ deco = "none" /\ doc = "none" /\ dummy = FALSE
           /\ exp = Expected("INTEGER", "none", <<>>, "none", "none", FALSE)
Next == UNCHANGED vars
Spec == Init /\ [][Next]_vars
ExpectedHasAllAttrs == mode = "decl" => AttrSet(attrs) \subseteq exp.attrs
ValueOnlyForParameter == mode = "decl" => ((exp.value # "none") <=> "PARAMETER" \in exp.attrs)
ActiveInRange == mode = "call" => active \in 0..2
=============================================================================
