CONSTANTS Files = {"a", "b", "c"} Variants = {1, 2, 4} MaxLen = 4 Deviation = "none"
SPECIFICATION Spec
