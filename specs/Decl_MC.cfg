SPECIFICATION Spec
INVARIANT ExpectedHasAllAttrs
INVARIANT ValueOnlyForParameter
INVARIANT ActiveInRange
