CONSTANTS MaxMsgs = 1 MaxChars = 2 MaxCuts = 5 Reader = "ref" CountChars = FALSE
SPECIFICATION GenSpec
