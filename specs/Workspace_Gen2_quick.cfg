CONSTANTS Files = {"a", "b", "c"} Variants = {1, 3, 5} MaxLen = 3 Deviation = "none"
SPECIFICATION Spec
