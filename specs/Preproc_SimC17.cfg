CONSTANTS Names = {"A", "B"} Vals = {"empty", "v1", "py1", "py2", "py3", "py4", "py5", "py6"} MaxLines = 8 MaxDepth = 2 ExprDepth = 1 AllowBare = TRUE StaleGroup = FALSE AtomKinds = {"def", "defsp", "cmp", "lit"} RelSet = {"==", "<"}
SPECIFICATION Spec
INVARIANT NoEffects
