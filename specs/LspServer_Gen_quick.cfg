CONSTANTS Ids = {"i1", "sA"} MaxLen = 3 Deviation = "none"
SPECIFICATION Spec
