CONSTANTS Names = {"A"} Vals = {"v1"} MaxLines = 5 MaxDepth = 2 ExprDepth = 0 AllowBare = FALSE StaleGroup = FALSE AtomKinds = {"def", "defsp", "cmp", "lit"} RelSet = {"=="}
SPECIFICATION Spec
INVARIANT ImplAgrees
INVARIANT SkipsWellFormed
INVARIANT LiveLinesNotSkipped
INVARIANT DeadLinesSkippedWhenClosed
