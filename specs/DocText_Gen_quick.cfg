CONSTANTS MaxLines = 6 MaxCols = 6 MaxIns = 3 InitCols = 2 InitLines = 2
SPECIFICATION SpecOne
INVARIANT Shape
