CONSTANTS MaxMsgs = 2 MaxChars = 1 MaxCuts = 2 Reader = "ref" CountChars = FALSE
SPECIFICATION GenSpec
