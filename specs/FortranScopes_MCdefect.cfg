CONSTANTS MaxLines = 6 MaxDepth = 3 Mode = "defect" UnitKinds = {"module", "program", "sub"} ConstructKinds = {"block", "if"}
SPECIFICATION SpecDefect
VIEW View
INVARIANT WellNested
INVARIANT DefectsAtMostOne
