------------------------------- MODULE Cycles -------------------------------
(***************************************************************************)
(* Walking cyclic program structure (C20).  A shape is a relation kind, a  *)
(* cycle length L and a tail of T nodes leading into the cycle; node i     *)
(* points to node i+1, the last cycle node back to the first cycle node.   *)
(* The reference walker (every resolution routine that follows USE,        *)
(* EXTENDS, submodule-parent, pointer/associate, binding or INCLUDE links) *)
(* keeps a visited set and stops when it meets a node again, so it takes   *)
(* at most T+L steps on every shape.  Named deviation "noVisitedSet": the  *)
(* walker just follows links - TLC must find the unbounded walk.           *)
(***************************************************************************)
EXTENDS Naturals, FiniteSets, TLC
CONSTANTS MaxL, MaxT, Deviation, Bound
\* "procptr": procedure pointers initialised with each other;  "procptriface": procedure pointers whose
\* interface is the next pointer;  "mixedptr": data and procedure pointers alternate on the chain;
\* "ppinclude": preprocessor #include (headers), "include": the Fortran INCLUDE line.
Kinds == {"use", "usemixed", "extends", "submodule", "pointer", "associate", "binding", "include",
          "procptr", "procptriface", "mixedptr", "ppinclude"}
\* `entry`: something outside the structure refers to node 1 (a main program that USEs / INCLUDEs it);
\* without it the cyclic files are alone in the workspace.  `fan`: how many times a node names its
\* successor (two #include lines): a walker that only relies on a depth limit then does fan^depth work.
FanKinds == {"include", "ppinclude"}
EntryKinds == {"include", "ppinclude", "use", "usemixed"}

VARIABLES kind, L, T, entry, fan, at, visited, steps, stopped
vars == <<kind, L, T, entry, fan, at, visited, steps, stopped>>
N == T + L
NextNode(i) == IF i < N THEN i + 1 ELSE T + 1

Init == /\ kind \in Kinds /\ L \in 1..MaxL /\ T \in 0..MaxT
        /\ entry \in (IF kind \in EntryKinds THEN BOOLEAN ELSE {TRUE})
        /\ fan \in (IF kind \in FanKinds THEN 1..2 ELSE {1})
        /\ at = 1 /\ visited = {1} /\ steps = 0 /\ stopped = FALSE
Step == /\ ~stopped /\ steps < Bound
        /\ LET n == NextNode(at) IN
           IF Deviation # "noVisitedSet" /\ n \in visited
           THEN stopped' = TRUE /\ UNCHANGED <<at, visited, steps>>
           ELSE at' = n /\ visited' = visited \cup {n} /\ steps' = steps + 1 /\ stopped' = stopped
        /\ UNCHANGED <<kind, L, T, entry, fan>>
Next == Step
Spec == Init /\ [][Next]_vars
WalkIsBounded == steps <= N
VisitsEveryNodeOnce == stopped => visited = 1..N
=============================================================================
