------------------------------- MODULE Cycles -------------------------------
(***************************************************************************)
(* Walking cyclic program structure (C20).  A shape is a relation kind, a  *)
(* cycle length L and a tail of T nodes leading into the cycle; node i     *)
(* points to node i+1, the last cycle node back to the first cycle node.   *)
(* The reference walker (every resolution routine that follows USE,        *)
(* EXTENDS, submodule-parent, pointer/associate, binding or INCLUDE links) *)
(* keeps a visited set and stops when it meets a node again, so it takes   *)
(* at most T+L steps on every shape.  Named deviation "noVisitedSet": the  *)
(* walker just follows links - TLC must find the unbounded walk.           *)
(***************************************************************************)
EXTENDS Naturals, FiniteSets, TLC
CONSTANTS MaxL, MaxT, Deviation, Bound
Kinds == {"use", "usemixed", "extends", "submodule", "pointer", "associate", "binding", "include"}

VARIABLES kind, L, T, at, visited, steps, stopped
vars == <<kind, L, T, at, visited, steps, stopped>>
N == T + L
NextNode(i) == IF i < N THEN i + 1 ELSE T + 1

Init == /\ kind \in Kinds /\ L \in 1..MaxL /\ T \in 0..MaxT
        /\ at = 1 /\ visited = {1} /\ steps = 0 /\ stopped = FALSE
Step == /\ ~stopped /\ steps < Bound
        /\ LET n == NextNode(at) IN
           IF Deviation # "noVisitedSet" /\ n \in visited
           THEN stopped' = TRUE /\ UNCHANGED <<at, visited, steps>>
           ELSE at' = n /\ visited' = visited \cup {n} /\ steps' = steps + 1 /\ stopped' = stopped
        /\ UNCHANGED <<kind, L, T>>
Next == Step
Spec == Init /\ [][Next]_vars
WalkIsBounded == steps <= N
VisitsEveryNodeOnce == stopped => visited = 1..N
=============================================================================
