CONSTANTS Names = {"A", "B"} Vals = {"ref", "empty", "v0", "v1", "v2", "txt", "hostile1", "hostile2", "hostile3", "fn"} MaxLines = 14 MaxDepth = 3 ExprDepth = 2 AllowBare = FALSE StaleGroup = FALSE AtomKinds = {"def", "defsp", "cmp", "lit"} RelSet = {"==", "<", "!="}
SPECIFICATION Spec
