------------------------------ MODULE NameRes ------------------------------
(***************************************************************************)
(* Name resolution by scoping and USE association (C05, C06, C12).         *)
(*                                                                         *)
(* A universe is a small multi-file program: module m1, module m2 (which   *)
(* may USE m1), a main program p (which may USE m1 and m2) and an internal *)
(* procedure q of p.  Every universe is an initial state; TLC computes the *)
(* reference semantics for it:                                             *)
(*   Exp1, Exp2   what each module exports (own PUBLIC entities and, for   *)
(*                m2, the entities it obtained by USE unless its default   *)
(*                accessibility is PRIVATE)                                *)
(*   ImpP         <<local name, entity>> pairs visible in p through USE    *)
(*                (ONLY lists, local => remote renames)                    *)
(*   ResolveP/Q   local declaration, then USE association, then the host   *)
(* and stores, per reference site, the set of entities the name is bound   *)
(* to (`res`).  `Valid` is the standard-conformance constraint (no name    *)
(* both declared and imported, ONLY items exist, ...).  The replay harness *)
(* renders the universe to three files and compares go-to-definition /     *)
(* references / completion with `res`, `Occ` and `Accessible`.             *)
(***************************************************************************)
EXTENDS Naturals, Sequences, FiniteSets, TLC

Names   == {"x", "y"}
Acc     == {"def", "pub", "priv"}
Clauses == {"none", "all", "onlyx", "onlyy", "onlylx", "renlx"}   \* use m | only: x | only: y | only: lx => x | use m, lx => x

VARIABLES m1,   \* [decl : SUBSET Names, accx : Acc, defpriv : BOOLEAN]
          m2,   \* [decl, accx, accy, defpriv, use1 : Clauses]
          p,    \* [decl, use1, use2 : Clauses]
          q,    \* [decl]
          res,  \* reference site -> set of entities (computed in Init)
          ctx   \* what completion must offer in the restricting contexts (computed in Init)
vars == <<m1, m2, p, q, res, ctx>>

Ent(s, n) == <<s, n>>
PublicIn(decl, acc, defpriv, n) == n \in decl /\ (acc = "pub" \/ (acc = "def" /\ ~defpriv))

AccOf1(M, n) == IF n = "x" THEN M.accx ELSE "def"
Exp1(M) == {<<n, Ent("m1", n)>> : n \in {k \in M.decl : PublicIn(M.decl, AccOf1(M, k), M.defpriv, k)}}

\* pairs visible through a USE clause from an exported set
Vis(cl, ex) ==
  CASE cl = "none"   -> {}
    [] cl = "all"    -> ex
    [] cl = "onlyx"  -> {pr \in ex : pr[1] = "x"}
    [] cl = "onlyy"  -> {pr \in ex : pr[1] = "y"}
    [] cl = "onlylx" -> {<<"lx", pr[2]>> : pr \in {z \in ex : z[1] = "x"}}
    [] cl = "renlx"  -> {<<IF pr[1] = "x" THEN "lx" ELSE pr[1], pr[2]>> : pr \in ex}
NamesOf(S) == {pr[1] : pr \in S}
\* what an ONLY / rename clause mentions must be exported by the module
ClauseOk(cl, ex) == CASE cl \in {"onlyx", "onlylx", "renlx"} -> "x" \in NamesOf(ex)
                      [] cl = "onlyy" -> "y" \in NamesOf(ex)
                      [] OTHER -> TRUE

Imp2(M1, M2) == Vis(M2.use1, Exp1(M1))
AccOf2(M, n) == IF n = "x" THEN M.accx ELSE M.accy
Exp2(M1, M2) == {<<n, Ent("m2", n)>> : n \in {k \in M2.decl : PublicIn(M2.decl, AccOf2(M2, k), M2.defpriv, k)}}
                \cup (IF M2.defpriv THEN {} ELSE Imp2(M1, M2))      \* re-export of USE-associated entities
ImpP(M1, M2, P) == Vis(P.use1, Exp1(M1)) \cup Vis(P.use2, Exp2(M1, M2))

ResolveP(M1, M2, P, n) == IF n \in P.decl THEN {Ent("p", n)} ELSE {pr[2] : pr \in {z \in ImpP(M1, M2, P) : z[1] = n}}
\* q may USE m1 itself (ONLY list of its own); names it does not get that way come from the host
ImpQ(M1, Q) == Vis(Q.use1, Exp1(M1))
ResolveQ(M1, M2, P, Q, n) == IF n \in Q.decl THEN {Ent("q", n)}
                             ELSE LET viaUse == {pr[2] : pr \in {z \in ImpQ(M1, Q) : z[1] = n}} IN
                                  IF viaUse # {} THEN viaUse ELSE ResolveP(M1, M2, P, n)
Resolve2(M1, M2, n) == IF n \in M2.decl THEN {Ent("m2", n)} ELSE {pr[2] : pr \in {z \in Imp2(M1, M2) : z[1] = n}}

Sites == {<<s, n>> : s \in {"p", "q", "m2"}, n \in {"x", "y", "lx"}}
Res(M1, M2, P, Q) == [st \in Sites |->
   CASE st[1] = "p"  -> ResolveP(M1, M2, P, st[2])
     [] st[1] = "q"  -> ResolveQ(M1, M2, P, Q, st[2])
     [] st[1] = "m2" -> Resolve2(M1, M2, st[2])]

\* Completion contexts: after USE only modules; after "USE m, ONLY:" exactly what m exports; after CALL
\* only callable entities (s2 is a public module procedure of m2 unless m2 is PRIVATE by default; q is
\* the internal procedure of p).
Ctx(M1, M2, P, Q) ==
  [useModules |-> {"m1", "m2"},
   only1      |-> NamesOf(Exp1(M1)),
   only2      |-> NamesOf(Exp2(M1, M2)) \cup (IF M2.defpriv THEN {} ELSE {"s2"}),
   callP      |-> {"q"} \cup (IF P.use2 = "all" /\ ~M2.defpriv THEN {"s2"} ELSE {}),
   callM2     |-> {"s2"}]

Valid(M1, M2, P, Q) ==
  /\ ClauseOk(M2.use1, Exp1(M1)) /\ ClauseOk(P.use1, Exp1(M1)) /\ ClauseOk(P.use2, Exp2(M1, M2))
  /\ M2.decl \cap NamesOf(Imp2(M1, M2)) = {}                 \* a name is not both declared and use-associated
  /\ P.decl \cap NamesOf(ImpP(M1, M2, P)) = {}
  /\ (M2.accx # "def" => "x" \in M2.decl) /\ (M2.accy # "def" => "y" \in M2.decl)
  /\ (M1.accx # "def" => "x" \in M1.decl)
  /\ M2.use1 \notin {"onlyy"} /\ P.use1 \notin {"onlyy"}
  /\ ClauseOk(Q.use1, Exp1(M1)) /\ Q.decl \cap NamesOf(ImpQ(M1, Q)) = {}

Init == /\ m1 \in [decl : {{"x"}, {"x", "y"}}, accx : Acc, defpriv : BOOLEAN]
        /\ m2 \in [decl : {{}, {"x"}, {"y"}}, accx : Acc, accy : Acc, defpriv : BOOLEAN, use1 : Clauses \ {"onlyy"}]
        /\ p \in [decl : {{}, {"x"}}, use1 : Clauses \ {"onlyy"}, use2 : {"none", "all", "onlyx", "onlyy"}]
        /\ q \in [decl : {{}, {"x"}}, use1 : {"none", "onlyy", "onlyx"}]
        /\ Valid(m1, m2, p, q)
        /\ res = Res(m1, m2, p, q)
        /\ ctx = Ctx(m1, m2, p, q)
Next == UNCHANGED vars
Spec == Init /\ [][Next]_vars

(* ---- properties of the reference semantics itself ----------------------- *)
PrivateNeverOutside ==
  \A st \in Sites : \A e \in res[st] :
     /\ (e[1] = "m1" => PublicIn(m1.decl, AccOf1(m1, e[2]), m1.defpriv, e[2]))
     /\ (e[1] = "m2" /\ st[1] # "m2" => PublicIn(m2.decl, AccOf2(m2, e[2]), m2.defpriv, e[2]))
LocalShadows == \A n \in q.decl : res[<<"q", n>>] = {Ent("q", n)}
HostAssociation == \A n \in {"x", "y", "lx"} : (n \notin q.decl /\ n \notin NamesOf(ImpQ(m1, q))) => res[<<"q", n>>] = res[<<"p", n>>]
DefaultPrivateBlocksReexport == m2.defpriv => \A e \in res[<<"p", "x">>] \cup res[<<"p", "y">>] :
                                   e[1] = "m1" => p.use1 # "none"
CallableNeverAVariable == ctx.callP \cap {"x", "y", "lx"} = {} /\ ctx.callM2 \cap {"x", "y", "lx"} = {}
OnlyListsAreExports == ctx.only1 \subseteq m1.decl
RenameHidesOriginal == (p.use1 = "renlx" /\ p.use2 = "none" /\ "x" \notin p.decl) => res[<<"p", "x">>] = {}
=============================================================================
