CONSTANTS MaxLines = 4 MaxDepth = 3 Mode = "robust" UnitKinds = {"module", "program", "sub"} ConstructKinds = {"block", "if"}
SPECIFICATION SpecRobust
VIEW View
INVARIANT WellNested
INVARIANT StackOrdered
