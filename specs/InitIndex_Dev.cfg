CONSTANTS Files = {"a", "b", "c", "d"} Workers = {"w1", "w2"} Deviation = "linkWhileMerging"
  Deps <- Chain4
SPECIFICATION Spec
INVARIANT FinalIndexIsComplete
INVARIANT EachFileMergedOnce
INVARIANT LinkOnlyAfterLastMerge
