SPECIFICATION Spec
INVARIANT OnlyNarrows
INVARIANT BothPathsCount
INVARIANT RenameIsLocal
