SPECIFICATION Spec
INVARIANT OnlyNarrows
INVARIANT BothPathsCount
