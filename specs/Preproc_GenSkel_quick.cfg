CONSTANTS Names = {"A"} Vals = {"v1"} MaxLines = 6 MaxDepth = 2 ExprDepth = 0 AllowBare = FALSE StaleGroup = FALSE AtomKinds = {"def", "lit"} RelSet = {"=="}
SPECIFICATION SkelSpec
