import sys, os, json, shutil, tempfile
sys.path.insert(0,'/repo')
from fortls.interface import cli
from fortls.langserver import LangServer
from fortls.jsonrpc import path_to_uri
class Conn:
    def __init__(s): s.out=[]
    def write_response(s,i,r): s.out.append(('resp',i,r))
    def write_error(s,i,code,message,data=None): s.out.append(('err',i,code,message))
    def send_notification(s,m,p): s.out.append(('note',m,p))
def mkserver(root, args=''):
    a=cli('fortls').parse_args(('--disable_autoupdate --incremental_sync --nthreads 1 '+args).split())
    c=Conn(); s=LangServer(c, vars(a))
    s.handle({'jsonrpc':'2.0','id':0,'method':'initialize','params':{'rootPath':root}})
    return s,c
def mkws(files):
    d=tempfile.mkdtemp(prefix='ws',dir='/var/tmp/vscratch/probe')
    for k,v in files.items():
        p=os.path.join(d,k); os.makedirs(os.path.dirname(p),exist_ok=True); open(p,'w').write(v)
    return d
def req(s,c,method,params,i=1):
    n=len(c.out); s.handle({'jsonrpc':'2.0','id':i,'method':method,'params':params}); return c.out[n:]
def pos(d,f,l,ch,**kw):
    return {'textDocument':{'uri':path_to_uri(os.path.join(d,f))},'position':{'line':l,'character':ch},**kw}
