from srv import *
import logging; logging.disable(logging.CRITICAL)
files={'m1.f90':"module m1\n implicit none\n integer :: cnt\n public :: cnt\ncontains\n subroutine bump(n)\n  integer, intent(in) :: n\n  cnt = cnt + n\n end subroutine bump\nend module m1\n",
'p.f90':"program p\n use m1, only: cnt, bump\n implicit none\n integer :: i\n cnt = 0 ! cnt in comment\n print *, 'cnt', \"cnt\", cnt\n do i = 1, 3\n  call bump(i)\n  call inner(cnt)\n end do\n if (cnt>cnt) cnt=cnt\ncontains\n subroutine inner(cnt)\n  integer :: cnt\n  cnt = cnt*2\n end subroutine inner\nend program p\n"}
d=mkws(files); s,c=mkserver(d)
def refs(f,l,ch,meth='references'):
    r=req(s,c,'textDocument/'+meth,pos(d,f,l,ch,context={'includeDeclaration':True}))[-1]
    if r[0]=='err': return ('ERR',r[3])
    return sorted((x['uri'].split('/')[-1],x['range']['start']['line'],x['range']['start']['character'],x['range']['end']['character']) for x in (r[2] or []))
a=refs('m1.f90',2,13); print('from decl      ',a)
b=refs('p.f90',4,2); print('from use in p  ',b, 'same' if a==b else 'DIFFERENT')
cc=refs('p.f90',1,16); print('from only list ',cc, 'same' if a==cc else 'DIFFERENT')
print('inner dummy cnt', refs('p.f90',14,3))
print('bump', refs('p.f90',7,8))
print('i', refs('p.f90',6,5))
shutil.rmtree(d)
