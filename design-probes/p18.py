from srv import *
import logging; logging.disable(logging.CRITICAL)
def dump(text,name='a.f90'):
    d=mkws({name:text}); p=os.path.join(d,name)
    s,c=mkserver(d); u=path_to_uri(p)
    s.handle({'jsonrpc':'2.0','method':'textDocument/didOpen','params':{'textDocument':{'uri':u}}})
    diags=[ (x['severity'],x['range']['start']['line'],x['message'][:50]) for o in c.out if o[0]=='note' and o[1].endswith('Diagnostics') for x in o[2]['diagnostics']]
    errs=[o for o in c.out if o[0]=='note' and 'showMessage' in o[1]]
    r=req(s,c,'textDocument/documentSymbol',{'textDocument':{'uri':u}})[-1][2]
    sy=[(x['name'].lower(),x['kind'],(x.get('containerName') or '').lower(),x['location']['range']['start']['line'],x['location']['range']['end']['line']) for x in r]
    shutil.rmtree(d); return sy,diags,errs
cases={
 'endmodule nospace': "module m\ncontains\nsubroutine s()\nendsubroutine s\nendmodule m\n",
 'END  MODULE two blanks': "module m\ncontains\nsubroutine s()\nEND  SUBROUTINE  s\nEND  MODULE  m\n",
 'end module no name': "module m\ncontains\nfunction f()\nend function\nend module\n",
 'bare ends': "module m\ncontains\nfunction f()\nend\nend\n",
 'semicolons': "module m; implicit none; integer :: x; contains; subroutine s(); x = 1; end subroutine s; end module m\n",
 'semicolon pairs': "module m; implicit none\ninteger :: x; contains\nsubroutine s(); x = 1\nend subroutine s; end module m\n",
 'cont opening': "module &\n  m\ncontains\nsubroutine &\n  & s(a, &\n  & b)\ninteger :: a, &\n   b\nend subroutine &\n s\nend module m\n",
 'cont with comment': "module m\ncontains\nsubroutine s(a, & ! first\n   ! interleaved comment\n\n   b)\ninteger :: a, b\nend subroutine s\nend module m\n",
 'types ifs': "program p\ntype t\ninteger :: c\nend type\ntype(t) :: v\nif (v%c > 0) then\nv%c = 1\nelse\nv%c = 2\nendif\nselect case (v%c)\ncase (1)\nv%c=0\nend select\nend program\n",
 'label if': "program p\nouter: if (.true.) then\ninner: do i=1,2\nend do inner\nend if outer\nend program p\n",
 'function typed': "module m\ncontains\ninteger function f(a) result(r)\ninteger :: a\nr = a\nend function f\npure elemental real(8) function g(a)\nreal(8), intent(in) :: a\ng = a\nend function g\nrecursive subroutine h()\nend subroutine h\nend module m\n",
 'interface blocks': "module m\ninterface gen\nmodule procedure a, b\nend interface gen\ninterface\nsubroutine ext(x)\ninteger :: x\nend subroutine ext\nend interface\ninterface operator(+)\nmodule procedure a\nend interface\ncontains\nsubroutine a()\nend subroutine a\nsubroutine b(i)\ninteger :: i\nend subroutine b\nend module m\n",
 'submodule': "module mp\ninterface\nmodule subroutine s()\nend subroutine s\nend interface\nend module mp\nsubmodule (mp) sm\ncontains\nmodule subroutine s()\nend subroutine s\nend submodule sm\n",
 'where forall critical': "program p\nreal :: a(3)\nwhere (a > 0)\na = 1\nelsewhere\na = 2\nend where\nforall (i=1:3)\na(i) = i\nend forall\ncritical\na = 0\nend critical\nassociate (b => a)\nb = 1\nend associate\nend program p\n",
 'enum': "module m\nenum, bind(c)\nenumerator :: red = 1, blue\nend enum\nend module m\n",
 'block data': "block data bd\ninteger :: x\ncommon /c/ x\nend block data bd\n",
}
for k,v in cases.items():
    sy,dg,er=dump(v); print(k,'\n   sym',sy,'\n   diag',dg, er if er else '')
