from srv import *
d=mkws({'a.f90':"""module m
  implicit none
  integer :: i, j
contains
  subroutine s(a)
    integer, intent(in) :: a
    integer :: k
    k=k+1
    i=i+a
    j = j + i
    print *, sin(1.0)
  end subroutine s
end module m
"""})
s,c=mkserver(d)
print([o for o in c.out if o[0]!='resp'])
def short(r):
    o=r[-1]
    if o[0]=='err': return ('ERR',o[3])
    return o[2]
# references on k (line 7: '    k=k+1')
r=short(req(s,c,'textDocument/references',pos(d,'a.f90',7,4,context={'includeDeclaration':True})))
print('refs k:', [(x['range']['start']['line'],x['range']['start']['character'],x['range']['end']['character']) for x in r] if isinstance(r,list) else r)
r=short(req(s,c,'textDocument/references',pos(d,'a.f90',8,4,context={'includeDeclaration':True})))
print('refs i:', [(x['range']['start']['line'],x['range']['start']['character'],x['range']['end']['character']) for x in r] if isinstance(r,list) else r)
r=short(req(s,c,'textDocument/rename',pos(d,'a.f90',7,4,newName='kk')))
print('rename k:', r)
# intrinsic
print('refs sin:', short(req(s,c,'textDocument/references',pos(d,'a.f90',10,14,context={'includeDeclaration':True}))))
print('hl sin:', short(req(s,c,'textDocument/documentHighlight',pos(d,'a.f90',10,14))))
print('impl m:', short(req(s,c,'textDocument/implementation',pos(d,'a.f90',0,8))))
print('impl s:', short(req(s,c,'textDocument/implementation',pos(d,'a.f90',4,14))))
print('rename sin:', short(req(s,c,'textDocument/rename',pos(d,'a.f90',10,14,newName='q'))))
print('hover out of range:', short(req(s,c,'textDocument/hover',pos(d,'a.f90',100,14))))
print('def out of range col:', short(req(s,c,'textDocument/definition',pos(d,'a.f90',2,400))))
print('sig:', short(req(s,c,'textDocument/signatureHelp',pos(d,'a.f90',10,19))))
print('codeAction:', short(req(s,c,'textDocument/codeAction',{'textDocument':{'uri':path_to_uri(d+'/a.f90')},'range':{'start':{'line':0,'character':0},'end':{'line':3,'character':0}},'context':{'diagnostics':[]}})))
