import sys, io, json
sys.path.insert(0,'/repo')
from fortls.parsers.internal.parser import FortranFile, splitlines
def mk(text):
    f=FortranFile('/var/tmp/vscratch/probe/x.f90'); f.set_contents(splitlines(text)); return f
def ref_apply(text, ch):
    # LSP reference: positions index lines split on \n, \r\n, \r
    if ch.get('range') is None: return ch['text']
    import re
    # compute offsets
    lines=re.split(r'(\r\n|\n|\r)', text)
    # build line start offsets
    offs=[0]; pos=0
    for m in re.finditer(r'\r\n|\n|\r', text):
        offs.append(m.end())
    def off(p): return offs[p['line']]+p['character'] if p['line']<len(offs) else len(text)
    s=off(ch['range']['start']); e=off(ch['range']['end'])
    return text[:s]+ch['text']+text[e:]
def show(text, ch):
    f=mk(text); f.apply_change(ch)
    exp=splitlines(ref_apply(text,ch))
    print(repr(text), ch.get('range'), repr(ch['text']), '->', f.contents_split, 'EXPECT', exp, 'OK' if f.contents_split==exp else '**MISMATCH**')
R=lambda sl,sc,el,ec:{'start':{'line':sl,'character':sc},'end':{'line':el,'character':ec}}
show("ab\ncd\nef", {'range':R(0,1,0,1),'text':'X\n'})
show("ab\ncd\nef", {'range':R(0,1,1,1),'text':'X\nY'})
show("ab\ncd\nef", {'range':R(0,1,1,1),'text':''})
show("ab\ncd\nef", {'range':R(0,2,1,0),'text':''})
show("ab\ncd\nef", {'range':R(1,0,1,0),'text':'\r\n'})
show("ab\ncd\nef", {'range':R(2,2,2,2),'text':'\n'})
show("ab\ncd\nef", {'range':R(3,0,3,0),'text':'zz'})
show("ab\ncd\n", {'range':R(2,0,2,0),'text':'zz'})
show("ab\ncd\n", {'range':R(3,0,3,0),'text':'zz'})
show("ab\ncd", {'text':'q\n'})
show("ab\ncd", {'range':R(0,0,1,2),'text':'q'})
