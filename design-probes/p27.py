import sys, os, re, json, random, shutil, logging, collections
sys.path.insert(0,'/var/tmp/vscratch/probe'); logging.disable(logging.CRITICAL)
import faulthandler; faulthandler.dump_traceback_later(1500, exit=True)
from srv import *
V={ # file -> variants
'a.f90':{
 'A1':"module ma\n implicit none\n type :: t\n  integer :: c1\n contains\n  procedure :: f => f_impl\n end type t\ncontains\n subroutine f_impl(self)\n  class(t) :: self\n end subroutine f_impl\nend module ma\n",
 'A2':"module ma\n implicit none\n type :: t\n  integer :: c2\n end type t\n integer :: extra\nend module ma\n",
 'A3':"module mz\n implicit none\n integer :: zz\nend module mz\n",
},
'b.f90':{
 'B1':"module mb\n use ma\n implicit none\n type, extends(t) :: u\n  integer :: d\n end type u\nend module mb\n",
 'B2':"module mb\n use ma\n implicit none\n type :: u\n  integer :: d\n  type(t) :: inner\n end type u\nend module mb\n",
},
'c.f90':{
 'C1':"program pc\n use mb\n use ma\n implicit none\n type(u) :: v\n type(t) :: w\n v%c1 = 1\n v%c2 = 2\n v%d = 3\n w%c1 = 4\n w%c2 = 5\n call w%f()\n extra = 1\nend program pc\n",
}}
def battery(s,c,d,present):
    out={}
    for f in sorted(present):
        p=os.path.join(d,f); u=path_to_uri(p); text=open(p).read()
        r=req(s,c,'textDocument/documentSymbol',{'textDocument':{'uri':u}})[-1]
        out[f+':sym']=sorted(json.dumps(x,sort_keys=True).replace(d,'') for x in (r[2] or [])) if r[0]=='resp' else ('ERR',r[3][:50])
        for l,line in enumerate(text.split('\n')):
            for m in re.finditer(r'[A-Za-z_]\w*', line):
                for meth in ('definition','hover','references'):
                    kw={'context':{'includeDeclaration':True}} if meth=='references' else {}
                    r=req(s,c,'textDocument/'+meth,pos(d,f,l,m.start()+1,**kw))[-1]
                    v=r[2] if r[0]=='resp' else ('ERR',r[3][:50])
                    if meth=='references' and isinstance(v,list): v=sorted(json.dumps(x,sort_keys=True) for x in v)
                    out[f'{f}:{l}:{m.start()}:{meth}']=json.dumps(v,sort_keys=True).replace(d,'')
        n=len(c.out)
        s.handle({'jsonrpc':'2.0','method':'textDocument/didSave','params':{'textDocument':{'uri':u}}})
        out[f+':diag']=[json.dumps(o[2]['diagnostics'],sort_keys=True).replace(d,'') for o in c.out[n:] if o[0]=='note' and o[1].endswith('Diagnostics')]
    r=req(s,c,'workspace/symbol',{'query':''})[-1]
    out['ws']=sorted(json.dumps(x,sort_keys=True).replace(d,'') for x in (r[2] or []))
    return out
def run(seed, steps):
    rnd=random.Random(seed)
    d=mkws({'a.f90':V['a.f90']['A1'],'b.f90':V['b.f90']['B1'],'c.f90':V['c.f90']['C1']})
    cur={'a.f90':'A1','b.f90':'B1','c.f90':'C1'}; present=set(cur); opened=set(); dirty={}
    s,c=mkserver(d); hist=[]
    def note(m,f,**kw): s.handle({'jsonrpc':'2.0','method':'textDocument/'+m,'params':{'textDocument':{'uri':path_to_uri(os.path.join(d,f))},**kw}})
    for _ in range(steps):
        f=rnd.choice(['a.f90','b.f90','c.f90','a.f90'])
        acts=[]
        if f in present and f not in opened: acts+=['open']
        if f in opened: acts+=['edit','save','close','query']
        if f in present and f in opened and f!='c.f90': acts+=['delete']
        if f not in present: acts+=['create']
        a=rnd.choice(acts)
        if a=='open': note('didOpen',f); opened.add(f)
        elif a=='edit':
            v=rnd.choice(list(V[f])); dirty[f]=v
            note('didChange',f,contentChanges=[{'text':V[f][v]}])
        elif a=='save':
            if f in dirty: cur[f]=dirty.pop(f); open(os.path.join(d,f),'w').write(V[f][cur[f]])
            note('didSave',f)
        elif a=='close': dirty.pop(f,None); note('didClose',f); opened.discard(f)
        elif a=='delete': os.remove(os.path.join(d,f)); note('didClose',f); opened.discard(f); present.discard(f); dirty.pop(f,None)
        elif a=='create':
            v=rnd.choice(list(V[f])); cur[f]=v; open(os.path.join(d,f),'w').write(V[f][v]); present.add(f); note('didOpen',f); opened.add(f)
        elif a=='query': battery(s,c,d,present)
        hist.append((a,f,dirty.get(f) or cur.get(f)))
    # quiesce: save all dirty
    for f in list(dirty): cur[f]=dirty.pop(f); open(os.path.join(d,f),'w').write(V[f][cur[f]]); note('didSave',f); hist.append(('save',f,cur[f]))
    long=battery(s,c,d,present)
    s2,c2=mkserver(d); fresh=battery(s2,c2,d,present)
    diff={k for k in set(long)|set(fresh) if long.get(k)!=fresh.get(k)}
    shutil.rmtree(d)
    return hist, diff, long, fresh
classes=collections.Counter(); examples={}
for seed in range(60):
    hist,diff,long,fresh=run(seed, 8)
    if diff:
        kinds=collections.Counter(k.split(':')[-1] for k in diff)
        key=tuple(sorted(kinds))
        classes[key]+=1; examples.setdefault(key,(seed,[h for h in hist if h[0]!='query'],sorted(diff)[:3], [ (long.get(k,'')[:100],fresh.get(k,'')[:100]) for k in sorted(diff)[:2]]))
print('histories with diffs:',sum(classes.values()),'/60')
for k,v in classes.most_common(): print(v,k,'\n    ',examples[k])
