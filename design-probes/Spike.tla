---- MODULE Spike ----
EXTENDS Naturals, Sequences, TLC, SequencesExt
CONSTANTS MaxLen
VARIABLES doc, hist
Tok == {"a","LF","CR"}
Init == doc = <<"">> /\ hist = <<>>
Ins(t) == /\ Len(hist) < MaxLen
          /\ doc' = IF t = "a" THEN [doc EXCEPT ![Len(doc)] = @ \o "a"] ELSE Append(doc, "")
          /\ hist' = Append(hist, [op |-> "ins", tok |-> t])
Next == \E t \in Tok : Ins(t)
Spec == Init /\ [][Next]_<<doc,hist>>
Inv == Len(doc) <= MaxLen + 1
====
