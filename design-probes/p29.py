import sys, io, json, itertools, random
sys.path.insert(0,'/repo')
from fortls.jsonrpc import JSONRPC2Connection, ReadWriter, path_to_uri, path_from_uri
class RawChunks(io.RawIOBase):
    def __init__(s, chunks): s.chunks=list(chunks); s.buf=b''
    def readable(s): return True
    def readinto(s, b):
        if not s.buf:
            if not s.chunks: return 0
            s.buf=s.chunks.pop(0)
        n=min(len(b),len(s.buf)); b[:n]=s.buf[:n]; s.buf=s.buf[n:]; return n
def frame(o, esc): 
    b=json.dumps(o,ensure_ascii=esc).encode(); return b"Content-Length: %d\r\n\r\n"%len(b)+b
msgs=[{"jsonrpc":"2.0","id":1,"method":"m","params":{"t":"a"}},{"jsonrpc":"2.0","method":"n","params":{"t":"é€😀\"\\"}},{"jsonrpc":"2.0","id":"x","method":"q","params":None}]
bad=0;n=0
for esc in (True,False):
    stream=b"".join(frame(m,esc) for m in msgs)
    rnd=random.Random(1)
    cutsets=[[],[1],[len(stream)//2],list(range(1,len(stream)))]+[sorted(rnd.sample(range(1,len(stream)),k)) for k in (2,3,5,9) for _ in range(50)]
    for cuts in cutsets:
        pts=[0]+cuts+[len(stream)]; chunks=[stream[a:b] for a,b in zip(pts,pts[1:])]
        conn=JSONRPC2Connection(ReadWriter(io.BufferedReader(RawChunks(chunks)), io.BytesIO()))
        got=[]
        try:
            while True: got.append(conn.read_message())
        except EOFError: pass
        except Exception as e: got.append(('EXC',repr(e)))
        n+=1
        if got!=msgs: bad+=1; print('MISMATCH',esc,cuts[:6],got[:2])
print('chunkings',n,'bad',bad)
import os
for p in ['/var/tmp/vscratch/probe/a b.f90','/var/tmp/vscratch/probe/a%20b.f90','/var/tmp/vscratch/probe/a#b.f90','/var/tmp/vscratch/probe/é€.f90','/var/tmp/vscratch/probe/a?b+c&d.f90',"/var/tmp/vscratch/probe/a'b.f90"]:
    u=path_to_uri(p); back=path_from_uri(u)
    from urllib.parse import quote
    u2='file://'+quote(p, safe="/")  # independent-ish encoder
    print(repr(p), u, 'roundtrip', back==p, 'from std-encoded', path_from_uri(u2)==p)
