from srv import *
import logging; logging.disable(logging.CRITICAL)
import signal
def sweep(d, files, methods=('textDocument/hover','textDocument/definition','textDocument/references','textDocument/implementation','textDocument/completion','textDocument/signatureHelp','textDocument/rename','textDocument/documentHighlight')):
    s,c=mkserver(d)
    errs={}
    for f in files:
        p=os.path.join(d,f)
        s.handle({'jsonrpc':'2.0','method':'textDocument/didOpen','params':{'textDocument':{'uri':path_to_uri(p)}}})
        lines=open(p).read().split('\n')
        for l,line in enumerate(lines):
            for ch in range(len(line)+1):
                for m in methods:
                    kw={'newName':'zz'} if m.endswith('rename') else {}
                    r=req(s,c,m,pos(d,f,l,ch,**kw))
                    for o in r:
                        if o[0]=='err': errs.setdefault((m.split('/')[-1],o[3][:70]),[]).append((f,l,ch))
    for o in c.out:
        if o[0]=='err' and o[1]==-1: errs.setdefault(('diag',o[3][:70]),[]).append(0)
    return {k:len(v) for k,v in errs.items()}
cases={
 'use-cycle': {'a.f90':"module a\n use b\n integer :: x\nend module a\n",'b.f90':"module b\n use a\n integer :: y\nend module b\nprogram p\n use a\n y = x\nend program p\n"},
 'extends-self': {'a.f90':"module a\n type, extends(t) :: t\n  integer :: c\n contains\n  procedure :: f\n end type t\ncontains\n subroutine f(s)\n class(t) :: s\n end subroutine f\nend module a\n"},
 'extends-2cycle': {'a.f90':"module a\n type, extends(u) :: t\n  integer :: c\n contains\n  procedure :: f\n end type t\n type, extends(t) :: u\n  integer :: d\n contains\n procedure :: f\n end type u\n type(t) :: v\ncontains\n subroutine f(s)\n class(t) :: s\n s%f = 1\n v%c = 1\n end subroutine f\nend module a\n"},
 'submod-self': {'a.f90':"submodule (s) s\n integer :: x\ncontains\n subroutine f()\n x = 1\n end subroutine f\nend submodule s\n"},
 'submod-2cycle': {'a.f90':"submodule (s2) s1\n integer :: x\nend submodule s1\nsubmodule (s1) s2\n integer :: y\ncontains\n subroutine f()\n x = y\n end subroutine\nend submodule s2\n"},
 'ptr-self': {'a.f90':"program p\n integer, pointer :: q => q\n integer, pointer :: r => s\n integer, pointer :: s => r\n q = r + s\nend program p\n"},
 'assoc-self': {'a.f90':"program p\n associate(a => a, b => c, c => b)\n a = b + c\n end associate\nend program p\n"},
 'proc-self': {'a.f90':"module m\n type t\n contains\n  procedure :: f => f\n  procedure :: g => h\n  procedure :: h => g\n end type t\n type(t) :: v\ncontains\n subroutine z()\n call v%f()\n call v%g()\n end subroutine z\nend module m\n"},
 'include-cycle': {'a.f90':"program p\n include 'b.f90'\n x = 1\nend program p\n", 'b.f90':"integer :: x\ninclude 'a.f90'\n"},
 'include-self': {'a.f90':"integer :: x\ninclude 'a.f90'\n"},
}
def handler(signum, frame): raise TimeoutError()
signal.signal(signal.SIGALRM, handler)
for k,files in cases.items():
    d=mkws(files)
    signal.alarm(60)
    try:
        print(k, sweep(d, list(files)))
    except BaseException as e:
        print(k, 'EXC', type(e).__name__, str(e)[:100])
    signal.alarm(0)
