from srv import *
import logging; logging.disable(logging.CRITICAL)
A1="module ma\n type :: t\n  integer :: c1\n end type t\nend module ma\n"
A2="module ma\n type :: t\n  integer :: c2\n end type t\nend module ma\n"
B="program pb\n use ma\n type(t) :: v\n v%c1 = 1\n v%c2 = 2\nend program pb\n"
d=mkws({'a.f90':A1,'b.f90':B})
s,c=mkserver(d)
ua=path_to_uri(d+'/a.f90'); ub=path_to_uri(d+'/b.f90')
def note(m,u): s.handle({'jsonrpc':'2.0','method':m,'params':{'textDocument':{'uri':u}}})
def q(s_,c_,f,l,ch): 
    r=req(s_,c_,'textDocument/definition',pos(d,f,l,ch))[-1]
    return r[2] and (r[2]['uri'].split('/')[-1], r[2]['range']['start']['line'])
note('textDocument/didOpen',ua); note('textDocument/didOpen',ub)
print('before: c1->',q(s,c,'b.f90',3,4),' c2->',q(s,c,'b.f90',4,4))
open(d+'/a.f90','w').write(A2)
note('textDocument/didSave',ua)
print('after save a (long-lived): c1->',q(s,c,'b.f90',3,4),' c2->',q(s,c,'b.f90',4,4))
s2,c2=mkserver(d)
print('fresh: c1->',q(s2,c2,'b.f90',3,4),' c2->',q(s2,c2,'b.f90',4,4))
# rename module in a: old key must vanish
open(d+'/a.f90','w').write(A2.replace('ma','mz'))
note('textDocument/didSave',ua)
print('ws sym ma (long):', [x['name'] for x in req(s,c,'workspace/symbol',{'query':'m'})[-1][2]])
s3,c3=mkserver(d)
print('ws sym ma (fresh):', [x['name'] for x in req(s3,c3,'workspace/symbol',{'query':'m'})[-1][2]])
print('long t->',q(s,c,'b.f90',2,6),'fresh t->',q(s3,c3,'b.f90',2,6))
# delete file a + close
os.remove(d+'/a.f90'); note('textDocument/didClose',ua)
print('after delete: ws sym:', [x['name'] for x in req(s,c,'workspace/symbol',{'query':''})[-1][2]], 'workspace keys', [k.split('/')[-1] for k in s.workspace])
