from srv import *
import logging; logging.disable(logging.CRITICAL)
opts={ # name: (cli tokens for v1, json value v1, cli tokens v2, json v2, default)
 'nthreads':('--nthreads 2',2,'--nthreads 3',3,4),
 'notify_init':('--notify_init',True,None,False,False),
 'incremental_sync':('--incremental_sync',True,None,False,False),
 'recursion_limit':('--recursion_limit 1200',1200,'--recursion_limit 1300',1300,1000),
 'sort_keywords':('--sort_keywords',True,None,False,False),
 'disable_autoupdate':('--disable_autoupdate',True,None,True,True),
 'debug_log':(None,None,None,None,False),
 'source_dirs':('--source_dirs sub',['sub'],'--source_dirs sub2',['sub2'],None),
 'incl_suffixes':('--incl_suffixes .inc',['.inc'],'--incl_suffixes .ff',['.ff'],set()),
 'excl_suffixes':('--excl_suffixes _x.f90',['_x.f90'],'--excl_suffixes _y.f90',['_y.f90'],set()),
 'excl_paths':('--excl_paths sub',['sub'],'--excl_paths sub2',['sub2'],None),
 'autocomplete_no_prefix':('--autocomplete_no_prefix',True,None,False,False),
 'autocomplete_no_snippets':('--autocomplete_no_snippets',True,None,False,False),
 'autocomplete_name_only':('--autocomplete_name_only',True,None,False,False),
 'lowercase_intrinsics':('--lowercase_intrinsics',True,None,False,False),
 'use_signature_help':('--use_signature_help',True,None,False,False),
 'hover_signature':('--hover_signature',True,None,False,False),
 'hover_language':('--hover_language l1','l1','--hover_language l2','l2','fortran90'),
 'max_line_length':('--max_line_length 80',80,'--max_line_length 90',90,-1),
 'max_comment_line_length':('--max_comment_line_length 80',80,'--max_comment_line_length 90',90,-1),
 'disable_diagnostics':('--disable_diagnostics',True,None,False,False),
 'pp_suffixes':('--pp_suffixes .h',['.h'],'--pp_suffixes .hh',['.hh'],None),
 'include_dirs':('--include_dirs sub',['sub'],'--include_dirs sub2',['sub2'],None),
 'pp_defs':('--pp_defs {"A":"1"}',{"A":"1"},'--pp_defs {"B":"2"}',{"B":"2"},{}),
 'symbol_skip_mem':('--symbol_skip_mem',True,None,False,False),
 'enable_code_actions':('--enable_code_actions',True,None,False,False),
}
def eff(cli_tokens, cfg):
    files={'sub/a.f90':"module ma\nend module\n",'sub2/b.f90':"module mb\nend module\n",'r.f90':"module mr\nend module\n"}
    if cfg is not None: files['.fortlsrc']=json.dumps(cfg)
    d=mkws(files)
    a=cli('fortls').parse_args(('--nthreads 1 ' if 'nthreads' not in (cli_tokens or '') else '')+ (cli_tokens or '')).__dict__ if False else None
    args=cli('fortls').parse_args((cli_tokens or '').split())
    cc=Conn(); s=LangServer(cc,vars(args)); s.handle({'jsonrpc':'2.0','id':0,'method':'initialize','params':{'rootPath':d}})
    vals={k:getattr(s,k,None) for k in opts}
    def norm(v):
        if isinstance(v,(set,list)): return sorted(os.path.relpath(x,d) if isinstance(x,str) and x.startswith(d) else x for x in v)
        return v
    vals={k:norm(v) for k,v in vals.items()}
    ok = cc.out[-1][0]=='resp'
    shutil.rmtree(d); return vals, ok
base,_=eff('', None)
for o,(c1,j1,c2,j2,dflt) in opts.items():
    if c1 is None: continue
    vc,_=eff(c1,None); vf,_=eff('',{o:j1}); 
    # file wins: CLI v2 (or absent) + file v1
    vb,_=eff(c2 or '', {o:j1})
    # other option in file only: does this one keep CLI value?
    vk,_=eff(c1,{'hover_language':'zz'} if o!='hover_language' else {'nthreads':2})
    flag=[]
    if vc[o]!=vf[o]: flag.append(f'CLI≠FILE {vc[o]!r} vs {vf[o]!r}')
    if vb[o]!=vf[o]: flag.append(f'FILE-NOT-WINNING both={vb[o]!r} file={vf[o]!r}')
    if vk[o]!=vc[o]: flag.append(f'RESET-BY-UNRELATED-FILE cli={vc[o]!r} after={vk[o]!r}')
    print(o, 'OK' if not flag else ' ; '.join(flag))
