from srv import *
import logging; logging.disable(logging.CRITICAL)
files={'m1.f90':"""module m1
  implicit none
  private
  integer, public :: x
  integer :: y
  integer, public :: z
end module m1
""",'m2.f90':"""module m2
  use m1
  implicit none
  integer :: w
end module m2
""",'m3.f90':"""module m3
  use m1, only: x
  implicit none
  private
  integer, public :: y
end module m3
""",'p.f90':"""program p
  use m2, only: lx => x, w
  use m3
  implicit none
  integer :: q
  q = lx + w + y
  call s()
contains
  subroutine s()
    integer :: w
    w = q + y + lx
  end subroutine s
end program p
"""}
d=mkws(files); s,c=mkserver(d)
def q(f,l,ch):
    r=req(s,c,'textDocument/definition',pos(d,f,l,ch))[-1]
    return r[2] and (r[2]['uri'].split('/')[-1], r[2]['range']['start']['line'], r[2]['range']['start']['character'], r[2]['range']['end']['character'])
print('lx (expect m1:3)', q('p.f90',5,6))
print('w  (expect m2:3)', q('p.f90',5,11))
print('y  (expect m3:4)', q('p.f90',5,15))
print('inner w (expect p:9)', q('p.f90',10,4))
print('inner q (expect p:4)', q('p.f90',10,8))
print('inner y (expect m3:4)', q('p.f90',10,12))
print('inner lx (expect m1:3)', q('p.f90',10,16))
def comp(f,l,ch):
    r=req(s,c,'textDocument/completion',pos(d,f,l,ch))[-1]
    return sorted(x['label'] for x in (r[2] or []) if x.get('kind') in (6,3,7,9,2)) if r[0]=='resp' else r
files2=dict(files); 
print('compl "l" in p:', [x for x in comp('p.f90',5,7)][:20])
print('compl "w" ', comp('p.f90',5,12)[:20])
print('compl "y" ', comp('p.f90',5,16)[:20])
r=req(s,c,'textDocument/completion',pos(d,'p.f90',5,16))[-1][2]
print([ (x['label'],x['kind']) for x in r][:30])
