---- MODULE SpikeTrace ----
EXTENDS Naturals, Sequences, TLC, Json, IOUtils, TLCExt
\* batch of traces: file is ndjson; each line {"tid":n,"ev":"ins","tok":"a","nlines":k}
Lines == ndJsonDeserialize(IOEnv.TRACE_FILE)
VARIABLES doc, hist, l, tid
S == INSTANCE Spike WITH MaxLen <- 1000
ASSUME TLCSet(1, {})
TIds == {Lines[i].tid : i \in DOMAIN Lines}
Idx(t) == SelectSeq([i \in DOMAIN Lines |-> i], LAMBDA i : Lines[i].tid = t)
TraceOf(t) == [k \in 1..Len(Idx(t)) |-> Lines[Idx(t)[k]]]
TInit == /\ tid \in TIds /\ l = 1 /\ S!Init
TNext == /\ l <= Len(TraceOf(tid))
         /\ LET e == TraceOf(tid)[l] IN
            /\ S!Ins(e.tok)
            /\ Len(doc') = e.nlines
         /\ l' = l + 1 /\ UNCHANGED tid
TSpec == TInit /\ [][TNext]_<<doc,hist,l,tid>>
\* a trace is accepted iff some state reaches l = Len+1
Done == l = Len(TraceOf(tid)) + 1
Mark == IF Done THEN TLCSet(1, TLCGet(1) \cup {tid}) ELSE TRUE
Post == /\ PrintT(<<"ACCEPTED", TLCGet(1)>>) /\ PrintT(<<"ALL", TIds>>)
====
