from srv import *
import logging; logging.disable(logging.CRITICAL)
def diags(text, name='a.f90'):
    d=mkws({name:text}); s,c=mkserver(d); u=path_to_uri(os.path.join(d,name)); n=len(c.out)
    s.handle({'jsonrpc':'2.0','method':'textDocument/didOpen','params':{'textDocument':{'uri':u}}})
    out=[]
    for o in c.out[n:]:
        if o[0]=='note' and o[1].endswith('Diagnostics'): out+=[(x['severity'],x['range']['start']['line'],x['message']) for x in o[2]['diagnostics']]
        else: out.append(o)
    shutil.rmtree(d); return out
progs={
'iso_c': "module m\n use, intrinsic :: iso_c_binding, only: c_int, c_ptr, c_double\n implicit none\n integer(c_int) :: i\n type(c_ptr) :: p\n real(kind=c_double) :: r\ncontains\n function f(x) bind(c, name='f') result(y)\n  integer(c_int), value :: x\n  integer(c_int) :: y\n  y = x\n end function f\nend module m\n",
'iso_env': "program p\n use iso_fortran_env\n implicit none\n integer(int32) :: i\n real(real64) :: r\n write(output_unit,*) i, r\nend program p\n",
'ieee': "program p\n use, intrinsic :: ieee_arithmetic\n implicit none\n real :: x\n type(ieee_round_type) :: rt\n x = ieee_value(x, ieee_quiet_nan)\nend program p\n",
'omp': "program p\n use omp_lib\n implicit none\n integer :: n\n integer(kind=omp_lock_kind) :: lck\n n = omp_get_num_threads()\nend program p\n",
'interface body host types': "module m\n implicit none\n type :: t\n  integer :: a\n end type t\n interface\n  subroutine s(x)\n   import :: t\n   type(t) :: x\n  end subroutine s\n end interface\nend module m\n",
'generic + operators': "module m\n implicit none\n type :: v\n  real :: x\n contains\n  procedure :: add\n  generic :: operator(+) => add\n  procedure, pass(b) :: radd\n  final :: fin\n end type v\n interface v\n  module procedure ctor\n end interface v\ncontains\n function add(a, b) result(c)\n  class(v), intent(in) :: a, b\n  type(v) :: c\n  c%x = a%x + b%x\n end function add\n function radd(a, b) result(c)\n  real, intent(in) :: a\n  class(v), intent(in) :: b\n  type(v) :: c\n  c%x = a + b%x\n end function radd\n subroutine fin(self)\n  type(v) :: self\n end subroutine fin\n function ctor(x) result(r)\n  real, intent(in) :: x\n  type(v) :: r\n  r%x = x\n end function ctor\nend module m\n",
'select type': "module m\n implicit none\n type :: b\n end type b\n type, extends(b) :: d\n  integer :: k\n end type d\ncontains\n subroutine s(o)\n  class(b), intent(inout) :: o\n  select type (o)\n  type is (d)\n   o%k = 1\n  class is (b)\n   continue\n  class default\n   continue\n  end select\n  select type (q => o)\n  type is (d)\n   q%k = 2\n  end select\n end subroutine s\nend module m\n",
'nested procs + recursion': "module m\n implicit none\ncontains\n recursive function fact(n) result(r)\n  integer, intent(in) :: n\n  integer :: r\n  if (n <= 1) then\n   r = 1\n  else\n   r = n * fact(n-1)\n  end if\n end function fact\n pure elemental real function sq(x)\n  real, intent(in) :: x\n  sq = x*x\n end function sq\n subroutine outer(a)\n  integer, intent(inout) :: a(:)\n  integer :: i\n  do i = 1, size(a)\n   call bump(a(i))\n  end do\n contains\n  subroutine bump(v)\n   integer, intent(inout) :: v\n   v = v + i\n  end subroutine bump\n end subroutine outer\nend module m\n",
'external/implicit': "subroutine old(a, f)\n implicit none\n real :: a\n real, external :: f\n external g\n real g\n a = f(a) + g(a)\nend subroutine old\n",
'char funcs': "module m\n implicit none\ncontains\n function up(s) result(t)\n  character(len=*), intent(in) :: s\n  character(len=len(s)) :: t\n  t = s\n end function up\n character(len=10) function nm()\n  nm = 'x'\n end function nm\nend module m\n",
'block/assoc/forall': "program p\n implicit none\n integer :: a(3), i\n a = 0\n blk: block\n  integer :: t\n  t = 1\n  a(1) = t\n end block blk\n associate (x => a(1), y => a(2))\n  y = x\n end associate\n forall (i=1:3) a(i) = i\n do concurrent (i=1:3)\n  a(i) = a(i) + 1\n end do\n where (a > 1)\n  a = 1\n end where\nend program p\n",
'submodule': "module mp\n implicit none\n interface\n  module subroutine s(x)\n   integer, intent(in) :: x\n  end subroutine s\n  module function f(y) result(z)\n   integer, intent(in) :: y\n   integer :: z\n  end function f\n end interface\nend module mp\nsubmodule (mp) sm\n implicit none\ncontains\n module subroutine s(x)\n  integer, intent(in) :: x\n end subroutine s\n module procedure f\n  z = y\n end procedure f\nend submodule sm\n",
'enum/param': "module m\n implicit none\n enum, bind(c)\n  enumerator :: red = 1, green, blue\n end enum\n integer, parameter :: dp = kind(1.0d0)\n real(dp), parameter :: pi = 3.14159_dp\n integer, dimension(3), parameter :: v = [1, 2, 3]\n character(len=*), parameter :: s = 'a!b'\nend module m\n",
}
for k,v in progs.items():
    # confirm validity with gfortran
    import subprocess
    r=subprocess.run(['gfortran','-fsyntax-only','-std=f2018','-fopenmp','-x','f95','-','-J','/var/tmp/vscratch/probe'],input=v,capture_output=True,text=True)
    print(k,'| gfortran', 'ok' if r.returncode==0 else r.stderr.strip().split('\n')[-1][:80], '| fortls:', diags(v))
import glob
for f in glob.glob('/var/tmp/vscratch/probe/*.mod')+glob.glob('/var/tmp/vscratch/probe/*.smod'): os.remove(f)
