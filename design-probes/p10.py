from srv import *
import logging; logging.disable(logging.CRITICAL)
def files_indexed(s): return sorted(os.path.relpath(k, s.root_path) for k in s.workspace)
tree={'r.f90':"module mr\nend module\n",'sub/a.f90':"module ma\nend module\n",'sub/deep/b.F90':"module mb\nend module\n",'ex/c.f90':"module mc\nend module\n",'ex/in/d.f90':"module md\nend module\n",'sub/e.f9':"module me\nend module\n",'sub/f.f90.bak':"module mf\nend module\n",'sub/g.FoR':"module mg\nend module\n", 'sub/h.inc':"module mh\nend module\n"}
d=mkws(tree); s,c=mkserver(d); print('default         ', files_indexed(s))
d=mkws(tree); s,c=mkserver(d,'--source_dirs sub'); print('cli source sub  ', files_indexed(s))
d=mkws({**tree,'.fortlsrc':'{"source_dirs":["sub"]}'}); s,c=mkserver(d); print('file source sub ', files_indexed(s))
d=mkws(tree); s,c=mkserver(d,'--excl_paths ex'); print('cli excl ex     ', files_indexed(s))
d=mkws(tree); s,c=mkserver(d,'--excl_paths ex/**'); print('cli excl ex/**  ', files_indexed(s))
d=mkws(tree); s,c=mkserver(d,'--excl_paths sub/a.f90'); print('cli excl file   ', files_indexed(s))
d=mkws(tree); s,c=mkserver(d,'--incl_suffixes .inc'); print('incl .inc       ', files_indexed(s))
d=mkws(tree); s,c=mkserver(d,'--excl_suffixes a.f90 .F90'); print('excl sfx        ', files_indexed(s))
d=mkws(tree); s,c=mkserver(d,'--source_dirs sub/**'); print('cli source sub/**', files_indexed(s))
d=mkws(tree); s,c=mkserver(d,'-c nonexist.json'); print('missing explicit config msgs:', [o for o in c.out if o[0]=='note'])
