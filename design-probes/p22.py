import sys, os, traceback, logging, time, collections, itertools, random
sys.path.insert(0,'/repo'); logging.disable(logging.CRITICAL)
import faulthandler; faulthandler.dump_traceback_later(1100, exit=True)
from fortls.parsers.internal.parser import FortranFile, splitlines
from fortls.langserver import LangServer
stm=["module m","submodule (m) sm","submodule (","program p","subroutine s(a,b)","function f(x) result(r)","integer function g(x)","pure elemental function h(","type t","type, extends(t) :: u","type, abstract :: a_t","type(t) :: v","class(t), pointer :: cp => null()","integer :: i, j(3)","integer, intent(in) :: a","real(kind=","character(len=*), parameter :: c = 'x'","procedure(f), pointer :: pp => null()","procedure :: tb => s","procedure, nopass :: np","generic :: gg => tb, np","generic, public :: assignment(=) => tb","final :: fin","interface","interface gi","abstract interface","interface operator(+)","module procedure s","module subroutine ms()","import","import, none","import :: t","use m","use m, only: a => b","use, intrinsic :: iso_c_binding","implicit none","implicit integer(a-z)","contains","private","public :: s","private :: ","block","bl: block","do i = 1, 3","do 10 i=1,3","10 continue","do while (i<3)","if (i > 0) then","else if (i<0) then","else","if (i>0) i = 1","select case (i)","case (1)","case default","select type (x => v)","type is (t)","class is (t)","class default","associate (q => v%c, r => i)","where (j > 0)","elsewhere","forall (i=1:3)","critical","enum, bind(c)","enumerator :: e1","include 'x.inc'","call s(1,2)","i = i + 1","v%c = 1","end","end module","end module m","end submodule","end program p","end subroutine","end function f","end type","end type t","end interface","end block","end do","end if","end select","end associate","end where","end forall","end critical","end enum","end procedure","endif","enddo","x = 'unterminated","print *, \"a ! b\" ! c","&","  & continued","a = b &","!> doc","!! doc","!< doc","#define X 1","#define F(a) a+1","#undef X","#ifdef X","#ifndef X","#if X > 1","#elif defined(Y)","#else","#endif","#include \"x.h\"","#define M \\",""]
sigs=collections.Counter(); ex={}; n=0; slow=[]
def run(text, path):
    global n
    f=FortranFile(path); f.set_contents(splitlines(text)); n+=1
    t=time.process_time()
    try:
        ast=f.parse(pp_defs={}, include_dirs=set()); f.ast=ast
        try: f.check_file({})
        except Exception as e:
            tb=traceback.extract_tb(e.__traceback__)[-1]; k=('CHECK',type(e).__name__, os.path.basename(tb.filename), tb.lineno); sigs[k]+=1; ex.setdefault(k,text)
    except Exception as e:
        tb=traceback.extract_tb(e.__traceback__)[-1]
        k=('PARSE',type(e).__name__, os.path.basename(tb.filename), tb.lineno)
        sigs[k]+=1; ex.setdefault(k,text)
    dt=time.process_time()-t
    if dt>1: slow.append((dt,text))
for sfx in ('.f90','.F90'):
    p='/var/tmp/vscratch/probe/zz'+sfx
    for a in stm: run(a+'\n',p)
    for a,b in itertools.product(stm,stm): run(a+'\n'+b+'\n',p)
random.seed(1)
for _ in range(60000):
    k=random.randint(3,7); run('\n'.join(random.choice(stm) for _ in range(k))+'\n','/var/tmp/vscratch/probe/zz'+random.choice(['.f90','.F90']))
print('parses',n)
for k,v in sigs.most_common(): print(v,k,repr(ex[k]))
print('slow',len(slow), slow[:2])
