from srv import *
import logging; logging.disable(logging.CRITICAL)
src1="""module shapes
  use iso_fortran_env, only: real64
  implicit none
  private
  public :: shape_t, area, make
  integer, parameter :: n = 3
  type :: shape_t
    real(real64) :: w = 1.0_real64
    integer :: id
  contains
    procedure :: area
    procedure, nopass :: make
  end type shape_t
  type, extends(shape_t) :: sq_t
    real :: s
  end type sq_t
  interface scale
    module procedure scale_i, scale_r
  end interface scale
  abstract interface
    function f_i(x) result(y)
      real, intent(in) :: x
      real :: y
    end function f_i
  end interface
contains
  function area(self) result(a)
    class(shape_t), intent(in) :: self
    real(real64) :: a
    a = self%w * 2
  end function area
  function make() result(s)
    type(shape_t) :: s
    s%id = n
  end function make
  subroutine scale_i(x, k)
    integer, intent(inout) :: x
    integer, intent(in) :: k
    integer :: i
    do i = 1, k
      if (x > 0) then
        x = x + 1
      else if (x < 0) then
        x = x - 1
      end if
    end do
    outer: block
      integer :: tmp
      tmp = x
      select case (tmp)
      case (1)
        x = 2
      case default
        x = 3
      end select
    end block outer
  contains
    subroutine inner()
      x = x + i
    end subroutine inner
  end subroutine scale_i
  subroutine scale_r(x, k)
    real, intent(inout) :: x
    real, intent(in) :: k
    associate (z => x)
      z = z * k
    end associate
    where ([x] > 0) x = 1
  end subroutine scale_r
end module shapes
program main
  use shapes, only: shape_t, mk => make
  implicit none
  type(shape_t) :: s
  s = mk()
  print *, s%area()
end program main
subroutine ext(a)
  integer :: a
end subroutine ext
"""
d=mkws({'a.f90':src1})
s,c=mkserver(d)
u=path_to_uri(d+'/a.f90')
s.handle({'jsonrpc':'2.0','method':'textDocument/didOpen','params':{'textDocument':{'uri':u}}})
for o in c.out:
    if o[0]=='note': print(o[1], json.dumps(o[2])[:600])
r=req(s,c,'textDocument/documentSymbol',{'textDocument':{'uri':u}})[-1][2]
for x in r: print(x['name'],x['kind'],x.get('containerName'),x['location']['range']['start']['line'],x['location']['range']['end']['line'])
r=req(s,c,'workspace/symbol',{'query':'a'})[-1][2]
print([(x['name'],x['kind'],x.get('containerName')) for x in r])
