from srv import *
import logging; logging.disable(logging.CRITICAL)
def diags(files, name, args=''):
    d=mkws(files); s,c=mkserver(d,args); u=path_to_uri(os.path.join(d,name))
    n=len(c.out)
    s.handle({'jsonrpc':'2.0','method':'textDocument/didOpen','params':{'textDocument':{'uri':u}}})
    out=[]
    for o in c.out[n:]:
        if o[0]=='note' and o[1].endswith('Diagnostics'):
            out+= [(x['severity'],x['range']['start']['line'],x['range']['start']['character'],x['range']['end']['character'],x['message']) for x in o[2]['diagnostics']]
        elif o[0]!='note': out.append(o)
    shutil.rmtree(d); return out
base_mod="module other\n type :: hidden_t\n integer :: q\n end type\nend module other\n"
cases={
'twice': "module m\n implicit none\n integer :: a\n real :: a\nend module m\n",
'mask': "module m\n implicit none\n integer :: a\ncontains\n subroutine s()\n  integer :: a\n end subroutine s\nend module m\n",
'bare-end-in-do': "subroutine s()\n integer :: i\n do i=1,2\n end\nend subroutine s\n",
'bare-end-in-if': "program p\n if (.true.) then\n end\nend program p\n",
'unknown-mod': "program p\n use nomod\nend program p\n",
'type-not-accessible': "program p\n type(hidden_t) :: v\nend program p\n",
'arg-undeclared': "subroutine s(a, b)\n implicit none\n integer :: a\nend subroutine s\n",
'intent-not-arg': "subroutine s(a)\n integer, intent(in) :: a\n integer, intent(in) :: zz\nend subroutine s\n",
'second-contains': "module m\ncontains\n subroutine s()\n end subroutine s\ncontains\nend module m\n",
'orphan-contains': "contains\n",
'orphan-implicit': "implicit none\n",
'orphan-private': "private\n",
'orphan-public': "public\n",
'import-outside': "subroutine s()\n import :: x\nend subroutine s\n",
'use-after-implicit': "module mm\nend module mm\nprogram p\n implicit none\n use mm\nend program p\n",
'proc-before-contains': "module m\n subroutine s()\n end subroutine s\nend module m\n",
'proc-in-type': "module m\n type t\n subroutine s()\n end subroutine s\n end type t\nend module m\n",
'proc-in-block': "program p\n block\n subroutine s()\n end subroutine s\n end block\nend program p\n",
'deferred': "module m\n type, abstract :: a_t\n contains\n  procedure(i_f), deferred :: f\n end type a_t\n abstract interface\n  subroutine i_f(s)\n   import a_t\n   class(a_t) :: s\n  end subroutine i_f\n end interface\n type, extends(a_t) :: c_t\n end type c_t\nend module m\n",
'long-line': "program p\n integer :: aaaaaaaaaaaaaaaaaaaaaaaaaaaaaaaaaaaaaaaaaaaaaaaaaaaa\nend program p\n",
}
for k,v in cases.items():
    files={'o.f90':base_mod,'a.f90':v}
    print(k,'->',diags(files,'a.f90','--max_line_length 40' if k=='long-line' else ''))
