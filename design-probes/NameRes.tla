---- MODULE NameRes ----
EXTENDS Naturals, Sequences, TLC, FiniteSets
CONSTANTS Mods, Names
\* A use clause: [mod, only : BOOLEAN, items : SUBSET [loc : Names, rem : Names]]
\* Scopes: modules, "p" (main program), "q" (procedure internal to p)
Scopes == Mods \cup {"p", "q"}
Host(s) == IF s = "q" THEN "p" ELSE "none"
VARIABLES decl,    \* [Scopes -> SUBSET Names]         names declared locally
          acc,     \* [Mods -> [Names -> {"def","pub","priv"}]]  explicit accessibility
          defpriv, \* [Mods -> BOOLEAN]                 PRIVATE default
          uses,    \* [Scopes -> SUBSET UseClause]
          bind,    \* after Finalize: [<<scope,name>> -> entity or "none"]
          done
vars == <<decl, acc, defpriv, uses, bind, done>>
Ent(s, n) == <<s, n>>
PublicIn(m, n) == acc[m][n] = "pub" \/ (acc[m][n] = "def" /\ ~defpriv[m])

\* name -> entity pairs visible in scope s by its own declarations and USE association.
\* visited guards against USE cycles: a module already on the path exports nothing new.
RECURSIVE Exported(_, _), Assoc(_, _)
Assoc(s, visited) ==
  {<<n, Ent(s, n)>> : n \in decl[s]} \cup
  UNION { LET ex == Exported(u.mod, visited \cup {s}) IN
          IF u.only
          THEN UNION {{<<i.loc, pr[2]>> : pr \in {x \in ex : x[1] = i.rem}} : i \in u.items}
          ELSE ex
        : u \in uses[s] }
Exported(m, visited) ==
  IF m \in visited THEN {} ELSE {pr \in Assoc(m, visited) : PublicIn(m, pr[1])}
RECURSIVE Resolve(_, _)
Resolve(s, n) ==
  IF s = "none" THEN {}
  ELSE IF n \in decl[s] THEN {Ent(s, n)}
  ELSE LET viaUse == {pr[2] : pr \in {x \in Assoc(s, {}) : x[1] = n}} IN
       IF viaUse # {} THEN viaUse ELSE Resolve(Host(s), n)

UseClause == [mod : Mods, only : BOOLEAN, items : SUBSET [loc : Names, rem : Names]]
Clauses == [mod : Mods, only : {FALSE}, items : {{}}] \cup [mod : Mods, only : {TRUE}, items : {{i} : i \in [loc : Names, rem : Names]}]
TypeOK == /\ decl \in [Scopes -> SUBSET Names]
Init == /\ decl \in [Scopes -> SUBSET Names]
        /\ acc \in [Mods -> [Names -> {"def","priv"}]]
        /\ defpriv \in [Mods -> BOOLEAN]
        /\ uses \in [Scopes -> {{}} \cup {{u} : u \in Clauses}]
        /\ \A s \in Scopes : \A u \in uses[s] : u.mod # s
        /\ bind = <<>> /\ done = FALSE
Sites == {<<s, n>> : s \in {"p","q"}, n \in Names}
Finalize == /\ ~done /\ done' = TRUE
            /\ bind' = [st \in Sites |-> Resolve(st[1], st[2])]
            /\ UNCHANGED <<decl, acc, defpriv, uses>>
Next == Finalize
\* properties of the reference semantics itself
Unambiguous == done => \A st \in Sites : Cardinality(bind[st]) <= 1
PrivateNeverOutside == done => \A st \in Sites : \A e \in bind[st] :
     (e[1] \in Mods) => PublicIn(e[1], e[2])
====
