from srv import *
import logging; logging.disable(logging.CRITICAL)
import re
exec(open('p7.py').read().split('d=mkws')[0].split('import logging; logging.disable(logging.CRITICAL)')[1])
src1=src1.replace("    where ([x] > 0) x = 1\n","")
def dump(text, name='a.f90', raw=False):
    d=mkws({}); p=os.path.join(d,name); open(p,'wb').write(text.encode() if not raw else text)
    s,c=mkserver(d); u=path_to_uri(p)
    s.handle({'jsonrpc':'2.0','method':'textDocument/didOpen','params':{'textDocument':{'uri':u}}})
    diags=[ (x['severity'],x['range']['start']['line'],x['message'][:40]) for o in c.out if o[0]=='note' and o[1].endswith('Diagnostics') for x in o[2]['diagnostics']]
    r=req(s,c,'textDocument/documentSymbol',{'textDocument':{'uri':u}})[-1][2]
    sy=[(x['name'].lower(),x['kind'],(x.get('containerName') or '').lower(),x['location']['range']['start']['line'],x['location']['range']['end']['line']) for x in r]
    return sy,diags, s.workspace[p].fixed
base=dump(src1)
print('base', len(base[0]), base[1], base[2])
def cmp(label, text, linemap=lambda l:l, **kw):
    r=dump(text, **kw)
    exp=[(n,k,c,linemap(a),linemap(b)) for (n,k,c,a,b) in base[0]]
    ok = (sorted(r[0])==sorted(exp)) and r[1]==base[1]
    print(label, 'OK' if ok else 'DIFF', '' if ok else (sorted(set(r[0])^set(exp))[:6], r[1][:5]), 'fixed=',r[2])
cmp('crlf', src1.replace('\n','\r\n'))
cmp('cr', src1.replace('\n','\r'))
cmp('trailing blanks', src1.replace('\n','   \n'))
cmp('upper', src1.upper())
cmp('blank lines x2', src1.replace('\n','\n\n'), lambda l: 2*l)
cmp('comment lines', src1.replace('\n','\n! c\n'), lambda l: 2*l)
# continuation: split after every comma
cmp('split after " :: "', re.sub(r' :: ', ' :: &\n      ', src1), lambda l: None)
