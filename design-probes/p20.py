import sys, io, json, os, shutil, tempfile, logging
sys.path.insert(0,'/repo'); logging.disable(logging.CRITICAL)
from fortls.interface import cli
from fortls.langserver import LangServer
from fortls.jsonrpc import JSONRPC2Connection, ReadWriter, path_to_uri
def frame(o): 
    b=json.dumps(o,ensure_ascii=False).encode(); return b"Content-Length: %d\r\n\r\n"%len(b)+b
def parse(out):
    res=[]; i=0
    while i<len(out):
        j=out.index(b"\r\n\r\n",i); n=None
        for h in out[i:j].decode('ascii').split("\r\n"):
            if h.lower().startswith("content-length:"): n=int(h.split(":")[1])
        body=out[j+4:j+4+n]; res.append(json.loads(body.decode('utf-8'))); i=j+4+n
    return res
def session(msgs, root):
    inp=io.BytesIO(b"".join(frame(m) for m in msgs)); out=io.BytesIO()
    a=cli('fortls').parse_args('--disable_autoupdate --incremental_sync --nthreads 1'.split())
    s=LangServer(JSONRPC2Connection(ReadWriter(inp,out)), vars(a)); s.run()
    return parse(out.getvalue())
d=tempfile.mkdtemp(dir='/var/tmp/vscratch/probe',prefix='ws')
open(d+'/a é.f90','w').write("!> doc with é € 😀\nmodule mé\n integer :: x\nend module mé\nprogram p\n integer, pointer :: q => q\n q = 1\nend program p\n")
u=path_to_uri(d+'/a é.f90')
msgs=[{"jsonrpc":"2.0","id":1,"method":"initialize","params":{"rootPath":d}},
 {"jsonrpc":"2.0","id":"s2","method":"textDocument/hover","params":{"textDocument":{"uri":u},"position":{"line":1,"character":8}}},
 {"jsonrpc":"2.0","id":3,"method":"textDocument/hover","params":{}},
 {"jsonrpc":"2.0","id":4,"method":"no/such","params":{}},
 {"jsonrpc":"2.0","method":"no/such/notification","params":{}},
 {"jsonrpc":"2.0","method":"textDocument/didOpen","params":{"textDocument":{"uri":u}}},
 {"jsonrpc":"2.0","method":"textDocument/didChange","params":{"bogus":1}},
 {"jsonrpc":"2.0","id":5,"method":"workspace/symbol","params":{"query":"m"}},
 {"jsonrpc":"2.0","id":6,"method":"shutdown","params":None},
 {"jsonrpc":"2.0","id":7,"method":"textDocument/documentSymbol","params":{"textDocument":{"uri":u}}},
 {"jsonrpc":"2.0","method":"exit"},
 {"jsonrpc":"2.0","id":8,"method":"workspace/symbol","params":{"query":"m"}}]
for m in session(msgs,d):
    print({k:(v if k!='result' else (str(v)[:90])) for k,v in m.items() if k!='jsonrpc'} if 'error' not in m else {'id':m['id'],'error':(m['error']['code'],m['error']['message'][:60])})
shutil.rmtree(d)
