from srv import *
import logging; logging.disable(logging.CRITICAL)
src="""module m
  implicit none
  type :: t1
    integer :: a
  end type t1
  type :: t2
    integer :: b
  end type t2
  interface
    subroutine ext(x, y)
      import :: t1
      import :: t2
      type(t1) :: x
      type(t2) :: y
    end subroutine ext
  end interface
end module m
"""
d=mkws({'a.f90':src}); s,c=mkserver(d); u=path_to_uri(d+'/a.f90'); n=len(c.out)
s.handle({'jsonrpc':'2.0','method':'textDocument/didOpen','params':{'textDocument':{'uri':u}}})
print(c.out[n:])
print(req(s,c,'textDocument/definition',pos(d,'a.f90',12,12))[-1])
print(req(s,c,'textDocument/hover',pos(d,'a.f90',13,12))[-1])
shutil.rmtree(d)
