from srv import *
import logging; logging.disable(logging.CRITICAL)
src="""module m
  implicit none
  type :: t
    integer :: c
  end type t
contains
  !> does things
  !! second line
  subroutine s(a, b, c, d, e, f, g)
    integer(kind=4), intent(in), dimension(:) :: a !< arg a doc
    real*8, intent(out) :: b(3,4)
    !> doc for c
    character(len=*), optional, intent(in) :: c
    character*10 :: d
    type(t), pointer, intent(inout) :: e
    class(t), allocatable :: f(:)
    real(kind=selected_real_kind(6, 30)), target :: g
    integer, parameter :: n = 3 * (2 + 1)
    double precision, save :: dp = 1.0d0
    logical :: l1, l2 = .true.
    character(len=5, kind=1) :: ck
    character(len=:), allocatable :: ca
    !! trailing doc for ca

    integer :: nodoc
    call s2(a, n, k=l1)
    call s2(a(1:2), (n+1), k=(l1))
  end subroutine s
  subroutine s2(x, y, k)
    integer :: x(:), y
    logical, optional :: k
  end subroutine s2
end module m
"""
d=mkws({'a.f90':src}); s,c=mkserver(d)
lines=src.split('\n')
import re
def hov(l,ch):
    r=req(s,c,'textDocument/hover',pos(d,'a.f90',l,ch))[-1]
    return r[2] and r[2]['contents']['value']
for name,l in [('a',9),('b',10),('c',12),('d',13),('e',14),('f',15),('g',16),('n',17),('dp',18),('l1',19),('l2',19),('ck',20),('ca',21),('nodoc',24)]:
    ch=re.search(r'::\s*.*?\b'+name+r'\b', lines[l]).end()-1
    print(name, '=>', repr(hov(l,ch)))
print('sub s =>', repr(hov(8,14)))
def sig(l,ch):
    r=req(s,c,'textDocument/signatureHelp',pos(d,'a.f90',l,ch))[-1]
    return r[2] and (r[2]['signatures'][0]['label'], [p['label'] for p in r[2]['signatures'][0]['parameters']], r[2]['activeParameter'])
L=25
for ch in range(lines[L].index('(')+1, len(lines[L])+1): print(L, ch, repr(lines[L][:ch][-8:]), sig(L,ch))
L=26
for ch in range(lines[L].index('(')+1, len(lines[L])+1): print(L, ch, repr(lines[L][:ch][-8:]), sig(L,ch))
shutil.rmtree(d)
