---- MODULE Scopes ----
EXTENDS Naturals, Sequences, TLC, FiniteSets
CONSTANTS MaxLines, MaxDepth
VARIABLES stack, closed, line, hist
vars == <<stack, closed, line, hist>>
Units == {"module","program","sub","fun"}
Procs == {"sub","fun"}
Blocks == {"do","if","block"}
Top == IF stack = <<>> THEN [kind |-> "none", phase |-> "none"] ELSE stack[Len(stack)]
Init == stack = <<>> /\ closed = {} /\ line = 0 /\ hist = <<>>
Push(k, ph) == /\ line < MaxLines /\ Len(stack) < MaxDepth
               /\ stack' = Append(stack, [kind |-> k, phase |-> ph, sline |-> line + 1, id |-> line + 1])
               /\ line' = line + 1 /\ closed' = closed
               /\ hist' = Append(hist, <<"open", k>>)
OpenUnit == /\ stack = <<>> /\ \E k \in Units : Push(k, "spec")
OpenProc == /\ Top.kind \in Units /\ Top.phase = "contains" /\ Len(stack) <= 2
            /\ \E k \in Procs : Push(k, "spec")
OpenType == /\ Top.kind \in Units /\ Top.phase = "spec" /\ Push("type", "spec")
OpenBlock == /\ Top.kind \in (Units \ {"module"}) \cup Blocks /\ Top.phase \in {"spec","exec"}
             /\ \E k \in Blocks : Push(k, "exec")
SetPhase(ph) == stack' = [stack EXCEPT ![Len(stack)].phase = ph]
Contains == /\ line < MaxLines /\ Top.kind \in Units /\ Top.phase \in {"spec","exec"} /\ Len(stack) <= 2
            /\ SetPhase("contains") /\ line' = line + 1 /\ closed' = closed /\ hist' = Append(hist, <<"contains">>)
Decl == /\ line < MaxLines /\ Top.phase = "spec" /\ Top.kind # "none"
        /\ line' = line + 1 /\ UNCHANGED <<stack, closed>> /\ hist' = Append(hist, <<"decl">>)
Exec == /\ line < MaxLines /\ Top.kind \in (Units \ {"module"}) \cup Blocks /\ Top.phase \in {"spec","exec"}
        /\ SetPhase("exec") /\ line' = line + 1 /\ closed' = closed /\ hist' = Append(hist, <<"exec">>)
End(form) == /\ line < MaxLines /\ stack # <<>>
             /\ (form = "bare" => Top.kind \in Units)
             /\ closed' = closed \cup {[kind |-> Top.kind, sline |-> Top.sline, eline |-> line + 1, depth |-> Len(stack)]}
             /\ stack' = SubSeq(stack, 1, Len(stack) - 1)
             /\ line' = line + 1 /\ hist' = Append(hist, <<"end", form>>)
Next == OpenUnit \/ OpenProc \/ OpenType \/ OpenBlock \/ Contains \/ Decl \/ Exec \/ \E f \in {"bare","kind","named"} : End(f)
Spec == Init /\ [][Next]_vars
WellNested == \A c \in closed : c.sline <= c.eline
View == <<stack, closed, line>>
====
