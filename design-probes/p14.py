from srv import *
import logging; logging.disable(logging.CRITICAL)
free="""module m
  implicit none
  integer :: n
contains
  subroutine s(a, b)
    integer, intent(in) :: a
    real, intent(out) :: b
    integer :: i, j
    do i = 1, a
      do j = 1, 2
        b = b + i * j
      end do
    end do
    if (a > 0) then
      b = 1.0
    end if
  end subroutine s
end module m
program p
  use m
  implicit none
  real :: x
  call s(n, x)
end program p
"""
fixed="""C a comment
      module m
      implicit none
      integer :: n
      contains
      subroutine s(a, b)
      integer, intent(in) :: a
      real, intent(out) :: b
      integer :: i, j
c     another comment
      do 10 i = 1, a
      do 10 j = 1, 2
        b = b + i
     &        * j
   10 continue
*     star comment
      if (a > 0) then
        b = 1.0
      end if
      end subroutine s
      end module m
      program p
      use m
      implicit none
      real :: x
      call s(n, x)
      end program p
"""
def dump(text,name):
    d=mkws({name:text}); p=os.path.join(d,name)
    s,c=mkserver(d); u=path_to_uri(p)
    s.handle({'jsonrpc':'2.0','method':'textDocument/didOpen','params':{'textDocument':{'uri':u}}})
    diags=[ (x['severity'],x['range']['start']['line'],x['message'][:50]) for o in c.out if o[0]=='note' and o[1].endswith('Diagnostics') for x in o[2]['diagnostics']]
    r=req(s,c,'textDocument/documentSymbol',{'textDocument':{'uri':u}})[-1][2]
    sy=[(x['name'].lower(),x['kind'],(x.get('containerName') or '').lower(),x['location']['range']['start']['line'],x['location']['range']['end']['line']) for x in r]
    allsc=[(sc.name, sc.get_type(), sc.sline, sc.eline) for sc in s.workspace[p].ast.get_scopes()]
    fx=s.workspace[p].fixed
    shutil.rmtree(d); return sy,diags,fx,allsc
for t,n in ((free,'a.f90'),(fixed,'a.f')):
    sy,dg,fx,sc=dump(t,n); print(n,'fixed=',fx); print(' sym',sy); print(' diag',dg); print(' scopes',sc)
