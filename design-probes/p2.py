import sys, io, json, subprocess, os
sys.path.insert(0,'/repo')
def frame(obj, order='cl-first', ensure_ascii=False):
    b=json.dumps(obj, ensure_ascii=ensure_ascii).encode('utf-8')
    if order=='cl-first':
        return b"Content-Length: %d\r\nContent-Type: application/vscode-jsonrpc; charset=utf8\r\n\r\n"%len(b)+b
    elif order=='ct-first':
        return b"Content-Type: application/vscode-jsonrpc; charset=utf8\r\nContent-Length: %d\r\n\r\n"%len(b)+b
    else:
        return b"Content-Length: %d\r\n\r\n"%len(b)+b
def run(msgs_bytes, args=()):
    p=subprocess.Popen(['/venv/bin/python','-m','fortls','--disable_autoupdate',*args],stdin=subprocess.PIPE,stdout=subprocess.PIPE,stderr=subprocess.PIPE,cwd='/repo')
    out,err=p.communicate(msgs_bytes, timeout=60)
    return out,err,p.returncode
def parse(out):
    res=[]; i=0
    while i<len(out):
        j=out.index(b"\r\n\r\n",i); hdr=out[i:j].decode(); n=None
        for h in hdr.split("\r\n"):
            if h.lower().startswith("content-length:"): n=int(h.split(":")[1])
        body=out[j+4:j+4+n]; res.append(json.loads(body)); i=j+4+n
    return res
os.makedirs('/var/tmp/vscratch/probe/ws',exist_ok=True)
open('/var/tmp/vscratch/probe/ws/a.f90','w').write("module m\n integer :: x\nend module m\n")
init={"jsonrpc":"2.0","id":1,"method":"initialize","params":{"rootPath":"/var/tmp/vscratch/probe/ws"}}
for order in ('cl-first','ct-first','cl-only'):
    msgs=frame(init,order)+frame({"jsonrpc":"2.0","id":2,"method":"workspace/symbol","params":{"query":"é"}},order)+frame({"jsonrpc":"2.0","method":"exit"},order)
    out,err,rc=run(msgs)
    try: r=parse(out)
    except Exception as e: r=('PARSEFAIL',e,out[:200])
    print(order, rc, [ (m.get('id'), 'result' in m, 'error' in m, m.get('method')) for m in r] if isinstance(r,list) else r)
    if err.strip(): print('  stderr:', err.decode()[-300:])
