---- MODULE DocLines ----
EXTENDS Naturals, Sequences, TLC, SequencesExt, FiniteSets
CONSTANTS MaxLines, MaxCols, MaxIns
Letters == {"a","b"}
Brk == {"CR","LF","CRLF"}
\* document = lines (Seq of Seq(Letters)), eols (Len = Len(lines)-1, each in Brk)
\* inserted text = same structure (tl, te)
VARIABLES lines, eols, edit, pl, pe
vars == <<lines, eols, edit, pl, pe>>
LineSet == UNION {[1..n -> Letters] : n \in 0..MaxCols}
TextLineSet == UNION {[1..n -> Letters] : n \in 0..MaxIns}
\* all structured texts with total symbol weight <= MaxIns (letters weigh 1, a break weighs 1)
Weight(tl, te) == Len(te) + FoldLeft(LAMBDA a, l : a + Len(l), 0, tl)
Texts == {t \in UNION {[tl : [1..n -> TextLineSet], te : [1..(n-1) -> Brk]] : n \in 1..(MaxIns+1)} : Weight(t.tl, t.te) <= MaxIns}
Init == /\ \E n \in 1..2 : lines \in [1..n -> {<<>>, <<"a">>, <<"a","b">>}] /\ eols \in [1..(n-1) -> Brk]
        /\ edit = [k |-> "open"] /\ pl = lines /\ pe = eols
Apply(sl, sc, el, ec, t) ==
  LET n == Len(t.tl)
      head == SubSeq(lines[sl], 1, sc)
      tail == SubSeq(lines[el], ec + 1, Len(lines[el]))
      mid == IF n = 1 THEN << head \o t.tl[1] \o tail >>
             ELSE << head \o t.tl[1] >> \o SubSeq(t.tl, 2, n - 1) \o << t.tl[n] \o tail >>
  IN /\ lines' = SubSeq(lines, 1, sl - 1) \o mid \o SubSeq(lines, el + 1, Len(lines))
     /\ eols' = SubSeq(eols, 1, sl - 1) \o t.te \o SubSeq(eols, el, Len(eols))
\* an edit that would fuse a CR with a following LF across the edit boundary (named corner)
SplitPair(sl, sc, el, ec, t) ==
  LET n == Len(t.tl) IN
  \/ (n > 1 /\ t.te[n-1] = "CR" /\ t.tl[n] = <<>> /\ ec = Len(lines[el]) /\ el < Len(lines) /\ eols[el] = "LF")
  \/ (n > 1 /\ t.te[1] = "LF" /\ t.tl[1] = <<>> /\ sc = 0 /\ sl > 1 /\ eols[sl-1] = "CR")
  \/ (n = 1 /\ t.tl[1] = <<>> /\ sc = 0 /\ sl > 1 /\ eols[sl-1] = "CR" /\ ec = Len(lines[el]) /\ el < Len(lines) /\ eols[el] = "LF" /\ ~(sl = el /\ sc = ec))
ChangeRange == \E sl \in 1..Len(lines) : \E el \in sl..Len(lines) :
               \E sc \in 0..Len(lines[sl]), ec \in 0..Len(lines[el]), t \in Texts :
      /\ (sl < el \/ sc <= ec)
      /\ ~SplitPair(sl, sc, el, ec, t)
      /\ Apply(sl, sc, el, ec, t)
      /\ edit' = [k |-> "range", sl |-> sl-1, sc |-> sc, el |-> el-1, ec |-> ec, tl |-> t.tl, te |-> t.te]
      /\ pl' = lines /\ pe' = eols
ChangeFull == \E t \in Texts : /\ lines' = t.tl /\ eols' = t.te /\ edit' = [k |-> "full", tl |-> t.tl, te |-> t.te]
                               /\ pl' = lines /\ pe' = eols
Small == Len(lines) <= MaxLines /\ \A i \in 1..Len(lines) : Len(lines[i]) <= MaxCols
Next == (ChangeRange \/ ChangeFull) /\ Small'
Shape == Len(eols) = Len(lines) - 1 /\ Len(lines) >= 1
LineCountLaw == edit.k = "range" => Len(lines) = Len(pl) - (edit.el - edit.sl) + Len(edit.tl) - 1
====
