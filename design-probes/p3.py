import sys, traceback
sys.path.insert(0,'/repo')
from fortls.parsers.internal.parser import FortranFile, splitlines, preprocess_file
def tryparse(text, path='/var/tmp/vscratch/probe/x.F90'):
    f=FortranFile(path); f.set_contents(splitlines(text))
    try:
        ast=f.parse(); return 'ok'
    except Exception as e:
        tb=traceback.extract_tb(e.__traceback__)[-1]
        return f'EXC {type(e).__name__}: {e} @ {tb.filename.split("/")[-1]}:{tb.lineno}'
cases={
 'proc-outside': "procedure(foo) :: bar\n",
 'proc-outside2': "procedure :: bar\n",
 'define-cont-blank': "#define X a \\\n\nprogram p\nend program p\n",
 'macro-backslash': "#define X a\\b\nprogram p\n integer :: X\nend program p\n",
 'macro-group': "#define X \\1\nprogram p\n integer :: X\nend program p\n",
 'func-macro-regex': "#define F(a,b) a+b\nprogram p\n x = F(1,2)\nend program p\n",
 'func-macro-meta': "#define F(a) (a\nprogram p\n x = F(1)\nend program p\n",
 'macro-name-weird': "#define A+ 1\n",
 'end-only': "end\n",
 'contains-only': "contains\n",
 'import-only': "import\n",
 'select-type-outside': "type is (integer)\n",
 'class-default-outside': "class default\n",
 'int-proc-outside': "module procedure foo\n",
 'generic-outside': "generic :: a => b\n",
 'elif-nostack': "#elif X\n#else\n#endif\n",
 'else-after-endif':"#if 1\n#endif\n#else\n",
 'do-label': "      do 10 i=1,2\n 10   continue\n",
 'use-only': "use\n",
 'assoc-bad': "associate(a=>b=>c)\nend associate\n",
 'include-dq': "include 'x\n",
 'kind-unfinished': "integer(kind=(\n",
 'char-star': "character*(*) x\n",
 'undef-nonexist': "#undef X\n#ifdef X\n#endif\n",
 'ppdef-in-skip': "#if 0\n#define X \\\n#endif\nprogram p\nend\n",
 'define-eol-backslash-only': "#define X \\\n",
 'semicolon-end': "program p; end program p; end\n",
 'vis-outside': "private\n",
 'implicit-outside': "implicit none\n",
}
for k,v in cases.items():
    print(k, '->', tryparse(v), '| plain:', tryparse(v,'/var/tmp/vscratch/probe/x.f90'))
