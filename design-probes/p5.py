from srv import *
import logging; logging.disable(logging.CRITICAL)
from fortls.parsers.internal.parser import preprocess_file
# C08 probes
def pp(text, defs=None):
    out,skips,defines,dd=preprocess_file(text.split('\n'), pp_defs=defs or {})
    return skips, dd
print(pp("#if (defined A || defined B)\nx\n#endif", {'A':'1'}))
print(pp("#if defined(A) || defined(B)\nx\n#endif", {'A':'1'}))
print(pp("#if (defined(A) || defined(B))\nx\n#endif", {'A':'1'}))
print(pp("#if defined A\nx\n#endif", {'A':'1'}))
print(pp("#if A > 1\nx\n#else\ny\n#endif", {'A':'2'}))
print(pp("#if 0\nx\n#elif 1\ny\n#elif 1\nz\n#else\nw\n#endif", {}))
print(pp("#if 1\n#if 0\nx\n#elif 1\ny\n#endif\n#else\nw\n#endif", {}))
print(pp("#ifdef A\n#define B 1\n#else\n#define C 1\n#endif", {}))
# C17 probe
import os
marker='/var/tmp/vscratch/probe/PWNED'
if os.path.exists(marker): os.remove(marker)
print(pp("#define X __import__('os').system('touch /var/tmp/vscratch/probe/PWNED')\n#if X\nx\n#endif", {}))
print('C17 executed:', os.path.exists(marker))
# C19 probe
d=mkws({'a.F90':"#ifdef FOO\nmodule mfoo\nend module\n#endif\n", '.fortlsrc':'{"nthreads": 1}'})
s,c=mkserver(d, args='--pp_defs {"FOO":"1"} --pp_suffixes .F90')
print('C19 pp_defs after config w/o pp_defs:', s.pp_defs, s.pp_suffixes)
d=mkws({'a.f90':"module m\nend module\n", '.fortlsrc':'[1,2]'})
try:
    s,c=mkserver(d); print('C19 list config:', c.out)
except Exception as e: print('EXC',e)
d=mkws({'a.f90':"module m\nend module\n", '.fortlsrc':'{bad json'})
s,c=mkserver(d); print('C19 bad json:', [o for o in c.out])
d=mkws({'a.f90':"module m\nend module\n", '.fortlsrc':'{"nthreads":"x", "excl_paths": 5}'})
s,c=mkserver(d); print('C19 bad types:', [o for o in c.out])
