import sys, subprocess, itertools, os, logging
sys.path.insert(0,'/repo'); logging.disable(logging.CRITICAL)
from fortls.parsers.internal.parser import preprocess_file
def impl(text, defs):
    out,skips,defines,dd=preprocess_file(text.split('\n'), pp_defs=dict(defs))
    dead=set()
    for a,b in skips: dead|=set(range(a,b+1))
    return dead, dd
def ref(text, defs):
    # mark each non-directive line with a unique token; run clang -E
    lines=text.split('\n'); src=[]
    for i,l in enumerate(lines,1):
        src.append(l if l.lstrip().startswith('#') else f'LINE_{i}_')
    args=['clang','-E','-P','-x','c','-undef','-']+[f'-D{k}={v}' for k,v in defs.items()]
    p=subprocess.run(args,input='\n'.join(src),capture_output=True,text=True)
    if p.returncode: return None
    import re
    live=set(int(x) for x in re.findall(r'LINE_(\d+)_',p.stdout))
    code=[i for i,l in enumerate(lines,1) if not l.lstrip().startswith('#')]
    return set(code)-live
conds=['defined(A)','defined A','!defined(A)','! defined (A)','defined(A) && defined(B)','defined(A)||defined(B)','(defined A || defined B)','(defined(A) || defined(B)) && !defined(C)','A','A > 1','A == 1','A != 1','A >= 1 && B < 3','!(A == 1)','!A','A && !B','defined(A) && A > 0','0','1','(1)','C','C == 0','A+1 == 2','A == 1 ? 1 : 0']
bad=0
for cnd in conds:
    for defs in ({},{'A':'1'},{'A':'2','B':'2'},{'B':'1'}):
        for shape in ("#if {c}\nx\n#endif","#if {c}\nx\n#else\ny\n#endif","#if 0\nw\n#elif {c}\nx\n#else\ny\n#endif","#ifdef B\n#if {c}\nx\n#elif defined(A)\nz\n#endif\n#else\ny\n#endif"):
            t=shape.format(c=cnd); r=ref(t,defs)
            if r is None: continue
            i,_=impl(t,defs); code={k for k,l in enumerate(t.split('\n'),1) if not l.startswith('#')}
            if (i&code)!=r:
                bad+=1; print('DIFF cond=',repr(cnd),'defs=',defs,'shape=',shape.replace('\n','|')[:40],'impl dead',sorted(i&code),'ref dead',sorted(r))
print('total diffs',bad)
