import sys, os, glob, traceback, logging, time, collections, random
sys.path.insert(0,'/repo'); logging.disable(logging.CRITICAL)
import faulthandler; faulthandler.dump_traceback_later(900, exit=True)
from fortls.parsers.internal.parser import FortranFile, splitlines
files=[f for f in glob.glob('/repo/test/test_source/**/*', recursive=True) if os.path.isfile(f) and f.lower().endswith(('.f90','.f','.f08','.h'))]
sigs=collections.Counter(); ex={}; n=0; slow=[]
def run(text, path):
    global n
    f=FortranFile(path); f.set_contents(splitlines(text)); n+=1
    t=time.process_time()
    try: f.parse(pp_defs={}, include_dirs=set())
    except Exception as e:
        tb=traceback.extract_tb(e.__traceback__)[-1]
        k=(type(e).__name__, os.path.basename(tb.filename), tb.lineno)
        sigs[k]+=1; ex.setdefault(k,(path,text[-120:]))
    dt=time.process_time()-t
    if dt>1: slow.append((dt,path,len(text)))
random.seed(0)
for fp in files:
    txt=open(fp,encoding='utf-8',errors='replace').read()
    lines=txt.split('\n')
    for suffix in ('.f90','.F90'):
        path='/var/tmp/vscratch/probe/zz'+suffix
        # every line prefix
        for i in range(0,len(lines)+1, 1 if len(lines)<120 else 3):
            run('\n'.join(lines[:i]), path)
        # char-level truncation of 30 random lines
        for _ in range(30):
            i=random.randrange(len(lines)); 
            if not lines[i]: continue
            j=random.randrange(len(lines[i])+1)
            run('\n'.join(lines[:i]+[lines[i][:j]]), path)
        # single-line deletions (20 random)
        for _ in range(20):
            i=random.randrange(len(lines)); run('\n'.join(lines[:i]+lines[i+1:]), path)
print('parses',n,'files',len(files))
for k,v in sigs.most_common(): print(v,k,repr(ex[k][1][-80:]))
print('slow',sorted(slow)[-5:])
