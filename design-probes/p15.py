from srv import *
import logging; logging.disable(logging.CRITICAL)
import re, itertools, random
files={
'a.f90':"module ma\n implicit none\n type :: t\n  integer :: c\n contains\n  procedure :: f => f_impl\n end type t\n interface gen\n  module procedure g1\n end interface gen\ncontains\n subroutine f_impl(self)\n  class(t) :: self\n end subroutine f_impl\n subroutine g1(i)\n  integer :: i\n end subroutine g1\nend module ma\n",
'b.f90':"module mb\n use ma\n implicit none\n type, extends(t) :: u\n  integer :: d\n end type u\n type(u) :: gv\nend module mb\n",
'c.f90':"program pc\n use mb\n implicit none\n include 'inc.f90'\n type(u) :: v\n v%c = 1\n v%d = iv\n call v%f()\n call gen(iv)\n gv%c = 2\nend program pc\n",
'inc.f90':"integer :: iv\n",
'sm.f90':"submodule (mp) sm\ncontains\n module procedure mpr\n  x = 1\n end procedure mpr\nend submodule sm\n",
'mp.f90':"module mp\n integer :: x\n interface\n  module subroutine mpr()\n  end subroutine mpr\n end interface\nend module mp\n",
}
def battery(s,c,d):
    out={}
    for f in sorted(files):
        p=os.path.join(d,f); u=path_to_uri(p)
        r=req(s,c,'textDocument/documentSymbol',{'textDocument':{'uri':u}})[-1]
        out[f+':sym']=sorted(json.dumps(x,sort_keys=True).replace(d,'') for x in (r[2] or [])) if r[0]=='resp' else r
        for l,line in enumerate(files[f].split('\n')):
            for m in re.finditer(r'[A-Za-z_]\w*', line):
                for meth in ('definition','hover'):
                    r=req(s,c,'textDocument/'+meth,pos(d,f,l,m.start()+1))[-1]
                    out[f'{f}:{l}:{m.start()}:{meth}']=json.dumps(r[2],sort_keys=True).replace(d,'') if r[0]=='resp' else ('ERR',r[3][:60])
        n=len(c.out)
        s.handle({'jsonrpc':'2.0','method':'textDocument/didSave','params':{'textDocument':{'uri':u}}})
        out[f+':diag']=[json.dumps(o[2]['diagnostics'],sort_keys=True).replace(d,'') for o in c.out[n:] if o[0]=='note' and o[1].endswith('Diagnostics')]
    return out
def diff(a,b): return {k:(a.get(k),b.get(k)) for k in set(a)|set(b) if a.get(k)!=b.get(k)}
d=mkws(files)
s,c=mkserver(d); ref=battery(s,c,d)
print('ref keys',len(ref), 'errors:', [k for k,v in ref.items() if isinstance(v,tuple)][:5])
# different nthreads
for nt in (2,4,16):
    a=cli('fortls').parse_args(f'--disable_autoupdate --incremental_sync --nthreads {nt}'.split()); cc=Conn(); ss=LangServer(cc,vars(a)); ss.handle({'jsonrpc':'2.0','id':0,'method':'initialize','params':{'rootPath':d}})
    print('nthreads',nt,'diff',len(diff(ref,battery(ss,cc,d))))
# listing order permutations
import os as _os
orig=_os.listdir
random.seed(1)
for k in range(6):
    perm=list(files); random.shuffle(perm)
    _os.listdir=lambda p, perm=perm: [x for x in perm if x in orig(p)] + [x for x in orig(p) if x not in perm]
    ss,cc=mkserver(d); _os.listdir=orig
    df=diff(ref,battery(ss,cc,d)); print('order',perm,'diff',len(df), list(df.items())[:2])
# open one by one on empty root
e=mkws({})
for k in range(6):
    perm=list(files); random.shuffle(perm)
    ss,cc=mkserver(e)
    for f in perm: ss.handle({'jsonrpc':'2.0','method':'textDocument/didOpen','params':{'textDocument':{'uri':path_to_uri(os.path.join(d,f))}}})
    df=diff(ref,battery(ss,cc,d)); print('open order',perm,'diff',len(df), list(df.items())[:2])
shutil.rmtree(d); shutil.rmtree(e)
