from srv import *
import logging; logging.disable(logging.CRITICAL)
def defs(files, queries):
    d=mkws(files); s,c=mkserver(d); out=[]
    for (f,l,ch,exp) in queries:
        r=req(s,c,'textDocument/definition',pos(d,f,l,ch))[-1]
        got = ('ERR',r[3][:50]) if r[0]=='err' else (r[2] and (r[2]['uri'].split('/')[-1], r[2]['range']['start']['line']))
        out.append((f,l,ch,'exp',exp,'got',got,'OK' if got==exp else '**DIFF**'))
    shutil.rmtree(d); return out
m1="module m1\n implicit none\n integer :: x\n integer :: y\nend module m1\n"
# 1. private default in re-exporting module hides m1's x; host x must win
t1={'m1.f90':m1,'m2.f90':"module m2\n use m1\n implicit none\n private\n integer, public :: w\nend module m2\n",
    'p.f90':"program p\n implicit none\n integer :: x\ncontains\n subroutine q()\n  use m2\n  x = w\n end subroutine q\nend program p\n"}
for r in defs(t1,[('p.f90',6,2,('p.f90',2)),('p.f90',6,6,('m2.f90',4))]): print('privdefault-reexport',r)
# 2. explicit public re-export of a used name under default private
t2={'m1.f90':m1,'m2.f90':"module m2\n use m1\n implicit none\n private\n public :: x\nend module m2\n",
    'p.f90':"program p\n use m2\n implicit none\n x = 1\nend program p\n"}
for r in defs(t2,[('p.f90',3,1,('m1.f90',2))]): print('explicit-public-reexport',r)
# 3. rename without ONLY
t3={'m1.f90':m1,'p.f90':"program p\n use m1, lx => x\n implicit none\n lx = y\nend program p\n"}
for r in defs(t3,[('p.f90',3,1,('m1.f90',2)),('p.f90',3,6,('m1.f90',3))]): print('rename-no-only',r)
# 4. only list hides other names; host provides
t4={'m1.f90':m1,'p.f90':"program p\n implicit none\n integer :: y\ncontains\n subroutine q()\n  use m1, only: x\n  x = y\n end subroutine q\nend program p\n"}
for r in defs(t4,[('p.f90',6,2,('m1.f90',2)),('p.f90',6,6,('p.f90',2))]): print('only-hides',r)
# 5. private entity explicit
t5={'m1.f90':"module m1\n implicit none\n integer, private :: x\n integer :: y\nend module m1\n",'p.f90':"program p\n implicit none\n integer :: x\ncontains\n subroutine q()\n  use m1\n  x = y\n end subroutine q\nend program p\n"}
for r in defs(t5,[('p.f90',6,2,('p.f90',2)),('p.f90',6,6,('m1.f90',3))]): print('private-entity',r)
# 6. private statement with list
t6={'m1.f90':"module m1\n implicit none\n integer :: x, y\n private :: x\nend module m1\n",'p.f90':"program p\n implicit none\n integer :: x\ncontains\n subroutine q()\n  use m1\n  x = y\n end subroutine q\nend program p\n"}
for r in defs(t6,[('p.f90',6,2,('p.f90',2)),('p.f90',6,6,('m1.f90',2))]): print('private-stmt',r)
# 7. extends chain + components
t7={'a.f90':"module ma\n implicit none\n type :: r\n  integer :: cr\n end type r\n type, extends(r) :: t\n  integer :: ct\n end type t\n type, extends(t) :: u\n  type(t) :: inner\n end type u\nend module ma\n",
    'p.f90':"program p\n use ma\n implicit none\n type(u) :: v\n v%cr = 1\n v%ct = 2\n v%inner%cr = 3\n v%t%cr = 4\nend program p\n"}
for r in defs(t7,[('p.f90',4,3,('a.f90',3)),('p.f90',5,3,('a.f90',6)),('p.f90',6,9,('a.f90',3)),('p.f90',6,3,('a.f90',9)),('p.f90',7,5,('a.f90',3))]): print('extends-chain',r)
# 8. shadowing: local in inner proc vs module var vs block
t8={'p.f90':"module mm\n implicit none\n integer :: z\ncontains\n subroutine a()\n  integer :: z\n  z = 1\n  block\n   integer :: z\n   z = 2\n  end block\n end subroutine a\n subroutine b()\n  z = 3\n end subroutine b\nend module mm\n"}
for r in defs(t8,[('p.f90',6,2,('p.f90',5)),('p.f90',9,3,('p.f90',8)),('p.f90',13,2,('p.f90',2))]): print('shadowing',r)
