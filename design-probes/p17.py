from srv import *
import logging; logging.disable(logging.CRITICAL)
files={'m1.f90':"module m1\n implicit none\n private\n integer, public :: alpha\n integer :: abeta\n public :: asub\n type, public :: atype\n  integer :: comp1\n  integer :: comp2\n contains\n  procedure :: ameth\n end type atype\n type, extends(atype), public :: btype\n  integer :: comp3\n end type btype\ncontains\n subroutine asub()\n end subroutine asub\n subroutine ameth(s)\n  class(atype) :: s\n end subroutine ameth\n subroutine apriv()\n end subroutine apriv\nend module m1\n",
'p.f90':"program p\n use m1, only: alpha, asub, btype\n use m\n implicit none\n integer :: aloc\n type(btype) :: bv\n type(a) :: q\n aloc = al\n call as\n bv%co = 1\n call bv%am\n aloc = AL\nend program p\n"}
d=mkws(files); s,c=mkserver(d)
lines=files['p.f90'].split('\n')
def comp(l,ch):
    r=req(s,c,'textDocument/completion',pos(d,'p.f90',l,ch))[-1]
    if r[0]=='err': return ('ERR',r[3][:60])
    return sorted((x['label'],x['kind']) for x in (r[2] or []))
def user(lst): return [x for x in lst if isinstance(x,tuple) and x[0].lower() in ('alpha','abeta','asub','atype','btype','comp1','comp2','comp3','ameth','apriv','aloc','bv','q','m1','p')] if isinstance(lst,list) else lst
print('use m|', user(comp(2,6)), len(comp(2,6)))
print('use m1, only: a|', user(comp(1,16)))
print('aloc = al|', user(comp(7,len(lines[7]))))
print('call as|', user(comp(8,len(lines[8]))))
print('bv%co|', comp(9,6))
print('bv%|', comp(9,4))
print('call bv%am|', comp(10,len(lines[10])))
print('type(a|', user(comp(6,7)))
print('AL| upper', user(comp(11,len(lines[11]))))
shutil.rmtree(d)
