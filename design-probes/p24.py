import sys, os, glob, traceback, logging, time, collections, random, shutil
sys.path.insert(0,'/repo'); sys.path.insert(0,'/var/tmp/vscratch/probe'); logging.disable(logging.CRITICAL)
import faulthandler; faulthandler.dump_traceback_later(1700, exit=True)
from srv import *
root='/var/tmp/vscratch/probe/ts'; shutil.rmtree(root,ignore_errors=True); shutil.copytree('/repo/test/test_source',root)
for f in ('.fortls','fortls_debug.log','f90_config.json'): 
    try: os.remove(os.path.join(root,f))
    except OSError: pass
s,c=mkserver(root)
print('init msgs',[o for o in c.out if o[0]!='resp'][:5], 'files',len(s.workspace))
meths=['hover','definition','implementation','references','documentHighlight','rename','signatureHelp','completion']
sigs=collections.Counter(); ex={}; n=0; bad_ranges=collections.Counter(); exr={}
def check_ranges(res, meth, where):
    # collect all {uri?, range} in result
    def walk(o, uri=None):
        if isinstance(o,dict):
            u=o.get('uri',uri)
            if 'range' in o and isinstance(o['range'],dict) and 'start' in o['range']:
                yield (u,o['range'])
            if 'changes' in o:
                for uu,eds in o['changes'].items():
                    for e in eds: yield (uu,e['range'])
            for k,v in o.items():
                if k not in ('range','changes'): yield from walk(v,u)
        elif isinstance(o,list):
            for x in o: yield from walk(x,uri)
    for u,r in walk(res, where[0]):
        from fortls.jsonrpc import path_from_uri
        p=path_from_uri(u) if u and u.startswith('file://') else where[0]
        fo=s.workspace.get(p)
        if fo is None: bad_ranges[(meth,'unknown-file')]+=1; exr.setdefault((meth,'unknown-file'),(where,u)); continue
        L=fo.contents_split
        for end in ('start','end'):
            l,ch=r[end]['line'],r[end]['character']
            if not (0<=l<len(L)) : bad_ranges[(meth,'line-oob')]+=1; exr.setdefault((meth,'line-oob'),(where,r)); break
            if not (0<=ch<=len(L[l])): bad_ranges[(meth,'char-oob')]+=1; exr.setdefault((meth,'char-oob'),(where,r,len(L[l]))); break
        else:
            if (r['start']['line'],r['start']['character'])>(r['end']['line'],r['end']['character']): bad_ranges[(meth,'start>end')]+=1; exr.setdefault((meth,'start>end'),(where,r))
import fortls.langserver as ls
orig=ls.traceback.format_exc
last={}
files=sorted(s.workspace)
random.seed(3)
t0=time.time()
for p in files:
    fo=s.workspace[p]; L=fo.contents_split
    for l in range(len(L)+1):
        line=L[l] if l<len(L) else ''
        cols=list(range(0,len(line)+2,2))
        for ch in cols:
            for m in meths:
                kw={'newName':'zz'} if m=='rename' else {}
                nn=len(c.out)
                try:
                    s.handle({'jsonrpc':'2.0','id':1,'method':'textDocument/'+m,'params':{'textDocument':{'uri':path_to_uri(p)},'position':{'line':l,'character':ch},**kw}})
                except BaseException as e:
                    sigs[(m,'ESCAPED',type(e).__name__)]+=1; continue
                n+=1
                o=c.out[-1]
                if o[0]=='err':
                    k=(m,o[3][:70]); sigs[k]+=1; ex.setdefault(k,(os.path.relpath(p,root),l,ch,line[:60]))
                elif o[0]=='resp' and o[2] is not None:
                    check_ranges(o[2],m,(p,l,ch))
                del c.out[nn:]
    if time.time()-t0>1500: print('time budget hit at',p); break
print('requests',n)
for k,v in sigs.most_common(): print(v,k,ex.get(k))
for k,v in bad_ranges.most_common(): print('RANGE',v,k,exr[k])
shutil.rmtree(root)
